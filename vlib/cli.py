from __future__ import annotations
import argparse, importlib, os, sys, traceback


def main() -> int:
    ap = argparse.ArgumentParser()
    ap.add_argument("prop")
    ap.add_argument("--tier", default=os.environ.get("VERIF_TIER", "quick"), choices=["quick", "thorough"])
    ap.add_argument("--replay")
    a = ap.parse_args()
    # hard watchdog: a hung harness is exit 2 (no verdict), never a silent pass or a violation
    import faulthandler
    limit = int(os.environ.get("VERIF_TIMEOUT", "1500" if a.tier == "quick" else "7200"))
    faulthandler.enable()

    def _abort():
        print(f"[{a.prop}] harness timeout after {limit}s (not a verdict)", flush=True)
        faulthandler.dump_traceback()
        os._exit(2)
    import threading
    wd = threading.Timer(limit, _abort)
    wd.daemon = True
    wd.start()
    mod = importlib.import_module(f"props.{a.prop.lower()}")
    if a.replay:
        return mod.replay(a.replay)
    try:
        return mod.run(a.tier)
    except SystemExit:
        raise
    except BaseException:
        traceback.print_exc()
        print(f"[{a.prop}] harness error (not a verdict)", flush=True)
        return 2


if __name__ == "__main__":
    sys.exit(main())
