from __future__ import annotations
import argparse, importlib, os, sys, traceback


def main() -> int:
    ap = argparse.ArgumentParser()
    ap.add_argument("prop")
    ap.add_argument("--tier", default=os.environ.get("VERIF_TIER", "quick"), choices=["quick", "thorough"])
    ap.add_argument("--replay")
    a = ap.parse_args()
    mod = importlib.import_module(f"props.{a.prop.lower()}")
    if a.replay:
        return mod.replay(a.replay)
    try:
        return mod.run(a.tier)
    except SystemExit:
        raise
    except BaseException:
        traceback.print_exc()
        print(f"[{a.prop}] harness error (not a verdict)", flush=True)
        return 2


if __name__ == "__main__":
    sys.exit(main())
