"""Running the real semantiva code in-process for the correspondence harnesses."""
from __future__ import annotations

import contextlib
import glob
import io
import json
import logging
import os
import shutil
import sys
import tempfile
from pathlib import Path
from typing import Any

_READY = False


def setup():
    """Register the repo's example components (+ the harness' own) once, silence logging."""
    global _READY
    if _READY:
        return
    logging.disable(logging.CRITICAL)
    from semantiva.registry import RegistryProfile, apply_profile
    apply_profile(RegistryProfile(modules=["semantiva.examples.test_utils"]))
    _READY = True


def quiet_logger():
    from semantiva.logger import Logger
    lg = Logger()
    try:
        lg.set_verbose_level("ERROR")
    except Exception:
        pass
    return lg


@contextlib.contextmanager
def tempdir(prefix="verif-"):
    d = tempfile.mkdtemp(prefix=prefix)
    try:
        yield Path(d)
    finally:
        shutil.rmtree(d, ignore_errors=True)


def read_trace(path: Path) -> list[dict]:
    """All records of a trace output (file or directory), file by file, line by line."""
    files = [str(path)] if path.is_file() else sorted(glob.glob(str(path / "*.jsonl")))
    out = []
    for fn in files:
        with open(fn) as fh:
            for line in fh:
                line = line.strip()
                if line:
                    try:
                        out.append(json.loads(line))
                    except ValueError:
                        out.append({"record_type": "<unparsable-line>", "raw": line[:400]})
    return out


def read_trace_files(path: Path) -> dict[str, list[dict]]:
    files = [str(path)] if path.is_file() else sorted(glob.glob(str(path / "*.jsonl")))
    out = {}
    for fn in files:
        with open(fn) as fh:
            recs = []
            for l in fh:
                if not l.strip():
                    continue
                try:
                    recs.append(json.loads(l))
                except ValueError:
                    # not JSON: kept as a marker record so that the trace oracles can report it instead of crashing the harness
                    recs.append({"record_type": "<unparsable-line>", "raw": l[:400]})
            out[os.path.basename(fn)] = recs
    return out


def run_pipeline(nodes: list[dict], ctx: dict | None = None, data=None, trace_dir: Path | None = None,
                 detail: str | None = None, trace_file: Path | None = None):
    """Run Pipeline(nodes).process(Payload(data, ctx)). Returns dict(ok, data, context, exc)."""
    setup()
    from semantiva.pipeline import Pipeline, Payload
    from semantiva.context_processors import ContextType
    from semantiva.data_types import NoDataType
    driver = None
    if trace_dir is not None or trace_file is not None:
        from semantiva.trace.drivers.jsonl import JsonlTraceDriver
        target = str(trace_dir if trace_dir is not None else trace_file)
        driver = JsonlTraceDriver(target, detail=detail) if detail else JsonlTraceDriver(target)
    res: dict[str, Any] = {"ok": False, "data": None, "context": None, "exc": None, "driver": driver}
    try:
        pipe = Pipeline(nodes, trace=driver) if driver is not None else Pipeline(nodes)
        res["pipeline"] = pipe
        payload = Payload(NoDataType() if data is None else data, ContextType(dict(ctx or {})))
        out = pipe.process(payload)
        res.update(ok=True, data=out.data, context=out.context)
    except BaseException as exc:  # noqa: BLE001 - the harness reports, never hides
        res["exc"] = exc
    return res


def cli(argv: list[str], cwd: Path | None = None) -> tuple[int, str, str]:
    """semantiva.cli.main(argv) in-process; returns (exit code, stdout, stderr)."""
    setup()
    import semantiva.cli as cli_mod
    out, err = io.StringIO(), io.StringIO()
    old = os.getcwd()
    code = 0
    try:
        if cwd is not None:
            os.chdir(cwd)
        with contextlib.redirect_stdout(out), contextlib.redirect_stderr(err):
            try:
                cli_mod.main(argv)
            except SystemExit as exc:
                code = exc.code if isinstance(exc.code, int) else (0 if exc.code is None else 1)
            except BaseException:  # noqa: BLE001
                # what a `semantiva` process does with an exception nobody handles: traceback on stderr, exit status 1
                import traceback
                err.write("Traceback (uncaught exception leaving semantiva.cli.main):\n" + traceback.format_exc())
                code = 1
    finally:
        os.chdir(old)
        logging.disable(logging.CRITICAL)
    return code, out.getvalue(), err.getvalue()
