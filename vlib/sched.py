"""Deterministic thread scheduler at line granularity (sys.settrace), for C14/C15.

Worker threads run one at a time.  A worker pauses at every `call`/`line` event inside the traced
files and waits until the controller hands it the token.  A schedule is the sequence of thread ids
chosen at the scheduling points; after the given prefix is exhausted the policy is non-preemptive
(keep running the current thread while it is enabled, else the lowest enabled id).  A thread that is
about to execute `with <lock>:` on a lock that is held is *disabled* (never chosen), so the harness
cannot deadlock itself.  `explore` enumerates schedules up to a preemption bound by re-execution.
"""
from __future__ import annotations

import linecache
import re
import sys
import threading
import time
from typing import Callable

_WITH = re.compile(r"^\s*with\s+([A-Za-z_][A-Za-z_0-9\.]*)\s*(?:as\s+\w+\s*)?:")


class Execution:
    def __init__(self, files: set[str], bodies: list[Callable[[], None]], prefix: list[int], step_timeout: float = 5.0,
                 yield_names: frozenset = frozenset()):
        self.files = files
        self.bodies = bodies
        self.prefix = list(prefix)
        self.cv = threading.Condition()
        self.n = len(bodies)
        self.waiting: dict[int, tuple] = {}      # tid -> (frame, where) paused at a scheduling point
        self.finished: set[int] = set()
        self.token: int | None = None            # thread allowed to run
        self.running: int | None = None
        self.trace: list[int] = []               # chosen thread at every scheduling point
        self.enabled_at: list[list[int]] = []    # enabled threads at every scheduling point
        self.errors: dict[int, BaseException] = {}
        self.step_timeout = step_timeout
        self.timed_out = False
        self.holds: dict[int, set[int]] = {}     # tid -> ids of locks it entered through a traced `with`
        self.yield_names = yield_names           # a thread entering one of these functions offers the token to the next thread
        self.where_at: list[tuple] = []          # (function, line, event) the chosen thread was paused at, per scheduling point
        self.yield_at: list[bool] = []           # the previously running thread was at a yield point (a switch there is voluntary)

    # ---- worker side -----------------------------------------------------------------------------
    def _pause(self, tid: int, frame, where):
        with self.cv:
            self.waiting[tid] = (frame, where)
            if self.running == tid:
                self.running = None
            self.cv.notify_all()
            while self.token != tid:
                if not self.cv.wait(self.step_timeout * 4):
                    self.timed_out = True
                    raise SystemExit("scheduler timeout")
            self.token = None
            self.waiting.pop(tid, None)
            self.running = tid

    def _tracer(self, tid: int):
        def tr(frame, event, arg):
            if frame.f_code.co_filename not in self.files:
                return None
            if event in ("call", "line"):
                self._pause(tid, frame, (frame.f_code.co_name, frame.f_lineno, event))
            return tr
        return tr

    def _worker(self, tid: int):
        # initial pause so that every thread starts under the controller's authority
        self._pause(tid, None, ("<start>", 0, "start"))
        sys.settrace(self._tracer(tid))
        try:
            self.bodies[tid]()
        except SystemExit:
            pass
        except BaseException as exc:  # noqa: BLE001 - reported by the harness
            self.errors[tid] = exc
        finally:
            sys.settrace(None)
            with self.cv:
                self.finished.add(tid)
                if self.running == tid:
                    self.running = None
                self.cv.notify_all()

    # ---- controller side -----------------------------------------------------------------------------
    def _lock_at(self, tid: int):
        """The lock object a paused thread is about to enter/leave through a `with <lock>:` line, if any."""
        frame, where = self.waiting[tid]
        if frame is None or where[2] != "line":
            return None
        line = linecache.getline(frame.f_code.co_filename, frame.f_lineno)
        m = _WITH.match(line)
        if not m:
            return None
        try:
            parts = m.group(1).split(".")
            obj = frame.f_locals.get(parts[0], frame.f_globals.get(parts[0]))
            for p in parts[1:]:
                obj = getattr(obj, p)
        except Exception:
            return None
        return obj if callable(getattr(obj, "locked", None)) else None

    def _is_enabled(self, tid: int) -> bool:
        obj = self._lock_at(tid)
        if obj is None:
            return True
        if id(obj) in self.holds.get(tid, ()):
            return True            # the `with` line is visited again when the block is left
        try:
            return not obj.locked()
        except Exception:
            return True

    def _grant(self, tid: int):
        obj = self._lock_at(tid)
        if obj is not None:
            mine = self.holds.setdefault(tid, set())
            if id(obj) in mine:
                mine.discard(id(obj))
            else:
                mine.add(id(obj))

    def run(self):
        threads = [threading.Thread(target=self._worker, args=(i,), daemon=True) for i in range(self.n)]
        for t in threads:
            t.start()
        last = None
        pos = 0
        with self.cv:
            while True:
                # wait until nobody is running and every live thread is paused
                t0 = time.time()
                while self.running is not None or self.token is not None or \
                        len(self.waiting) + len(self.finished) < self.n:
                    if not self.cv.wait(0.5) and time.time() - t0 > self.step_timeout:
                        self.timed_out = True
                        break
                if self.timed_out:
                    break
                if len(self.finished) == self.n:
                    break
                enabled = sorted(t for t in self.waiting if self._is_enabled(t))
                if not enabled:
                    self.timed_out = True      # everybody blocked: a real deadlock
                    break
                at_yield = last in self.waiting and self.waiting[last][1][2] == "call" and self.waiting[last][1][0] in self.yield_names
                if pos < len(self.prefix) and self.prefix[pos] in enabled:
                    choice = self.prefix[pos]
                elif at_yield:
                    later = [t for t in enabled if t > last]
                    choice = later[0] if later else enabled[0]          # round robin at voluntary yield points
                elif last in enabled:
                    choice = last
                else:
                    choice = enabled[0]
                pos += 1
                self.trace.append(choice)
                self.enabled_at.append(enabled)
                self.where_at.append(self.waiting[choice][1])
                self.yield_at.append(bool(at_yield))
                last = choice
                self._grant(choice)
                self.token = choice
                self.cv.notify_all()
        for t in threads:
            t.join(timeout=0.2 if self.timed_out else self.step_timeout)
        return self


def preemptions(trace: list[int], enabled_at: list[list[int]], yield_at: list[bool] | None = None) -> int:
    n = 0
    for k in range(1, len(trace)):
        if trace[k] != trace[k - 1] and trace[k - 1] in enabled_at[k] and not (yield_at and k < len(yield_at) and yield_at[k]):
            n += 1
    return n


def explore(make_bodies: Callable[[], tuple[list[Callable[[], None]], Callable[[Execution], dict]]], files: set[str],
            bound: int, max_runs: int, rnd=None):
    """Enumerate schedules (stateless, by re-execution) with at most `bound` preemptions.

    `make_bodies()` builds a fresh scenario: (thread bodies, finish(execution) -> observation).
    Yields (trace, observation) for every executed schedule.
    """
    seen = set()
    stack = [[]]
    runs = 0
    while stack and runs < max_runs:
        prefix = stack.pop() if rnd is None else stack.pop(rnd.randrange(len(stack)))
        bodies, finish = make_bodies()
        ex = Execution(files, bodies, prefix).run()
        runs += 1
        key = tuple(ex.trace)
        if key in seen:
            continue
        seen.add(key)
        yield ex, finish(ex)
        # children: deviate at each point after the prefix
        for k in range(len(prefix), len(ex.trace)):
            for alt in ex.enabled_at[k]:
                if alt == ex.trace[k]:
                    continue
                child = ex.trace[:k] + [alt]
                en = ex.enabled_at[:k + 1]
                if preemptions(child, en) <= bound and tuple(child) not in seen:
                    stack.append(child)
