import yaml, json, os, tempfile, glob, copy
from semantiva.registry import RegistryProfile, apply_profile
apply_profile(RegistryProfile(modules=["semantiva.examples.test_utils"]))
from semantiva.pipeline import Pipeline, Payload
from semantiva.context_processors import ContextType
from semantiva.data_types import NoDataType
from semantiva.inspection import build_pipeline_inspection, validate_pipeline, build_inspection_payload
from semantiva.trace.drivers.jsonl import JsonlTraceDriver
import logging; logging.disable(logging.CRITICAL)

def sweep(vars_, params, proc="FloatValueDataSource", **kw):
    d={"processor":proc,"derive":{"parameter_sweep":{"parameters":params,"variables":vars_,"collection":"FloatDataCollection",**kw}}}
    return d
# C05: semantic id sensitivity to sweep definition
a=[sweep({"t":{"lo":0,"hi":1,"steps":3}},{"value":"t*2.0"})]
b=[sweep({"t":{"lo":0,"hi":1,"steps":4}},{"value":"t*2.0"})]
c=[sweep({"t":{"lo":0,"hi":1,"steps":3}},{"value":"t*3.0"})]
d=[sweep({"t":{"lo":0,"hi":1,"steps":3}},{"value":"t*2.0"},proc="FloatValueDataSourceWithDefault")]
for n,x in zip("abcd",(a,b,c,d)):
    p=build_inspection_payload(x)
    print("C05",n,p["identity"]["semantic_id"][:20],p["identity"]["config_id"][:20],p["pipeline_spec_canonical"]["nodes"][0]["uuid"][:8],p["pipeline_spec_canonical"]["nodes"][0]["node_semantic_id"][:8])

# C04: from_context var order
e=[{"processor":"FloatValueDataSource","derive":{"parameter_sweep":{"parameters":{"value":"a+b"},"variables":{"a":{"from_context":"ka"},"b":{"from_context":"kb"}},"collection":"FloatDataCollection","mode":"by_position"}}}]
f=[{"processor":"FloatValueDataSource","derive":{"parameter_sweep":{"parameters":{"value":"a+b"},"variables":{"b":{"from_context":"kb"},"a":{"from_context":"ka"}},"collection":"FloatDataCollection","mode":"by_position"}}}]
pe=build_inspection_payload(e); pf=build_inspection_payload(f)
print("C04 order:", pe["identity"]==pf["identity"], pe["identity"]["config_id"][:16], pf["identity"]["config_id"][:16])

# C10/C04: same Pipeline object traced twice -> pipeline_id
td=tempfile.mkdtemp()
p=Pipeline(a, trace=JsonlTraceDriver(td))
p.process(Payload(NoDataType(), ContextType()))
p.trace=JsonlTraceDriver(td)
p.process(Payload(NoDataType(), ContextType()))
ids=[]
for fn in sorted(glob.glob(td+"/*.jsonl")):
    for line in open(fn):
        r=json.loads(line)
        if r["record_type"]=="pipeline_start": ids.append((r["pipeline_id"][:16], r["meta"]["semantic_id"][:16], r["meta"]["config_id"][:16]))
print("C10 reuse pipeline ids:", ids)
print("C04 inspect vs trace:", build_inspection_payload(a)["identity"]["semantic_id"][:16], build_inspection_payload(a)["identity"]["config_id"][:16])
