import yaml, json, os, tempfile
from semantiva.registry import RegistryProfile, apply_profile
apply_profile(RegistryProfile(modules=["semantiva.examples.test_utils"]))
from semantiva.pipeline import Pipeline, Payload
from semantiva.context_processors import ContextType
from semantiva.data_types import NoDataType
from semantiva.inspection import build_pipeline_inspection, validate_pipeline, build_inspection_payload
from semantiva.trace.drivers.jsonl import JsonlTraceDriver

def run(nodes, ctx=None, trace=None):
    p = Pipeline(nodes, trace=trace)
    return p.process(Payload(NoDataType(), ContextType(dict(ctx or {}))))

# C02: use-before-create
nodes = [
  {"processor":"FloatValueDataSource","parameters":{"value":1.0}},
  {"processor":"FloatMultiplyOperation"},            # needs factor from context
  {"processor":"FloatCollectValueProbe","context_key":"factor"},
]
insp = build_pipeline_inspection(nodes)
try:
    validate_pipeline(insp); print("C02 validate ok; required:", insp.required_context_keys)
except Exception as e: print("C02 validate err", e)
try:
    run(nodes); print("ran ok")
except Exception as e: print("C02 run failed:", type(e).__name__, e)

# C03: probe sweep published keys
nodes = [
  {"processor":"FloatValueDataSource","parameters":{"value":2.0}},
  {"processor":"FloatCollectValueProbe","context_key":"res",
   "derive":{"parameter_sweep":{"parameters":{},"variables":{"t":[1,2,3]}}}},
]
try:
    r = run(nodes); print("C03 probe ctx:", r.context.to_dict())
except Exception as e: print("C03 err", type(e).__name__, e)
