import gc, weakref
from semantiva.registry import RegistryProfile, apply_profile
apply_profile(RegistryProfile(modules=["semantiva.examples.test_utils"]))
from semantiva.pipeline import Pipeline, Payload
from semantiva.context_processors import ContextType
from semantiva.data_types import NoDataType
from semantiva.core.semantiva_component import get_component_registry
import logging; logging.disable(logging.CRITICAL)
nodes=[{"processor":"FloatValueDataSource","parameters":{"value":1.0}},{"processor":"FloatMultiplyOperation","parameters":{"factor":2.0}},{"processor":"FloatCollectValueProbe","context_key":"k"},{"processor":"rename:k:j"},{"processor":"delete:j"}]
p=Pipeline(nodes)
p.process(Payload(NoDataType(), ContextType()))
reg=get_component_registry()
before={k:len(v) for k,v in reg.items()}
p.process(Payload(NoDataType(), ContextType()))
new=[]
for k,v in reg.items():
    n=len(v)-before.get(k,0)
    if n: new+= v[-n:]; del v[-n:]
refs=[weakref.ref(c) for c in new]; names=[c.__name__ for c in new]; del new
p.process(Payload(NoDataType(), ContextType()))   # replaces p.nodes / _last_nodes
for k,v in reg.items():
    n=len(v)-before.get(k,0)
    if n: del v[-n:]
gc.collect()
print([(n, r() is None) for n,r in zip(names,refs)])
g0=len(gc.get_objects())
for i in range(100):
    p.process(Payload(NoDataType(), ContextType()))
    for k,v in reg.items():
        n=len(v)-before.get(k,0)
        if n: del v[-n:]
gc.collect(); print("gc growth over 100 runs with registry pruned:", len(gc.get_objects())-g0)
print("transport queues:", {k[:40].replace("\n"," "): len(q) for k,(q,l) in p.transport._queues.items()})
