import json, os, tempfile, glob, time
from semantiva.registry import RegistryProfile, apply_profile
apply_profile(RegistryProfile(modules=["semantiva.examples.test_utils"]))
from semantiva.pipeline import Pipeline, Payload
from semantiva.context_processors import ContextType
from semantiva.data_types import NoDataType
from semantiva.inspection import build_pipeline_inspection, validate_pipeline
import logging; logging.disable(logging.CRITICAL)
def run(nodes, ctx=None):
    return Pipeline(nodes).process(Payload(NoDataType(), ContextType(dict(ctx or {}))))
def show(tag, nodes, ctx=None):
    try:
        r=run(nodes, ctx); d=r.data
        print(tag, "OK data=", getattr(d,'data',d) if not hasattr(d,'__iter__') else [x.data for x in d], "ctx=", r.context.to_dict())
    except Exception as e: print(tag, "ERR", type(e).__name__, str(e)[:100])
src={"processor":"FloatValueDataSource","parameters":{"value":3.0}}
# slicer with default overridden by context
sw={"processor":"FloatValueDataSource","derive":{"parameter_sweep":{"parameters":{"value":"t"},"variables":{"t":[1.0,2.0]},"collection":"FloatDataCollection"}}}
show("slicer ctx>default", [sw, {"processor":"slice:FloatMultiplyOperationWithDefault:FloatDataCollection"}], {"factor":10.0})
show("slicer cfg>ctx", [sw, {"processor":"slice:FloatMultiplyOperationWithDefault:FloatDataCollection","parameters":{"factor":3.0}}], {"factor":10.0})
show("slicer probe", [sw, {"processor":"slice:FloatCollectValueProbe:FloatDataCollection","context_key":"vals"}], {})
# probe key consumed later
show("probe->param", [src, {"processor":"FloatCollectValueProbe","context_key":"factor"}, {"processor":"FloatMultiplyOperation"}])
# rename None
show("rename None", [src, {"processor":"rename:a:b"}], {"a":None})
show("rename ok", [src, {"processor":"rename:a:b"}], {"a":1})
show("rename same", [src, {"processor":"rename:a:a"}], {"a":1})
show("delete None", [src, {"processor":"delete:a"}], {"a":None})
show("delete missing", [src, {"processor":"delete:a"}], {})
show("delete then rename", [src, {"processor":"delete:a"},{"processor":"rename:a:b"}], {"a":1})
show("template", [src, {"processor":"template:\"{a}_{b}\":c"}], {"a":1,"b":"x"})
show("template missing", [src, {"processor":"template:\"{a}_{b}\":c"}], {"a":1})
show("type gate", [src, src], {})
show("op first no data", [{"processor":"FloatMultiplyOperation","parameters":{"factor":2.0}}], {})
show("sink", [src, {"processor":"FloatMockDataSink","parameters":{"path":"/tmp/x"}}], {})
show("payload source", [{"processor":"FloatPayloadSource"}], {"z":1})
show("rename with cfg", [src, {"processor":"rename:a:b","parameters":{"a":5}}], {})
# key origin: first writer vs last
nodes=[src, {"processor":"FloatCollectValueProbe","context_key":"k"}, {"processor":"FloatMultiplyOperation","parameters":{"factor":2.0}}, {"processor":"template:\"{k}\":factor"}, {"processor":"template:\"{k}{k}\":factor"}, {"processor":"FloatMultiplyOperation"}]
insp=build_pipeline_inspection(nodes)
for n in insp.nodes: print(n.index, n.processor_class, "ctxparams", n.context_params, "created", n.created_keys)
print("required", insp.required_context_keys)
