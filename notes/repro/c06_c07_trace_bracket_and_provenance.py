import yaml, json, os, tempfile, glob, copy, time
from semantiva.registry import RegistryProfile, apply_profile
apply_profile(RegistryProfile(modules=["semantiva.examples.test_utils"]))
from semantiva.pipeline import Pipeline, Payload
from semantiva.context_processors import ContextType
from semantiva.data_types import NoDataType
from semantiva.trace.drivers.jsonl import JsonlTraceDriver
import logging; logging.disable(logging.CRITICAL)

def recs(td):
    out=[]
    for fn in sorted(glob.glob(td+"/*.jsonl")):
        for line in open(fn): out.append(json.loads(line))
    return out
# C06: construction failure (unknown parameter) 
td=tempfile.mkdtemp()
nodes=[{"processor":"FloatValueDataSource","parameters":{"value":1.0}},{"processor":"FloatMultiplyOperation","parameters":{"factor":2.0,"bogus":1}}]
drv=JsonlTraceDriver(td)
try:
    Pipeline(nodes, trace=drv).process(Payload(NoDataType(), ContextType()))
except Exception as e: print("C06 raised", type(e).__name__)
print("C06 records:", [r["record_type"] for r in recs(td)], "file open:", drv._file is not None)
# C06: probe without context key
td=tempfile.mkdtemp()
nodes=[{"processor":"FloatValueDataSource","parameters":{"value":1.0}},{"processor":"FloatCollectValueProbe"}]
drv=JsonlTraceDriver(td)
try:
    Pipeline(nodes, trace=drv).process(Payload(NoDataType(), ContextType()))
except Exception as e: print("C06 raised", type(e).__name__)
print("C06 records:", [r["record_type"] for r in recs(td)], "file open:", drv._file is not None)

# C07: param sources with default overridden by context, TZ
os.environ["TZ"]="Asia/Tokyo"; time.tzset()
td=tempfile.mkdtemp()
nodes=[{"processor":"FloatValueDataSource","parameters":{"value":1.0}},{"processor":"FloatMultiplyOperationWithDefault"},{"processor":"FloatMultiplyOperationWithDefault"}]
r=Pipeline(nodes, trace=JsonlTraceDriver(td,detail="all")).process(Payload(NoDataType(), ContextType({"factor":5.0})))
print("C07 result", r.data.data)
import datetime
print("true utc", datetime.datetime.now(datetime.timezone.utc).isoformat())
for x in recs(td):
    if x["record_type"]=="ser":
        print("C07 ser params", x["processor"]["parameters"], x["processor"]["parameter_sources"], x["timing"]["started_at"], x["context_delta"]["read_keys"])
    else: print(x["record_type"], x["timestamp"])
# default only
td=tempfile.mkdtemp()
r=Pipeline(nodes, trace=JsonlTraceDriver(td,detail="all")).process(Payload(NoDataType(), ContextType({})))
for x in recs(td):
    if x["record_type"]=="ser":
        print("C07b ser params", x["processor"]["parameters"], x["processor"]["parameter_sources"])
