from semantiva.registry import RegistryProfile, apply_profile
apply_profile(RegistryProfile(modules=["semantiva.examples.test_utils"]))
from semantiva.pipeline import Pipeline, Payload
from semantiva.context_processors import ContextType
from semantiva.data_types import NoDataType
from semantiva.inspection import build_pipeline_inspection, validate_pipeline
import logging; logging.disable(logging.CRITICAL)
src={"processor":"FloatValueDataSource","parameters":{"value":1.0}}
def chk(tag,nodes,ctx=None):
    insp=build_pipeline_inspection(nodes)
    try: validate_pipeline(insp); v="valid required=%s"%sorted(insp.required_context_keys)
    except Exception as e: v="INVALID: "+str(e)[:120]
    try:
        r=Pipeline(nodes).process(Payload(NoDataType(), ContextType(dict(ctx or {})))); rr="run ok"
    except Exception as e: rr="run ERR %s %s"%(type(e).__name__, str(e)[:80])
    print(tag,"|",v,"|",rr)
chk("type change across ctx node",[src,{"processor":"rename:a:b"},{"processor":"FloatCollectionSumOperation"}],{"a":1})
chk("type mismatch adjacent",[src,{"processor":"FloatCollectionSumOperation"}])
chk("first node op",[{"processor":"FloatMultiplyOperation","parameters":{"factor":2.0}}])
chk("source after source",[src,src])
chk("delete then require",[src,{"processor":"delete:factor"},{"processor":"FloatMultiplyOperation"}],{"factor":2.0})
chk("delete then recreate then require",[src,{"processor":"delete:factor"},{"processor":"FloatCollectValueProbe","context_key":"factor"},{"processor":"FloatMultiplyOperation"}],{"factor":2.0})
chk("create-and-require same node",[src,{"processor":"template:\"{c}x\":c"}],{})
chk("create-and-require same node w ctx",[src,{"processor":"template:\"{c}x\":c"}],{"c":"q"})
chk("sweep from_context missing",[{"processor":"FloatValueDataSource","derive":{"parameter_sweep":{"parameters":{"value":"float(v)"},"variables":{"v":{"from_context":"vals"}},"collection":"FloatDataCollection"}}}],{})
chk("sweep published key used",[{"processor":"FloatValueDataSource","derive":{"parameter_sweep":{"parameters":{"value":"float(v)"},"variables":{"v":[1,2,3]},"collection":"FloatDataCollection"}}},{"processor":"rename:v_values:w"}],{})
chk("unknown param",[src,{"processor":"FloatMultiplyOperation","parameters":{"factor":2.0,"zzz":1}}])
chk("probe no key",[src,{"processor":"FloatCollectValueProbe"}])
chk("payload source key clash",[{"processor":"FloatPayloadSource"}],{"x":1})
print("----")
chk("delete then rename (ext key)",[src,{"processor":"delete:a"},{"processor":"rename:a:b"}],{"a":1})
chk("delete twice (ext key)",[src,{"processor":"delete:a"},{"processor":"delete:a"}],{"a":1})
chk("delete then rename (created key)",[src,{"processor":"FloatCollectValueProbe","context_key":"a"},{"processor":"delete:a"},{"processor":"rename:a:b"}],{})
chk("delete then require+create same node",[src,{"processor":"delete:c"},{"processor":"template:\"{c}x\":c"}],{"c":"q"})
chk("rename then use old",[src,{"processor":"rename:a:b"},{"processor":"template:\"{a}\":z"}],{"a":"q"})
