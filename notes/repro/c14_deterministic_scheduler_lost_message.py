import sys, threading
from semantiva.execution.transport.in_memory import InMemorySemantivaTransport
import semantiva.execution.transport.in_memory as M
FN = M.__file__
# deterministic scheduler: each traced line event in in_memory.py yields control per a schedule
class Sched:
    def __init__(self, schedule):
        self.schedule=list(schedule); self.cv=threading.Condition(); self.turn=None; self.pos=0; self.live=set(); self.log=[]
    def want(self, tid, where):
        with self.cv:
            while True:
                # choose next turn: the next scheduled id that's live
                while self.pos < len(self.schedule) and self.schedule[self.pos] not in self.live: self.pos+=1
                cur = self.schedule[self.pos] if self.pos < len(self.schedule) else min(self.live)
                if cur == tid:
                    self.log.append((tid, where)); 
                    if self.pos < len(self.schedule): self.pos+=1
                    self.cv.notify_all(); return
                self.cv.wait(0.05)
    def done(self, tid):
        with self.cv: self.live.discard(tid); self.cv.notify_all()
def mk_tracer(s, tid):
    def tr(frame, event, arg):
        if frame.f_code.co_filename != FN: return None
        if event in ("call","line"):
            s.want(tid, (frame.f_code.co_name, frame.f_lineno, event))
        return tr
    return tr
def worker(s, tid, t, ch, val):
    sys.settrace(mk_tracer(s, tid))
    try: t.publish(ch, val, None)
    finally:
        sys.settrace(None); s.done(tid)
def trial(schedule):
    t=InMemorySemantivaTransport(); s=Sched(schedule); s.live={0,1}
    ths=[threading.Thread(target=worker,args=(s,i,t,"c",f"m{i}")) for i in (0,1)]
    [x.start() for x in ths]; [x.join() for x in ths]
    got=[m.data for m in t.subscribe("c")]
    return got, s.log
got, log = trial([0,0,1,1,1,1,1,1,1,1,0,0,0,0,0,0])
print(got); 
for l in log: print(l)
