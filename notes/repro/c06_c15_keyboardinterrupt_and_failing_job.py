import json, os, tempfile, glob, time, threading
from semantiva.registry import RegistryProfile, apply_profile
apply_profile(RegistryProfile(modules=["semantiva.examples.test_utils"]))
from semantiva.pipeline import Pipeline, Payload
from semantiva.context_processors import ContextType
from semantiva.data_types import NoDataType
from semantiva.trace.drivers.jsonl import JsonlTraceDriver
from semantiva.data_processors import DataOperation
from semantiva.examples.test_utils import FloatOperation, FloatDataType
from semantiva.registry.processor_registry import ProcessorRegistry
import logging; logging.disable(logging.CRITICAL)
class KbdOp(FloatOperation):
    """raises KeyboardInterrupt"""
    def _process_logic(self, data):
        raise KeyboardInterrupt()
class BoomOp(FloatOperation):
    """raises ValueError"""
    def _process_logic(self, data):
        raise ValueError("boom")
ProcessorRegistry.register_processor("KbdOp", KbdOp); ProcessorRegistry.register_processor("BoomOp", BoomOp)
def recs(td):
    out=[]
    for fn in sorted(glob.glob(td+"/*.jsonl")):
        for line in open(fn): out.append(json.loads(line))
    return out
src={"processor":"FloatValueDataSource","parameters":{"value":1.0}}
for name in ("KbdOp","BoomOp"):
    td=tempfile.mkdtemp(); drv=JsonlTraceDriver(td)
    try: Pipeline([src,{"processor":name},src], trace=drv).process(Payload(NoDataType(), ContextType()))
    except BaseException as e: print(name,"raised",type(e).__name__)
    print(name, [(r["record_type"], r.get("status") or r.get("summary",{}).get("status")) for r in recs(td)], "open:", drv._file is not None)

# C15 failing job
from semantiva.execution.transport import InMemorySemantivaTransport
from semantiva.execution.job_queue.queue_orchestrator import QueueSemantivaOrchestrator
from semantiva.execution.job_queue.worker import worker_loop
from semantiva.execution.executor.executor import SequentialSemantivaExecutor
t=InMemorySemantivaTransport(); stop=threading.Event()
m=QueueSemantivaOrchestrator(t, stop_event=stop)
mt=threading.Thread(target=m.run_forever,daemon=True); mt.start()
wt=threading.Thread(target=worker_loop,args=(0,t,SequentialSemantivaExecutor(),stop),daemon=True); wt.start()
f_ok=m.enqueue([src,{"processor":"FloatMultiplyOperation","parameters":{"factor":3.0}}],return_future=True)
f_bad=m.enqueue([src,{"processor":"BoomOp"}],return_future=True)
f_ok2=m.enqueue([{"processor":"FloatValueDataSource","parameters":{"value":7.0}}],return_future=True)
for n,f in (("ok",f_ok),("bad",f_bad),("ok2",f_ok2)):
    try:
        d,c=f.result(timeout=5); print("C15",n,d.data,c.to_dict())
    except Exception as e: print("C15",n,"->",type(e).__name__)
stop.set()
print("queues in transport:", len(t._queues))
