from semantiva.trace._utils import serialize, sha256_bytes
from semantiva.examples.test_utils import FloatDataType, FloatDataCollection
import logging; logging.disable(logging.CRITICAL)
a=FloatDataType(1.5); b=FloatDataType(1.5); c=FloatDataType(2.5)
print(serialize(a)[:300])
print(sha256_bytes(serialize(a))==sha256_bytes(serialize(b)), sha256_bytes(serialize(a))==sha256_bytes(serialize(c)))
col1=FloatDataCollection.from_list([a,c]); col2=FloatDataCollection.from_list([b,FloatDataType(2.5)]); col3=FloatDataCollection.from_list([c,a])
print(serialize(col1)[:200])
print(sha256_bytes(serialize(col1))==sha256_bytes(serialize(col2)), sha256_bytes(serialize(col1))==sha256_bytes(serialize(col3)))
from semantiva.data_types import NoDataType
print(serialize(NoDataType())[:200])
