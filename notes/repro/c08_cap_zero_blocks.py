from semantiva.configurations.schema import RunSpaceV1Config, RunBlock
from semantiva.execution.run_space import expand_run_space
for spec in [RunSpaceV1Config(max_runs=0), RunSpaceV1Config(max_runs=0, blocks=[RunBlock(mode="combinatorial", context={})]),
             RunSpaceV1Config(max_runs=0, blocks=[RunBlock(mode="by_position", context={})]),
             RunSpaceV1Config(max_runs=1, blocks=[RunBlock(mode="by_position", context={"a":[1,2]})]),
             RunSpaceV1Config(max_runs=2, combine="by_position", blocks=[RunBlock(mode="by_position", context={"a":[1,2]}),RunBlock(mode="combinatorial", context={"b":[1],"c":[3,4]})])]:
    try:
        runs, meta = expand_run_space(spec); print("ok", runs, meta["expanded_runs"], "max", spec.max_runs)
    except Exception as e: print(type(e).__name__, e)
