from semantiva.registry import RegistryProfile, apply_profile
apply_profile(RegistryProfile(modules=["semantiva.examples.test_utils"]))
from semantiva.pipeline.nodes._pipeline_node_factory import _pipeline_node_factory
from semantiva.contracts.expectations import validate_component
import logging; logging.disable(logging.CRITICAL)
sw=lambda proc,params,coll=True,**kw: {"processor":proc,"derive":{"parameter_sweep":{"parameters":params,"variables":{"t":[1.0,2.0,3.0]},**({"collection":"FloatDataCollection"} if coll else {})}},**kw}
cfgs={
 "source":{"processor":"FloatValueDataSource","parameters":{"value":1.0}},
 "payload_source":{"processor":"FloatPayloadSource"},
 "op":{"processor":"FloatMultiplyOperation","parameters":{"factor":2.0}},
 "probe":{"processor":"FloatCollectValueProbe","context_key":"k"},
 "sink":{"processor":"FloatMockDataSink","parameters":{"path":"/tmp/x"}},
 "payload_sink":{"processor":"FloatPayloadSink"},
 "rename":{"processor":"rename:a:b"},"delete":{"processor":"delete:a"},"template":{"processor":"template:\"{a}\":c"},
 "slice_op":{"processor":"slice:FloatMultiplyOperation:FloatDataCollection","parameters":{"factor":2.0}},
 "slice_probe":{"processor":"slice:FloatCollectValueProbe:FloatDataCollection","context_key":"k"},
 "sweep_source":sw("FloatValueDataSource",{"value":"t"}),
 "sweep_op":sw("FloatMultiplyOperation",{"factor":"t"}),
 "sweep_probe":sw("FloatCollectValueProbe",{},coll=False,context_key="k"),
}
for name,cfg in cfgs.items():
    try:
        node=_pipeline_node_factory(dict(cfg))
    except Exception as e:
        print(name,"FACTORY ERR",type(e).__name__,e); continue
    for what,cls in (("node",type(node)),("proc",type(node.processor))):
        ds=[d for d in validate_component(cls)]
        errs=[(d.code,d.severity) for d in ds]
        print(name, what, cls.__name__, errs)
    try:
        print("   io:", node.input_data_type().__name__ if hasattr(node,'input_data_type') else None, getattr(node,'output_data_type',lambda:None)() , "created", node.get_created_keys())
    except Exception as e: print("   io ERR", e)
