import json, os, tempfile, glob, time, subprocess, sys, resource
from semantiva.registry import RegistryProfile, apply_profile
apply_profile(RegistryProfile(modules=["semantiva.examples.test_utils"]))
import logging; logging.disable(logging.CRITICAL)
# C11
from semantiva.utils.safe_eval import ExpressionEvaluator
ev=ExpressionEvaluator()
for e in ["max(x, key=lambda v: v)", "max(x, 1, key=__import__('os').getpid)", "int(x, base=y.__class__)", "max(*x)", "x.real", "(lambda: 1)()", "max(x, **{'default': 1})"]:
    try:
        f=ev.compile(e,{"x"}); 
        try: print("C11 ACCEPT", e, "->", f(x=[3,1]))
        except Exception as ex: print("C11 ACCEPT", e, "eval err", type(ex).__name__, ex)
    except Exception as ex: print("C11 reject", e, type(ex).__name__)
# C08 materialisation
from semantiva.configurations.schema import RunSpaceV1Config, RunBlock
from semantiva.execution.run_space import expand_run_space
spec=RunSpaceV1Config(combine="combinatorial",max_runs=10,blocks=[RunBlock(mode="combinatorial",context={"a":list(range(300)),"b":list(range(300)),"c":list(range(30))})])
t=time.time()
try: expand_run_space(spec)
except Exception as ex: print("C08", type(ex).__name__, ex, "in %.2fs"%(time.time()-t), "maxrss MB", resource.getrusage(resource.RUSAGE_SELF).ru_maxrss/1024)
# C18
from semantiva.core.semantiva_component import get_component_registry
from semantiva.pipeline import Pipeline, Payload
from semantiva.context_processors import ContextType
from semantiva.data_types import NoDataType
nodes=[{"processor":"FloatValueDataSource","parameters":{"value":1.0}},{"processor":"FloatMultiplyOperation","parameters":{"factor":2.0}},{"processor":"FloatCollectValueProbe","context_key":"k"},{"processor":"rename:k:j"},{"processor":"delete:j"}]
p=Pipeline(nodes)
def size(): return sum(len(v) for v in get_component_registry().values())
p.process(Payload(NoDataType(), ContextType()))
s0=size()
for i in range(50): p.process(Payload(NoDataType(), ContextType()))
print("C18 registry growth over 50 runs:", size()-s0)
