import json, os, tempfile, glob, random
from semantiva.registry import RegistryProfile, apply_profile
apply_profile(RegistryProfile(modules=["semantiva.examples.test_utils"]))
from semantiva.pipeline import Pipeline, Payload
from semantiva.context_processors import ContextType
from semantiva.data_types import NoDataType
from semantiva.trace.drivers.jsonl import JsonlTraceDriver
from semantiva.trace.aggregation.aggregator import TraceAggregator
import logging; logging.disable(logging.CRITICAL)
src={"processor":"FloatValueDataSource","parameters":{"value":1.0}}
mul={"processor":"FloatMultiplyOperation","parameters":{"factor":2.0}}
bad={"processor":"FloatMultiplyOperation"}
def trace(nodes):
    td=tempfile.mkdtemp(); 
    try: Pipeline(nodes, trace=JsonlTraceDriver(td)).process(Payload(NoDataType(), ContextType()))
    except Exception: pass
    out=[]
    for fn in sorted(glob.glob(td+"/*.jsonl")):
        for line in open(fn): out.append(json.loads(line))
    return out
for nodes in ([src,mul,mul],[src,mul,bad,mul]):
    tr=trace(nodes)
    rid=tr[0]["run_id"]
    print([r["record_type"] for r in tr])
    for k in range(len(tr)+1):
        a=TraceAggregator(); a.ingest_many(tr[:k]); v=a.finalize_run(rid); v2=a.finalize_run(rid)
        print(k, v.status, v.problems, len(v.missing_nodes), v.orphan_nodes, v.nonterminal_nodes, v==v2)
    # permutation invariance
    base=None
    for _ in range(50):
        p=tr[:]; random.shuffle(p); a=TraceAggregator(); a.ingest_many(p); v=a.finalize_run(rid)
        if base is None: base=v
        assert v==base, (v,base)
    print("perm ok")
