#!/bin/sh
# Run /repo's pinned suite (guard off) and compare with BASELINE.json's stable_pass list.
cd /repo && /venv/bin/python -m pytest -q -p no:cacheprovider --timeout=900 --continue-on-collection-errors --junitxml=/tmp/verif_baseline.xml >/tmp/verif_baseline.log 2>&1
git -C /repo clean -fdq
/venv/bin/python - <<'PY'
import json, xml.etree.ElementTree as ET
base = set(json.load(open('/root/.vp/BASELINE.json'))['stable_pass'])
root = ET.parse('/tmp/verif_baseline.xml').getroot()
passed = set()
for tc in root.iter('testcase'):
    if not any(ch.tag in ('failure', 'error', 'skipped') for ch in tc):
        passed.add(f"{tc.get('classname')}::{tc.get('name')}")
missing = sorted(base - passed)
print(f"baseline {len(base)} passed-now {len(passed)} missing {len(missing)}")
for m in missing[:20]:
    print("  MISSING", m)
PY
rm -f /tmp/verif_baseline.xml
