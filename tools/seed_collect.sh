#!/bin/sh
# Collect a seeded change from its scratch worktree into /verif/seeded/<name>/ (patch.diff, demo.py, meta.json).
# usage: tools/seed_collect.sh <worktree> <name>
set -e
wt="$1"; name="$2"
out="$(cd "$(dirname "$0")/.." && pwd)/seeded/$name"
mkdir -p "$out"
git -C "$wt" diff -- semantiva > "$out/patch.diff"
[ -f "$wt/SEEDED_DEMO.py" ] && cp "$wt/SEEDED_DEMO.py" "$out/demo.py"
[ -f "$wt/SEEDED_META.json" ] && cp "$wt/SEEDED_META.json" "$out/meta.json"
wc -l "$out/patch.diff"
