#!/bin/sh
# Apply a seeded change to /repo, run checks against it, undo it straight afterwards.
# usage: tools/seed_try.sh <name> [check ids...]   (default: the property named by the seed, e.g. C07 or C07b -> C07)
cd "$(dirname "$0")/.."
name="$1"; shift
ids="$*"; [ -z "$ids" ] && ids=$(printf '%s' "$name" | cut -c1-3)
if [ -n "$(git -C /repo status --porcelain)" ]; then echo "/repo is not clean"; exit 2; fi
git -C /repo apply "$(pwd)/seeded/$name/patch.diff" || exit 2
trap 'git -C /repo checkout -- . ; git -C /repo clean -fdq' EXIT INT TERM
for id in $ids; do
  out=$(./check "$id" 2>&1); rc=$?
  echo "== $name vs $id: exit $rc"
  printf '%s\n' "$out" | grep 'no longer checks\|VIOLATION\|KNOWN-FINDING\|done in\|harness' | cut -c1-300
done
