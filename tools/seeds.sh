#!/bin/sh
# Run every claimed check (quick tier) under several seeds; print one line per run that is not a clean exit 0.
# usage: tools/seeds.sh "0 1 2 3" [ids...]
cd "$(dirname "$0")/.."
seeds="${1:-0 1 2 3}"; shift
ids="$*"
[ -z "$ids" ] && ids=$(/venv/bin/python -c "import json;print(' '.join(c['property_id'] for c in json.load(open('MANIFEST.json'))['checks']))")
for id in $ids; do
  for s in $seeds; do
    out=$(VERIF_SEED=$s ./check $id 2>&1); rc=$?
    last=$(printf '%s\n' "$out" | tail -1)
    if [ $rc -ne 0 ] || printf '%s' "$out" | grep -q '^VIOLATION'; then
      echo "ALARM $id seed=$s rc=$rc :: $last"
      printf '%s\n' "$out" | grep -m2 'no longer checks\|VIOLATION' | cut -c1-400
    else
      echo "ok    $id seed=$s :: $last"
    fi
  done
done
