#!/usr/bin/env python3
"""Regenerate MANIFEST.json from the table below (kept in one place so it stays schema-valid)."""
import json, pathlib

BASE_CMD = "cd /repo && /venv/bin/python -m pytest -ra -q -p no:cacheprovider --timeout=900 --continue-on-collection-errors"

CHECKS = {
 "C01": dict(
  technique="Lean 4 proof over an executable reference semantics of node execution (induction over the node list; frame lemmas for the context map; ordered-map lemma for slicers) + decidable side condition on the precedence table extracted from resolve_runtime_value + differential run real Pipeline.process vs compiled Lean model over a free term algebra of components",
  text="Theorems exec_fails_exactly_there (a failing run fails at a node of the pipeline, the prefix ran successfully and independently of the suffix, nothing later runs), execFrom_append, construct_error_runs_nothing, resolve_precedence (configuration > context > default > unresolved, from the generated table under precedenceOK), type_gate, probe_passes_data, operation_frames_context (only declared keys may change; an undeclared write is the node's failure), rename/delete/template_touches_only_declared, mapBeh_is_ordered_map (slicers map element-wise in order), sink_passes_through, source_produces — for pipelines of any length and any processor bodies. The model is run next to the real Pipeline(nodes).process on generated pipelines (1..6 nodes quick, 1..8 thorough; every parameter placement; deliberate misfits) over the harness' Herbrand component library and compared on (data, context) or (failing node, error class).",
  note="Trusted: Lean kernel; the table extractor and the pipeline generator/canonicaliser (props/c01.py, props/pipegen.py, props/components.py); error messages are not compared (only node index and class). Sweeps inside pipelines are covered by C03; ContextCollectionType is outside the model.",
  design="§7 C01"),
 "C02": dict(
  technique="Lean 4 proof (abstract-interpretation soundness: a forward flow analysis over the C01 execution model, invariant `Abs` preserved by every node kind, induction over the pipeline) + differential run of the real build_pipeline_inspection/validate_pipeline against the reference analysis + real-code oracles on per-node context diffs and value provenance",
  text="Theorem analysis_sound: for pipelines of any length over a well-formed library, if the reference flow analysis accepts with external requirements req and the initial context holds every key of req (or any superset), then no node is rejected at construction and no node fails with an unresolved parameter, a missing/deleted key, an unknown parameter or the type gate — only the processor's own error remains possible. key_delta_declared: a key can only appear/disappear at a node that is declared to create/suppress it. The real inspection is compared with the reference analysis (verdict and required keys) on generated pipelines including the shapes the property names, and real runs with exactly the required keys and with supersets are checked for flow errors, per-node created/suppressed facts, parameter origins (by value provenance over snapshots) and unknown-parameter names.",
  note="Trusted: Lean kernel; props/c02.py oracles and generator; nodeWF (operations write the keys they declare; writing slicers are outside the theorem). Origin truth is decided by the real-code oracle only (no Lean theorem). One open known finding (defaulted parameter overridden by a required initial key is reported as 'default').",
  design="§7 C02"),
 "C03": dict(
  technique="Lean 4 proof over an executable model of sweep enumeration and element construction (reusing the C08 product theorems; cycling lemma for broadcast; right-biased merge lemma; ordered-map lemma) + differential run of real pipelines containing derive.parameter_sweep nodes vs the compiled Lean model + Python contract check of numpy ranges",
  text="Theorems iterate_comb / comb_length / comb_sorted_vars / comb_keys / comb_index (combinatorial mode is the product over variable names in sorted order, last name fastest), pos_aligned / pos_unequal_rejected, pos_broadcast_cycles / cycleRun_value (broadcast takes position i mod n_v — cycling, not padding), merge_precedence (computed by expression > node-level value), elements_ordered (one element per step, in step order, each the wrapped body applied to the merged parameters), published_every_var. Real pipelines with a sweep node of each wrapped kind (source/operation/probe), every variable form (lists, values, ranges linear/log with/without endpoint, from_context), both modes, broadcast, tuple and integer expressions and surrounding nodes are run and compared element by element with the model.",
  note="Trusted: Lean kernel; props/c03.py generator; numpy range materialisation is outside the model (values taken from the run, contract checked in Python); expressions limited to tuples of variables and the integer fragment of C12. No generated side condition beyond the C01 precedence table.",
  design="§7 C03"),
 "C04": dict(
  technique="Lean 4 proof (canonical form of JSON trees: sorting members by key at every depth is invariant under member re-ordering, by induction over a congruence-closed PermEq relation; canonicity of sorted lists with distinct keys) + decidable side condition on facts probed from the real code + identities recomputed from the model's pre-images (hashed in the harness) vs the real ones + metamorphic / cross-process / history runs of the real code",
  text="Theorems norm_permEq / canonical_permEq / identity_permEq (configurations equal up to mapping-member order at any depth have the same canonical text, hence the same hash, whatever the hash), uuidPre_permEq, nodeSemPre_reorder (re-ordering the parameters/variables mappings of a sweep does not change the node-semantic pre-image, given that the code sorts context_keys — re-decided from a probe of the real code), configPre_order_independent. Purity is structural: the pre-images are Lean functions of the configuration only. The real node UUIDs, pipeline id, semantic id, config id and node semantic ids are re-derived by hashing the model's pre-image strings and must coincide on the inspection path, the Pipeline path and pipeline_start; cosmetic YAML rewrites, operand shuffles, fresh processes with different hash seeds and working directories, prior history and reuse of a Pipeline object must not change them.",
  note="Trusted: Lean kernel; SHA-256/UUIDv5/json.dumps (outside the model); PyYAML (rewrites are defined by deep typed equality of the loaded documents); the probe-based flags; the generated class name of swept nodes is read off the code.",
  design="§7 C04"),
 "C05": dict(
  technique="Lean 4 proof (field access through the sorted normal form; tree-level injectivity of the identity pre-images) + decidable side condition (the pipeline semantic payload rolls up node semantic ids) + single-point mutation testing of the real identities",
  text="Theorems lookup_norm_obj / field_eq_of_norm_eq, nodeCanon_injective (equal canonical node trees agree on processor, parameters at any depth, ports and declaration index), nodeCanon_distinct_positions (textually identical nodes at different positions have different pre-images), sweepMeta_injective (wrapped processor, mode, broadcast, variable domains, expression signatures), semanticPayload_injective (ordered UUID list and, as re-decided from the code, node semantic ids of swept nodes). Every single-point mutation operator (processor, each parameter leaf at every depth, each field of a sweep definition, insert/delete/swap of nodes) is applied to generated configurations and must change semantic id, config id and the node's UUID or node semantic id; UUIDs within a pipeline must be distinct.",
  note="Trusted: Lean kernel; collision resistance of SHA-256/UUIDv5 and injectivity of the compact JSON rendering on normal forms (text level) — the theorems are at tree level, i.e. this part is partial by design; injectivity of decimal numerals (hypothesis hnum).",
  design="§7 C05"),
 "C06": dict(
  technique="Lean 4 proof (the template-method lifecycle as a function of a shape record and a fault plan; loop lemma by induction over the node list) + decidable side condition on the try/except/finally shape extracted from execute() + fault-injection runs of the real orchestrator compared with the model and judged by a real-code oracle",
  text="Theorem trace_wellformed: for every lifecycle shape satisfying `good` and every fault plan — any number of nodes, a failure at any node or during node construction, of Exception class or BaseException class — the emitted stream is exactly pipeline_start, one SER per started node (all succeeded but a final failing one), one pipeline_end that is ok iff the run returned; the original exception reaches the caller; the driver is closed (corollaries bracketed, always_closed). The shape is re-extracted from SemantivaOrchestrator.execute on every run and `shape.good` re-decided. Real traced runs inject a fault at every node index for every failure kind (processor exception, KeyboardInterrupt, unresolvable parameter, type gate, undeclared write, two construction errors) across detail levels and file/directory output; the record sequence is compared with the model run on the same plan, and ids, upstream lists vs canonical edges, schema validity of every line, the exception class and the closed file are checked on the real output.",
  note="Trusted: Lean kernel; the lexical extractor in props/tracegen.py (conservative: a construct it does not recognise yields `false`); jsonschema validation of emitted lines is support, not proof; a fault is abstracted to (position, exception class).",
  design="§7 C06"),
 "C07": dict(
  technique="Lean 4 proof over the reference execution model (delta = set difference of the two contexts; recorded parameter/source = the node's own resolution under every table satisfying the documented precedence; chain of digest pre-images by induction over the pipeline; UTC stamps) + side conditions re-decided on the source table and clock conventions probed from the real code + differential run of the model's SER views vs real SER lines + real-code oracle against an independent execution log under four host time zones",
  text="Theorems created_iff / updated_iff / delta_sorted / created_updated_disjoint (the recorded delta is exactly the difference between the contexts), recorded_iff_resolved / unrecorded_iff_unresolved (the SER lists parameter p with value v and source ch exactly when the node's resolution passes v from channel ch, for every source table satisfying the documented precedence), missing_iff_unresolved, required_present_iff, writes_realized, typeOk_iff (checks report PASS exactly when the condition holds), stream_chain / digest_chain (node k's output content is node k+1's input content for pipelines of any length, so content digests chain), stream_shape (one SER per node entered, only the last may be an error), stamps_true / stamps_monotone / local_stamp_wrong (UTC generators denote the reading whatever the host offset). The SER source table and the two clock conventions are re-probed from /repo on every run and precedenceOK / UTC are re-decided. The model's SER views are compared with the real SER lines on generated pipelines; every SER field is judged against a reference log taken at node.process and at the node's parameter fetch, under TZ in {UTC,+09:00,-08:00,+05:45} x four detail levels.",
  note="Trusted: Lean kernel; the recorders in props/serlog.py (they wrap public node entry points); SHA-256 and the byte serialisation feeding it are outside the model (digest equality is observed per content, and proved only for 'any function of content'); in-place mutation of a context value by a processor is outside the harness' component library; adapter classes report module 'abc' in processor.ref and this is accepted as the class's own name.",
  design="§7 C07"),
 "C08": dict(
  technique="Lean 4 proof over a hand-written executable model (index formula of the Cartesian product via uniform-chunk flatMap indexing; planned size = materialised size by induction over blocks) + differential run real expand_run_space vs compiled Lean model + subprocess cap-promptness runs",
  text="Theorems sortCols_sorted (keys in sorted order, none lost), expandComb_length / expandComb_getElem? / expandComb_keys (product size, last-key-fastest order as an index recursion, every run carries exactly the keys), expandPosN_getElem?, posSize_ok_iff / posSize_mismatch (aligned positions, unequal lengths rejected), blockRuns_length and combineRuns_length (the arithmetic plan equals the number of runs materialised, for any number of blocks), expand_of_plan / expand_ok_le_cap (the max-runs error is raised exactly when the planned total exceeds the cap, decided before anything is materialised), expand_validation_error. The model is tied to /repo by running the real expand_run_space (dataclass door and YAML door, files in four formats with select/rename) and the Lean model on the same generated specs and comparing ordered run lists / error classes; promptness is observed on specs with up to 1.6e13 planned runs under an address-space and time limit.",
  note="Trusted: Lean kernel; the spec generator/canonicaliser in props/c08.py; file parsing and scalar coercion are outside the model; memory/time behaviour is measured, not proved. No generated side condition (hand-written model + correspondence).",
  design="§7 C08"),
 "C10": dict(
  technique="Lean 4 proof over the lifecycle model shared with C06 (the traced run's outcome equals the untraced node loop for every fault plan; induction over the number of reuses of one Pipeline object) + side conditions re-decided on the shape of execute() extracted from the source and on a behavioural probe of the cached canonical spec + real-code differential runs traced vs untraced and run vs re-run",
  text="Theorems trace_observational (for every fault plan, with a good lifecycle shape the exception class raised and the set of nodes run with a trace driver attached are those of the untraced loop) and reuse_reproducible (if a traced run works on a copy of the cached canonical spec, the n-th run of one Pipeline object records the identities of the first, for every n). The shape and the copy flag are regenerated from /repo on every run. On the real code: generated succeeding and failing pipelines are run untraced and traced at each detail level and must return equal data/context or raise the same exception type and message; each is traced again with fresh objects, with the same Pipeline object and after other executions in the process, and the JSONL files must be equal after removing run_id, timestamps, seq and timing fields.",
  note="Trusted: Lean kernel; the lexical shape extractor (shared with C06) and the spec probe; reproducibility of record *contents* (summaries, digests) is observed on generated pipelines, not proved; volatile fields are those the documentation names.",
  design="§7 C10"),
 "C11": dict(
  technique="Lean 4 proof (mutual structural induction over AST trees of any depth) + decidable side condition on the policy table extracted from the real visitor + differential run visitor vs compiled Lean model",
  text="Theorem accepts_confines: for every visitor policy satisfying the decidable condition Policy.total, every tree of any depth that the policy accepts contains only whitelisted elements, declared names and direct whitelisted calls, in every child position. The policy table and the interpreter's AST grammar are re-extracted from /repo on every run (single-position probes of the real _SafeVisitor) and `Policy.total Generated.policy` is re-proved by kernel evaluation. The extracted table is validated against the real visitor on spine-enumerated trees to depth 3 (thorough: all of them) and the public compile() API is run on an escape-idiom corpus in every argument/keyword/operand position.",
  note="Trusted: Lean kernel; the behavioural policy extractor (props/c11.py) and the assumption that the visitor treats a node alike at every depth (sampled to depth 3); CPython's ast.parse/compile/eval. Evaluation-time confinement (no builtins consulted) is observed with a spy mapping, not proved.",
  design="§7 C11"),
 "C12": dict(
  technique="Lean 4 proof (mutual induction; permutation-invariance of an AC fold; canonicity of a stable sort under an injective key) + decidable side condition on the operator list extracted from the real normaliser + differential run of signature strings and values",
  text="Theorems norm_sound (the AC normal form has the same value under every assignment, for expressions of any size), sig_eq_implies_val_eq, norm_acEquiv/sig_acEquiv (any re-ordering/re-association of + and * operands at any depth gives the same signature), swap_noncomm_changes and leaf_change_changes, all for every operator list satisfying commOpsOK; the list is re-extracted from the real normalize_expression_sig_v1 on every run and commOpsOK is re-decided. The Lean sig string is compared byte for byte with the real signature and Lean eval with Python's on generated expressions.",
  note="Trusted: Lean kernel; injectivity of ast.dump (explicit hypothesis hinj); the operator probe in props/c12.py; fragment restricted to fixed-arity abs/min/max and single comparisons; exact integers (results leaving the integers are `none`).",
  design="§7 C12"),
 "C13": dict(
  technique="Lean 4 proof (commuting-step fold over permutations up to state equivalence; canonical sorted sets; explicit characterisation of the folded state on runtime-trace prefixes) + decidable side conditions on decision tables read off the real aggregator + differential run on real traces",
  text="Theorems run_verdict_perm_invariant / launch_verdict_perm_invariant (verdicts, including launch roll-up counts, depend only on the multiset of records, for record lists of any length, under the one-SER-per-node hypothesis the runtime guarantees), interleaving_invariant, finalize_idempotent, and prefix_started_verdict / full_trace_verdict / take_fullTrace (every prefix of a runtime trace of any length gets the documented verdict: partial with exactly the end edge missing and missing nodes = canonical nodes without a SER, complete with both edges, no orphans). The status rules are tables regenerated from the real finalize_run/finalize_launch on every run and re-checked against the documented rules by `decide`; the model is compared with the real aggregator on prefixes, permutations, subsets and k-way interleavings of real traces.",
  note="Trusted: Lean kernel; the table extractor and record canonicaliser in props/c13.py (timestamps as ranks); hypothesis Compat (one pipeline_start per run, one status per (run,node)); the per-run projection of the dictionary of runs (validated by the differential run on multi-run record sets).",
  design="§7 C13"),
 "C14": dict(
  technique="Lean 4 proof (inductive invariants of a small-step thread model over every schedule: conservation up to permutation, queue reachability, routing, per-(publisher,channel) order, freshness) + decidable side condition on a shape record extracted from in_memory.py + systematic bounded-preemption exploration of real thread schedules with a deterministic line-level scheduler",
  text="Theorems conservation (all shapes), exactly_once, no_stranded_message, only_matching_delivered, per_publisher_channel_fifo, no_half_tested: for every schedule of any length, any number of publishers/subscribers/channels and any matcher, the completed publications are pairwise distinct and are exactly the queued plus the taken messages, every queued message sits in the queue the channel map names (so a matching subscription finds it), deliveries match the subscription pattern and arrive in publication order per publisher and channel — under the side condition Shape.good, re-decided on the shape the translator reads off publish/__iter__ on every run. Real thread schedules (2-3 publishers, 1-2 subscribers, new/existing channels, exact/wildcard patterns) are enumerated at line granularity up to a preemption bound and judged on the real outcome.",
  note="Trusted: Lean kernel; the lexical shape extractor (props/c14.py, conservative: unknown = not atomic); GIL atomicity of single C calls; the identity of append-lock and pop-lock. Real schedule exploration is bounded (2 preemptions quick, 3 thorough): it validates the shape and finds replays, the unbounded claim is the theorem about the model.",
  design="§7 C14"),
}

NOT_APPLICABLE = {}

def main():
    root = pathlib.Path(__file__).resolve().parent.parent
    props = [json.loads(l)["id"] for l in (root / "properties.jsonl").read_text().splitlines() if l.strip()]
    pending = {
    }
    checks = []
    for pid in props:
        if pid not in CHECKS:
            continue
        c = CHECKS[pid]
        checks.append({
            "property_id": pid,
            "quick_cmd": f"./check {pid} --tier quick",
            "thorough_cmd": f"./check {pid} --tier thorough",
            "evidence_file": f"/verif/evidence/{pid}.json",
            "replay_cmd_template": f"./check {pid} --replay {{path}}",
            "engine": "lean4-model",
            "level_claimed": {"category": "proof", "text": c["text"], "design_ref": c["design"]},
            "level_note": c["note"],
            "technique": c["technique"],
        })
    na = [{"property_id": p, "reason": NOT_APPLICABLE.get(p, "not yet claimed: the Lean model, theorems and correspondence tie for this property are not built yet (DESIGN.md §11); the technique applies and the check is planned")}
          for p in props if p not in CHECKS]
    man = {
        "version": 1,
        "setup_cmd": "cd /verif/lean && lake build SemantivaModel modeldriver && cd /verif && /venv/bin/python -m compileall -q vlib props translate",
        "hooks": {
            "guard": "SEMANTIVA_VERIF",
            "enable": "no hooks exist: checks import the unmodified /repo working tree in-process (editable install in /venv) and observe it through public entry points, subclasses and sys.settrace",
            "baseline_off_cmd": BASE_CMD,
            "source_commits": [],
            "add_only": True,
        },
        "engines": [{"name": "lean4-model", "path": "/verif/lean", "serves_properties": sorted(CHECKS),
                     "kind_free_text": "Lean 4 executable models + property theorems (lake project), generated side conditions, compiled JSON-lines model driver; Python correspondence harness under /verif/props"}],
        "checks": checks,
        "not_applicable": na,
        "notes": "Every check: regenerate Lean data from /repo -> lake build property theorems + side conditions -> #print axioms audit + forbidden-token grep -> differential run real code vs compiled Lean driver -> real-code oracle. Exit 2 = harness error/timeout (not a verdict). Genuine defects repaired in /repo are listed in known_findings.json (fixed:).",
    }
    (root / "MANIFEST.json").write_text(json.dumps(man, indent=1) + "\n")
    import jsonschema
    jsonschema.validate(man, json.load(open("/root/.vp/MANIFEST.schema.json")))
    print("MANIFEST.json ok:", [c["property_id"] for c in checks])

if __name__ == "__main__":
    main()
