# Re-runs every seeded change (seeded/C*/) against the check of its property (and the neighbouring checks noted in DESIGN §17);
# honours VERIF_SEED; needs exclusive use of /repo (each patch is applied, checked and reverted); rewrites seeded/<n>/result.txt and evidence/.
cd /verif
for d in seeded/C*/; do n=$(basename $d); extra=""; [ "$n" = "C15" ] && extra="C15 C14"; [ "$n" = "C05" ] && extra="C05 C12"; [ "$n" = "C04" ] && extra="C04 C12"; [ "$n" = "C01e" ] && extra="C01 C03"; [ "$n" = "C01f" ] && extra="C01 C02 C07"; [ "$n" = "C02f" ] && extra="C02 C03"; [ "$n" = "C17f" ] && extra="C17 C08"; [ "$n" = "C10g" ] && extra="C10 C09 C17"; [ "$n" = "C10h" ] && extra="C10 C07"; [ "$n" = "C06g" ] && extra="C06 C10"; [ "$n" = "C12i" ] && extra="C12 C11"; [ "$n" = "C13i" ] && extra="C13 C09"; [ "$n" = "C02g" ] && extra="C02 C01"; [ "$n" = "C16g" ] && extra="C16 C03"
  tools/seed_try.sh $n $extra > seeded/$n/result.txt 2>&1
  echo "$n: $(grep -c '^VIOLATION' seeded/$n/result.txt) violations; $(grep '^==' seeded/$n/result.txt | tr '\n' ' ')"
done
