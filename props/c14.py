"""C14 — in-memory transport: every message exactly once, in channel order, under every interleaving.

translate  : lexical analysis of in_memory.py (how publish obtains the queue, what is done under
             the queue lock, how the subscriber scans)               -> Generated/C14.lean (Shape)
prove      : Properties/C14.lean (conservation, reachability, routing, FIFO, exactly-once for every
             schedule of any length) + Tie/C14.lean (`shape.good = true`)
correspond : systematic exploration of REAL thread schedules (deterministic line-level scheduler,
             bounded preemptions) of publishers/subscribers; the Lean model is run on random
             schedules with the extracted shape (does the model lose a message iff the code can?)
oracle     : (real code only) after all threads finished and a final drain: multiset of received
             == multiset of published, per-(publisher, channel) order, pattern routing, no thread error.
"""
from __future__ import annotations

import ast
import fnmatch
import json
import threading
from collections import Counter

from vlib import core, rt, sched

PROP = "C14"
SRC = core.REPO / "semantiva" / "execution" / "transport" / "in_memory.py"


# ---------------------------------------------------------------------------------------------
# T5: shape extraction
# ---------------------------------------------------------------------------------------------

def _with_lock_ancestors(node, parents):
    out = []
    cur = node
    while cur in parents:
        cur = parents[cur]
        if isinstance(cur, (ast.With, ast.AsyncWith)):
            out.append(cur)
    return out


def extract_shape(src: str) -> tuple[dict, list[str]]:
    notes = []
    tree = ast.parse(src)
    parents = {}
    for n in ast.walk(tree):
        for c in ast.iter_child_nodes(n):
            parents[c] = n
    funcs = {}
    for cls in [n for n in ast.walk(tree) if isinstance(n, ast.ClassDef)]:
        for f in cls.body:
            if isinstance(f, (ast.FunctionDef, ast.AsyncFunctionDef)):
                funcs.setdefault(f.name, []).append((cls, f))
    shape = dict(getOrCreateAtomic=False, testPopAtomic=False, appendLocked=False, snapshotsItems=False,
                 filtersByPattern=False, yieldsEachPopped=False)
    pubs = funcs.get("publish", [])
    iters = funcs.get("__iter__", [])
    if not pubs or not iters:
        notes.append("publish/__iter__ not found")
        return shape, notes
    cls, publish = pubs[0]
    init = next((f for f in cls.body if isinstance(f, ast.FunctionDef) and f.name == "__init__"), None)

    # --- how is the per-channel queue obtained? ------------------------------------------------
    def under_with(n, fn):
        return [w for w in _with_lock_ancestors(n, parents) if any(a is fn for a in _chain(w))]

    def _chain(n):
        cur = n
        while cur in parents:
            cur = parents[cur]
            yield cur

    py_factory_attrs, c_factory_attrs = set(), set()
    if init is not None:
        for n in ast.walk(init):
            if isinstance(n, (ast.Assign, ast.AnnAssign)):
                tgt = n.targets[0] if isinstance(n, ast.Assign) else n.target
                val = n.value
                if isinstance(tgt, ast.Attribute) and isinstance(val, ast.Call) and \
                        getattr(val.func, "id", getattr(val.func, "attr", "")) == "defaultdict":
                    fac = val.args[0] if val.args else None
                    if isinstance(fac, ast.Name) and fac.id in ("deque", "list", "dict", "set", "int"):
                        c_factory_attrs.add(tgt.attr)
                    else:
                        py_factory_attrs.add(tgt.attr)
    events = []
    for n in ast.walk(publish):
        locked = bool(under_with(n, publish))
        if isinstance(n, ast.Subscript) and isinstance(n.value, ast.Attribute) and isinstance(n.value.value, ast.Name) \
                and n.value.value.id == "self":
            kind = "store" if isinstance(n.ctx, ast.Store) else "load"
            events.append((kind, n.value.attr, locked))
        if isinstance(n, ast.Call) and isinstance(n.func, ast.Attribute) and isinstance(n.func.value, ast.Attribute) \
                and isinstance(n.func.value.value, ast.Name) and n.func.value.value.id == "self":
            if n.func.attr in ("setdefault", "get"):
                events.append((n.func.attr, n.func.value.attr, locked))
    stores = [e for e in events if e[0] == "store"]
    loads = [e for e in events if e[0] == "load"]
    setdefaults = [e for e in events if e[0] == "setdefault"]
    if stores:
        atomic = all(e[2] for e in stores + [e for e in events if e[0] in ("get", "load")])
        notes.append("publish inserts with a subscript store: " + ("under a lock" if atomic else "check-then-insert without a lock"))
    elif setdefaults:
        atomic = True
        notes.append("publish uses dict.setdefault")
    elif loads:
        attr = loads[0][1]
        if attr in py_factory_attrs:
            atomic = all(e[2] for e in loads)
            notes.append(f"publish indexes self.{attr}, a defaultdict with a Python-level factory" + (" under a lock" if atomic else ""))
        elif attr in c_factory_attrs:
            atomic = True
            notes.append(f"publish indexes self.{attr}, a defaultdict with a C-level factory")
        else:
            atomic = False
            notes.append(f"publish indexes self.{attr}; how it is created was not recognised")
    else:
        atomic = False
        notes.append("queue lookup in publish not recognised")
    shape["getOrCreateAtomic"] = bool(atomic)

    # --- append under a lock --------------------------------------------------------------------
    appends = [n for n in ast.walk(publish) if isinstance(n, ast.Call) and isinstance(n.func, ast.Attribute)
               and n.func.attr in ("append", "appendleft", "put", "put_nowait")]
    shape["appendLocked"] = bool(appends) and all(under_with(n, publish) for n in appends)

    # --- subscriber -------------------------------------------------------------------------------
    _, it = iters[0]
    pops = [n for n in ast.walk(it) if isinstance(n, ast.Call) and isinstance(n.func, ast.Attribute)
            and n.func.attr in ("popleft", "pop", "get_nowait")]
    if pops:
        ok = True
        for p in pops:
            withs = under_with(p, it)
            if not withs:
                ok = False
                continue
            # the emptiness test must sit under the same `with`: IfExp / If / try-except around the pop
            par = parents.get(p)
            guarded = False
            cur = p
            while cur in parents and parents[cur] is not withs[0]:
                cur = parents[cur]
                if isinstance(cur, (ast.IfExp, ast.If, ast.Try, ast.While)):
                    guarded = True
            ok = ok and guarded
        shape["testPopAtomic"] = ok
    fors = [n for n in ast.walk(it) if isinstance(n, ast.For)]
    snap = False
    for f in fors:
        itx = f.iter
        if isinstance(itx, ast.Call) and getattr(itx.func, "id", "") in ("list", "tuple", "sorted"):
            snap = True
    shape["snapshotsItems"] = snap
    filt = False
    for p in pops:
        cur = p
        while cur in parents and parents[cur] is not it:
            cur = parents[cur]
            if isinstance(cur, ast.If):
                t = cur.test
                neg = isinstance(t, ast.UnaryOp) and isinstance(t.op, ast.Not)
                calls = [c for c in ast.walk(t) if isinstance(c, ast.Call) and getattr(c.func, "id", getattr(c.func, "attr", "")) in ("fnmatch", "fnmatchcase")]
                if calls and not neg and p in list(ast.walk(ast.Module(body=cur.body, type_ignores=[]))):
                    filt = True
    shape["filtersByPattern"] = filt
    popped_names = set()
    for n in ast.walk(it):
        if isinstance(n, ast.Assign) and any(p in list(ast.walk(n.value)) for p in pops):
            for t in n.targets:
                if isinstance(t, ast.Name):
                    popped_names.add(t.id)
    yields = [n for n in ast.walk(it) if isinstance(n, ast.Yield) and isinstance(n.value, ast.Name) and n.value.id in popped_names]
    in_loop_pops = [p for p in pops if any(isinstance(a, ast.While) and a is not _outer_while(it) for a in _chain_nodes(p, parents, it))]
    shape["yieldsEachPopped"] = bool(yields) and not in_loop_pops
    return shape, notes


def _outer_while(fn):
    for n in fn.body:
        if isinstance(n, ast.While):
            return n
    return None


def _chain_nodes(n, parents, stop):
    cur = n
    while cur in parents and parents[cur] is not stop:
        cur = parents[cur]
        yield cur


def translate():
    shape, notes = extract_shape(SRC.read_text())
    b = core.lean_bool
    body = "import SemantivaModel.Model.Transport\nnamespace SemantivaModel.Generated.C14\nopen SemantivaModel.Transport\n\n"
    body += "/-- " + "; ".join(notes).replace("-/", "- /") + " -/\n"
    body += "def shape : Shape :=\n  { " + ",\n    ".join(f"{k} := {b(v)}" for k, v in shape.items()) + " }\n\nend SemantivaModel.Generated.C14\n"
    core.write_generated("C14", body, ["semantiva/execution/transport/in_memory.py (lexical analysis of publish / InMemorySubscription.__iter__)"])
    return shape, notes


# ---------------------------------------------------------------------------------------------
# real scenarios
# ---------------------------------------------------------------------------------------------

SCENARIOS = {
    "new-channel-2pub-1sub": dict(programs=[["c"], ["c"]], patterns=["c"], pre=[]),
    "two-channels-wildcard": dict(programs=[["a", "a"], ["a", "b"]], patterns=["*"], pre=[]),
    "existing-channel": dict(programs=[["c", "c"], ["c"]], patterns=["c"], pre=["c"]),
    "pattern-routing": dict(programs=[["j.1", "k.1"], ["j.2", "j.1"]], patterns=["j.*"], pre=[]),
    "3pub-2sub": dict(programs=[["j.1", "j.2"], ["j.1"], ["k", "j.2"]], patterns=["j.*", "k"], pre=["k"]),
    # several consumers of one channel: the test-and-pop of a subscription must be one atomic step
    "2sub-same-channel": dict(programs=[["c"]], patterns=["c", "c"], pre=["c", "c", "c"]),
    "exact-and-wildcard-sub": dict(programs=[["c", "d"]], patterns=["c", "*"], pre=["c", "c"]),
    # channel names that extend one another, and glob characters: a pattern matches whole names, as fnmatch does
    "prefix-related-names": dict(programs=[["w.1", "w.10", "w.1"], ["j.7.cfg.bak", "j.7.cfg"]], patterns=["w.1", "w.10", "j.*.cfg"], pre=["w.10"]),
    "glob-classes": dict(programs=[["a1", "a2", "b1"]], patterns=["a?", "[b]1"], pre=[]),
    # a subscription closed from another thread while it is being iterated (what subscribe(callback=...) + close() does):
    # whatever it has not delivered stays queued, in order, for the next subscription
    "close-from-other-thread": dict(programs=[["c", "c"]], patterns=["c"], pre=["c", "c", "c"], closers=[0]),
    "close-one-of-two": dict(programs=[["c"]], patterns=["c", "*"], pre=["c", "c", "d"], closers=[1]),
}


def make_scenario(sc):
    import semantiva.execution.transport.in_memory as M

    def make():
        t = M.InMemorySemantivaTransport()
        for k, ch in enumerate(sc["pre"]):
            t.publish(ch, ("pre", ch, k), None)
        received = [[] for _ in sc["patterns"]]
        bodies = []
        for i, prog in enumerate(sc["programs"]):
            def pub(i=i, prog=prog):
                for k, ch in enumerate(prog):
                    t.publish(ch, (i, ch, k), None)
            bodies.append(pub)
        subs = [t.subscribe(pat) for pat in sc["patterns"]]
        for j, pat in enumerate(sc["patterns"]):
            def sub(j=j, pat=pat):
                for msg in subs[j]:
                    received[j].append(msg.data)
            bodies.append(sub)
        for j in sc.get("closers", []):
            def closer(j=j):
                subs[j].close()
            bodies.append(closer)

        def finish(ex):
            rest = []
            # an open subscription iterated again must see what is still queued for its pattern (never stranded behind a stale view)
            again = [[] for _ in subs]
            try:
                for j, sb in enumerate(subs):
                    for msg in sb:
                        again[j].append(msg.data)
            except BaseException as exc:  # noqa: BLE001
                ex.errors[-2] = exc
            for j in range(len(subs)):
                received[j].extend(again[j])
            try:
                for msg in t.subscribe("*"):
                    rest.append(msg.data)
            except BaseException as exc:  # noqa: BLE001
                ex.errors[-1] = exc
            return {"received": received, "rest": rest}
        return bodies, finish
    return make


def published(sc):
    out = [("pre", ch, k) for k, ch in enumerate(sc["pre"])]
    for i, prog in enumerate(sc["programs"]):
        out += [(i, ch, k) for k, ch in enumerate(prog)]
    return out


def judge(sc, ex, obs):
    """Violations of the property visible in one real execution."""
    out = []
    if ex.timed_out:
        return [("harness-timeout", "scheduler timed out (not a verdict)")]
    for tid, exc in ex.errors.items():
        out.append((f"thread-error:{type(exc).__name__}", f"thread {tid} raised {exc!r}"))
    want = Counter(published(sc))
    got = Counter(tuple(x) for r in obs["received"] for x in r) + Counter(tuple(x) for x in obs["rest"])
    lost = want - got
    dup = got - want
    if lost:
        out.append(("message-lost", f"published but never delivered: {sorted(lost.elements(), key=str)}"))
    if dup:
        out.append(("message-duplicated", f"delivered more often than published: {sorted(dup.elements(), key=str)}"))
    for (p, ch, k) in obs["rest"]:
        pats = [pat for j, pat in enumerate(sc["patterns"]) if fnmatch.fnmatch(ch, pat) and j not in sc.get("closers", [])]
        if pats:
            out.append(("stranded-behind-open-subscription",
                        f"message {(p, ch, k)} stays queued although the open subscription(s) {pats} were iterated again after it was published"))
    for j, pat in enumerate(sc["patterns"]):
        for (p, ch, k) in obs["received"][j]:
            if not fnmatch.fnmatch(ch, pat):
                out.append(("misrouted", f"subscription {pat!r} received a message of channel {ch!r}"))
    for seq in obs["received"] + [obs["rest"]]:
        last = {}
        for (p, ch, k) in seq:
            if (p, ch) in last and last[(p, ch)] > k:
                out.append(("out-of-order", f"publisher {p} channel {ch!r}: message {k} received after {last[(p, ch)]}"))
            last[(p, ch)] = k
    return out


def run(tier: str) -> int:
    rep = core.Report(PROP, tier)
    rnd = core.rng(PROP)
    rt.setup()
    try:
        shape, notes = translate()
    except Exception as exc:
        rep.add_broken(f"translator C14 could not analyse in_memory.py: {exc!r}")
        shape, notes = None, []
    rep.coverage["shape"] = shape
    rep.coverage["shape_notes"] = notes
    core.prove(rep, PROP, thorough=(tier == "thorough"))

    import importlib
    import semantiva.execution.transport.in_memory as M
    importlib.reload(M)
    files = {M.__file__}
    bound = 2 if tier == "quick" else 3
    per = {"new-channel-2pub-1sub": 220, "two-channels-wildcard": 120, "existing-channel": 80, "pattern-routing": 80,
           "2sub-same-channel": 160, "exact-and-wildcard-sub": 100, "prefix-related-names": 40, "glob-classes": 20,
           "close-from-other-thread": 160, "close-one-of-two": 80} if tier == "quick" else \
          {k: 1500 for k in SCENARIOS}
    stats = {"executions": 0, "distinct_schedules": 0, "by_scenario": {}, "max_points": 0, "preemption_bound": bound,
             "timeouts": 0, "model_runs": 0, "model_losing": 0}
    samples = []
    real_lost = False
    # ---- a long backlog: nothing is dropped however far the publishers get ahead of the consumers --------------------------
    import threading
    for n_msgs, n_pub in ((3000, 1), (40000, 3), (150000, 2)):
        t = M.InMemorySemantivaTransport()
        def burst(i, t=t, n_msgs=n_msgs):
            for k in range(n_msgs):
                t.publish("backlog", (i, k), None)
        ths = [threading.Thread(target=burst, args=(i,)) for i in range(n_pub)]
        for th in ths:
            th.start()
        for th in ths:
            th.join()
        got = [m.data for m in t.subscribe("backlog")]
        stats["backlog_messages"] = stats.get("backlog_messages", 0) + len(got)
        per_pub = {}
        ordered_ok = True
        for (i, k) in got:
            ordered_ok = ordered_ok and per_pub.get(i, -1) < k
            per_pub[i] = k
        if len(got) != n_msgs * n_pub or len(set(got)) != len(got):
            rep.add_violation("message-lost:long-backlog", f"{n_pub} publisher(s) put {n_msgs * n_pub} messages on one channel before any consumer ran; "
                              f"{len(got)} were delivered ({len(set(got))} distinct)",
                              {"published": n_msgs * n_pub, "delivered": len(got), "first_delivered": [list(x) for x in got[:3]], "publishers": n_pub})
        elif not ordered_ok:
            rep.add_violation("out-of-order:long-backlog", "a publisher's messages are not received in publication order after a long backlog",
                              {"published": n_msgs * n_pub, "publishers": n_pub})
        del t, got
    # ---- what a message carries does not matter: empty / falsy payloads and contexts are messages like any other ---------------
    payloads = [("first", {"k": 1}), (None, None), (None, {}), (0, None), ("", {}), ([], None), (False, {}), ((), None), (0.0, {}), ("last", None)]
    for pattern in ("ctl.done", "ctl.*"):
        t = M.InMemorySemantivaTransport()
        for data, ctx in payloads:
            t.publish("ctl.done", data, ctx)
        got = [(m.data, m.context) for m in t.subscribe(pattern)]
        again = [(m.data, m.context) for m in t.subscribe("*")]
        stats["falsy_payload_messages"] = stats.get("falsy_payload_messages", 0) + len(payloads)
        if [repr(x) for x in got] != [repr(x) for x in payloads]:
            rep.add_violation("message-lost:falsy-payload", f"{len(payloads)} messages with empty / falsy data and context were published to one channel; "
                              f"the subscription {pattern!r} yielded {len(got)} of them (a second subscription found {len(again)} more)",
                              {"published": [repr(x) for x in payloads], "received": [repr(x) for x in got], "left_behind": [repr(x) for x in again]})
    for name, limit in per.items():
        sc = SCENARIOS[name]
        n = 0
        for ex, obs in sched.explore(make_scenario(sc), files, bound, limit, rnd=rnd):
            n += 1
            stats["executions"] += 1
            stats["max_points"] = max(stats["max_points"], len(ex.trace))
            if ex.timed_out:
                stats["timeouts"] += 1
                continue
            for sig, what in judge(sc, ex, obs):
                if sig in ("message-lost",):
                    real_lost = True
                rep.add_violation(f"{sig}:{name}", what, {"scenario": name, "programs": sc["programs"], "patterns": sc["patterns"],
                                                          "pre_published": sc["pre"], "schedule": ex.trace,
                                                          "received": obs["received"], "final_drain": obs["rest"]})
            if len(samples) < 4 and n % 37 == 1:
                samples.append({"scenario": name, "schedule": ex.trace, "received": obs["received"], "rest": obs["rest"]})
        stats["by_scenario"][name] = n
        stats["distinct_schedules"] += n
    if stats["timeouts"] > stats["executions"] // 10 + 2:
        rep.notes.append(f"{stats['timeouts']} scheduler timeouts")

    # ---- the model with the extracted shape, on random model-level schedules ---------------------
    model_lost = None
    if shape is not None:
        reqs = []
        for name, sc in SCENARIOS.items():
            nt = len(sc["programs"])
            for _ in range(60 if tier == "quick" else 400):
                ln = rnd.randrange(4, 40)
                schedule = []
                for _ in range(ln):
                    if rnd.random() < 0.7:
                        schedule.append(["p", rnd.randrange(nt)])
                    else:
                        schedule.append(["s", rnd.randrange(len(sc["patterns"]))])
                reqs.append({"m": "c14.run", "id": name, "shape": shape, "programs": [sc["pre"]] * (1 if sc["pre"] else 0) + sc["programs"]
                             if False else sc["programs"], "patterns": sc["patterns"], "schedule": schedule})
        try:
            ans = core.Driver().run(reqs)
            model_lost = False
            for r, a in zip(reqs, ans):
                if "err" in a:
                    raise RuntimeError(a["err"])
                o = a["ok"]
                stats["model_runs"] += 1
                app = Counter(tuple(m) for m in o["appended"])
                dele = Counter(tuple(m) for d in o["delivered"] for m in d)
                if app - dele or any(o["crashed"]):
                    stats["model_losing"] += 1
                    model_lost = True
                if o["good"] and (app - dele or dele - app):
                    rep.add_broken("model self-check: a good shape lost or duplicated a message on " + json.dumps(r["schedule"]))
        except Exception as exc:
            rep.add_broken(f"correspondence C14: model driver unavailable ({exc!r})")
    if model_lost is not None and shape is not None:
        good = all(shape.values())
        if good and real_lost:
            rep.add_broken("correspondence C14: the extracted shape is good but the real transport loses a message")
        if (not good) and not real_lost and not rep.violations:
            rep.notes.append("extracted shape is not good, yet no real schedule within the bound lost a message")
    rep.coverage.update({
        "evaluations": stats["executions"] + stats["model_runs"],
        "distinct_nontrivial": stats["distinct_schedules"],
        "rule": f"real thread schedules of publishers/subscribers at line granularity of in_memory.py, enumerated by re-execution with at most "
                f"{bound} preemptions (sampled when above the per-scenario limit); distinct = distinct choice sequences; every schedule has >= 2 threads",
        "samples": samples or [{"note": "no sample"}],
        "traces_validated_against_impl": stats["distinct_schedules"],
        "generator_distribution": stats,
        "search": "bounded-preemption schedule enumeration on the real transport; random schedules on the model with the extracted shape",
    })
    rep.assumptions += [
        "preemption inside a single C-level call (dict.setdefault, deque.append, list(d.items())) does not happen (GIL)",
        "the lexical shape extractor answers conservatively: anything it does not recognise is reported as not atomic",
        "the lock guarding append and the lock guarding pop are the same object (per-queue lock stored with the queue)",
    ]
    return rep.finish()


def replay(path: str) -> int:
    case = json.loads(open(path).read())
    print(json.dumps(case, indent=1)[:3000])
    c = case.get("case", {})
    if "schedule" in c and c.get("scenario") in SCENARIOS:
        rt.setup()
        import semantiva.execution.transport.in_memory as M
        sc = SCENARIOS[c["scenario"]]
        bodies, finish = make_scenario(sc)()
        ex = sched.Execution({M.__file__}, bodies, c["schedule"]).run()
        obs = finish(ex)
        print("replayed:", obs, judge(sc, ex, obs))
        return 1 if judge(sc, ex, obs) else 0
    return 0
