"""C16 — every class the factories generate satisfies the framework's own contracts.

prove      : Properties/C16.lean over Model/Factory.lean: generated_ok (every accepted wrapping of every well-formed base
             component passes the processor rules, the node rules and mirrors types and created keys)
correspond : descriptor (kind, input/output type, created keys, parameters) of the real generated processor and node
             classes vs descOf / nodeOf of the Lean model, and accept/reject of the factories, over a systematic
             family of 92 + 20 base components x every wrapping x node bindings
oracle     : (real code only) validate_component on type(node) and type(node.processor): no error-level diagnostic;
             node input/output types and created keys mirror the processor's (sources take no data, sinks and probes
             pass their input through).
"""
from __future__ import annotations

import json

from vlib import core
from props import pipegen

PROP = "C16"
NODE_KIND = {"_DataSourceNode": "dataSource", "_PayloadSourceNode": "payloadSource", "_DataOperationNode": "operation",
             "_ProbeContextInjectorNode": "probe", "_ProbeResultCollectorNode": "probe", "_DataSinkNode": "dataSink",
             "_PayloadSinkNode": "payloadSink", "_ContextProcessorNode": "ctxProc",
             "_DataOperationContextInjectorProbeNode": "operation"}


def setup():
    pipegen.setup()
    from props import components16
    components16.register()


def base_family():
    """name -> descriptor of every base component the harness knows."""
    from props import components16
    fam = {k: dict(v) for k, v in components16.FAMILY.items()}
    kinds = {"dataSource": "dataSource", "payloadSource": "payloadSource", "operation": "operation", "probe": "probe",
             "dataSink": "dataSink", "payloadSink": "payloadSink"}
    for name, lib in pipegen.LIB.items():
        kind = kinds[lib["kind"][0]]
        out = lib["outT"] if kind not in ("probe",) else None
        fam[name] = dict(kind=kind, inT=lib["inT"], outT=out, created=list(lib["declared"]), params=[p for p, _ in lib["params"]])
    return fam


def tn(t):
    return None if t is None else getattr(t, "__name__", str(t))


def call(obj, name):
    fn = getattr(obj, name, None)
    if not callable(fn):
        return None
    try:
        return fn()
    except Exception:
        return "<raises>"


def real_kind(node):
    for cls in type(node).__mro__:
        if cls.__name__ in NODE_KIND:
            return NODE_KIND[cls.__name__]
    return "?"


def real_desc(node):
    p = type(node.processor)
    return {"kind": real_kind(node), "inT": tn(call(p, "input_data_type")), "outT": tn(call(p, "output_data_type")),
            "created": list(call(p, "get_created_keys") or []), "params": list(call(p, "get_processing_parameter_names") or [])}


def real_node_desc(node):
    n = type(node)
    return {"inT": tn(call(n, "input_data_type")), "outT": tn(call(n, "output_data_type")), "created": list(call(node, "get_created_keys") or [])}


def gen_cases(rnd, fam, n_cases):
    """Yield (spec, model request) for configurations: every base x wrapping x binding (sampled when n_cases is small)."""
    names = sorted(fam)
    all_cases = []
    for name in names:
        d = fam[name]
        for ck in (None, next_ck()):
            all_cases.append((name, "comp", None, None, ck))
            for coll in ("TColl", "TColl2"):
                all_cases.append((name, "slice", coll, None, ck))
                for vars_ in (["x"], ["x", "y2"]):
                    all_cases.append((name, "sweep", coll, vars_, ck))
            for vars_ in (["x"], ["x", "y2"]):
                all_cases.append((name, "sweep", None, vars_, ck))
    for s, d in (("rename:a:b", dict(kind="ctxProc", inT="BaseDataType", outT=None, created=["b"], params=["a"])),
                 ("delete:a", dict(kind="ctxProc", inT="BaseDataType", outT=None, created=[], params=["a"])),
                 ('template:"x{a}_{c}":out', dict(kind="ctxProc", inT="BaseDataType", outT=None, created=["out"], params=["a", "c"]))):
        fam[s] = d
        for ck in (None, next_ck()):
            all_cases.append((s, "comp", None, None, ck))
    if n_cases < len(all_cases):
        rnd.shuffle(all_cases)
        all_cases = all_cases[:n_cases]
    return all_cases


# the domains a sweep variable can be given: whatever the values are, the generated classes must satisfy the contracts
DOMAINS = [[1, 2], [1.0, 2.0, float("inf")], [float("nan")], [float("-inf"), 0], ["a", None, True], [[1, 2], [3]], [{"k": 1, "j": [2]}],
           {"lo": 0.0, "hi": 1.0, "steps": 3}, {"lo": 1.0, "hi": 10.0, "steps": 2, "scale": "log", "endpoint": False},
           {"values": [10 ** 30, -1]}, [1, 2], ["µ", "x y"], [0], [1e308, 5e-324]]
_domain_counter = [0]


# context keys a probe result may be stored under: any non-blank string is accepted by the node factory
CKS = ["ck1", "roi-1.mean", "peak height", "stats/values", "µ_1", "1st", "a.b.c", "with:colon", "ck1"]
_ck_counter = [0]


def next_ck():
    _ck_counter[0] += 1
    return CKS[_ck_counter[0] % len(CKS)]


def next_domain():
    _domain_counter[0] += 1
    return DOMAINS[_domain_counter[0] % len(DOMAINS)]


def spec_of(fam, name, wrap, coll, vars_, ck):
    d = fam[name]
    spec = {"processor": name}
    params = {p: "cfg" for p in d["params"] if p != "b"}
    if wrap == "slice":
        spec["processor"] = f"slice:{name}:{coll}"
    if wrap == "sweep":
        sw = {"parameters": {}, "variables": {v: next_domain() for v in vars_}}
        target = [p for p in d["params"]][:1]
        for p in target:
            sw["parameters"][p] = vars_[0]
            params.pop(p, None)
        if coll is not None:
            sw["collection"] = coll
        spec["derive"] = {"parameter_sweep": sw}
    if params and d["kind"] != "ctxProc":
        spec["parameters"] = params
    if ck is not None:
        spec["context_key"] = ck
    return spec


def run(tier: str) -> int:
    rep = core.Report(PROP, tier)
    rnd = core.rng(PROP)
    setup()
    core.prove(rep, PROP, thorough=(tier == "thorough"))
    from semantiva.contracts.expectations import validate_component
    from semantiva.pipeline.nodes._pipeline_node_factory import _pipeline_node_factory
    from semantiva.logger import Logger
    lg = Logger()
    drv = None
    try:
        drv = core.Driver()
    except Exception as exc:
        rep.add_broken(f"correspondence C16: model driver unavailable ({exc!r})")
    fam = base_family()
    cases = gen_cases(rnd, fam, 3000 if tier == "quick" else 10 ** 9)
    stats = {"cases": 0, "constructed": 0, "rejected": 0, "by_wrap": {}, "by_kind": {}, "classes_validated": 0, "model_compared": 0}
    mism, samples = [], []
    alive = []            # every constructed node stays alive: a class must keep satisfying the contracts while later classes are generated
    reqs = []
    for (name, wrap, coll, vars_, ck) in cases:
        d = fam[name]
        req = {"m": "c16.desc", "id": len(reqs), "t": wrap, "d": {"kind": d["kind"], "inT": d["inT"], "outT": d["outT"], "created": d["created"], "params": d["params"]}}
        if coll is not None:
            req["coll"] = coll
        if vars_ is not None:
            req["vars"] = vars_
        if ck is not None:
            req["ck"] = ck
        reqs.append(req)
    answers = None
    if drv is not None:
        try:
            answers = drv.run(reqs)
        except Exception as exc:
            rep.add_broken(f"correspondence C16: driver error {exc!r}")
    for i, (name, wrap, coll, vars_, ck) in enumerate(cases):
        d = fam[name]
        spec = spec_of(fam, name, wrap, coll, vars_, ck)
        stats["cases"] += 1
        stats["by_wrap"][wrap] = stats["by_wrap"].get(wrap, 0) + 1
        stats["by_kind"][d["kind"]] = stats["by_kind"].get(d["kind"], 0) + 1
        if d.get("dual"):
            stats["dual_role_components"] = stats.get("dual_role_components", 0) + 1
        pub = {"spec": spec, "base": name, "wrapping": wrap, "collection": coll, "variables": vars_, "context_key": ck}
        node, err = None, None
        try:
            node = _pipeline_node_factory(json.loads(json.dumps(spec)), lg)
        except Exception as exc:  # noqa: BLE001
            err = f"{type(exc).__name__}: {exc}"
        m = None
        if answers is not None:
            a = answers[i]
            if "err" in a:
                rep.add_broken(f"correspondence C16: driver error {a['err']}")
                answers = None
            else:
                m = a["ok"]
        if node is None:
            stats["rejected"] += 1
            if m is not None and m.get("desc") is not None and m.get("node") is not None:
                mism.append({"case": pub, "difference": f"the factories reject ({err}) what the model accepts"})
            continue
        stats["constructed"] += 1
        alive.append((node, pub, wrap, d["kind"]))
        rd, rn = real_desc(node), real_node_desc(node)
        # ---- oracle on the real classes ---------------------------------------------------------------
        for label, cls in (("node", type(node)), ("processor", type(node.processor))):
            stats["classes_validated"] += 1
            errs = [(x.code, x.message) for x in validate_component(cls) if x.severity == "error"]
            if errs:
                rep.add_violation(f"contract-error:{label}:{errs[0][0]}:{wrap}:{d['kind']}",
                                  f"the generated {label} class {cls.__name__} has error-level contract diagnostics {[e[0] for e in errs]}",
                                  dict(pub, cls=cls.__name__, diagnostics=errs))
        kind = rd["kind"]
        problems = []
        if kind in ("dataSource", "payloadSource"):
            if rn["inT"] != "NoDataType":
                problems.append(f"source node input type is {rn['inT']}")
            if rn["outT"] != rd["outT"]:
                problems.append(f"source node output {rn['outT']} != processor output {rd['outT']}")
        elif kind in ("dataSink", "payloadSink", "probe"):
            if kind != "probe" and rd["outT"] != rd["inT"]:
                problems.append(f"sink adapter does not pass its input type through ({rd['inT']} -> {rd['outT']})")
            if rn["outT"] != rn["inT"]:
                problems.append(f"{kind} node does not pass its input type through ({rn['inT']} -> {rn['outT']})")
            if rn["inT"] != rd["inT"]:
                problems.append(f"{kind} node input {rn['inT']} != processor input {rd['inT']}")
        elif kind == "operation":
            if rn["inT"] != rd["inT"] or rn["outT"] != rd["outT"]:
                problems.append(f"operation node types {rn['inT']}->{rn['outT']} != processor {rd['inT']}->{rd['outT']}")
        want_created = [ck] if kind == "probe" else rd["created"]
        if sorted(rn["created"]) != sorted(want_created):
            problems.append(f"node created keys {rn['created']} != {'bound key' if kind == 'probe' else 'processor created keys'} {want_created}")
        for pr in problems:
            rep.add_violation(f"mirror:{kind}:{wrap}:{pr.split(' ')[0]}-{pr.split(' ')[1]}", "the node wrapper does not mirror the processor it wraps: " + pr,
                              dict(pub, processor=rd, node=rn))
        # ---- correspondence with the model ---------------------------------------------------------------
        if m is not None:
            stats["model_compared"] += 1
            if d.get("dual") and (kind != d["kind"] or "pk16" in rd["created"]):
                stats["dual_role_other_choice"] = stats.get("dual_role_other_choice", 0) + 1     # judged by the mirror oracle only
            elif m.get("desc") is None or m.get("node") is None:
                mism.append({"case": pub, "difference": "the factories accept what the model rejects", "real": rd})
            else:
                md, mn = m["desc"], m["node"]
                diffs = []
                if (md["inT"], md["outT"]) != (rd["inT"], rd["outT"]):
                    diffs.append(f"processor types model {md['inT']}->{md['outT']} real {rd['inT']}->{rd['outT']}")
                if sorted(md["created"]) != sorted(rd["created"]):
                    diffs.append(f"processor created keys model {md['created']} real {rd['created']}")
                if wrap != "sweep" and sorted(md["params"]) != sorted(rd["params"]):
                    diffs.append(f"parameters model {md['params']} real {rd['params']}")
                if (mn["inT"], mn["outT"]) != (rn["inT"], rn["outT"]):
                    diffs.append(f"node types model {mn['inT']}->{mn['outT']} real {rn['inT']}->{rn['outT']}")
                if sorted(mn["created"]) != sorted(rn["created"]):
                    diffs.append(f"node created keys model {mn['created']} real {rn['created']}")
                if d["kind"] != kind:
                    diffs.append(f"kind model {d['kind']} real {kind}")
                for x in diffs:
                    mism.append({"case": pub, "difference": x})
        if len(samples) < 4 and i % 97 == 0:
            samples.append({"spec": spec, "processor": rd, "node": rn})
    for node, pub, wrap, kind in alive:
        for label, cls in (("node", type(node)), ("processor", type(node.processor))):
            stats["classes_revalidated"] = stats.get("classes_revalidated", 0) + 1
            errs = [(x.code, x.message) for x in validate_component(cls) if x.severity == "error"]
            if errs:
                rep.add_violation(f"contract-error-after-history:{label}:{errs[0][0]}:{wrap}:{kind}",
                                  f"the generated {label} class {cls.__name__}, still in use, fails the contract catalogue after other classes were generated: {[e[0] for e in errs]}",
                                  dict(pub, cls=cls.__name__, diagnostics=errs))
    if mism:
        rep.add_broken(f"correspondence C16: generated classes differ from the factory model in {len(mism)} places, first "
                       + json.dumps(mism[0], default=str)[:700])
        rep.coverage["first_disagreements"] = mism[:5]
    rep.coverage.update({
        "evaluations": stats["cases"],
        "distinct_nontrivial": stats["constructed"],
        "rule": "base components: every (input, output) pair over 4 data types x 3 parameter signatures (+ a key-writing variant), probes, sources, sinks, "
                "payload sources and sinks over every type (92 generated classes), the 21 hand-written term components, rename/delete/template; each "
                "as written, sliced over 2 collection types, swept with 1..2 variables with / without a collection, each with and without context_key "
                + ("(sampled)" if tier == "quick" else "(all)"),
        "samples": samples,
        "traces_validated_against_impl": stats["model_compared"],
        "generator_distribution": stats,
        "search": "same enumeration",
    })
    rep.assumptions += [
        "the descriptor of a class is read through its public classmethods (input_data_type, output_data_type, get_created_keys, get_processing_parameter_names)",
        "rules of the catalogue that read source text or docstrings (SVA102, SVA250) are exercised on the real classes only",
    ]
    return rep.finish()


def replay(path: str) -> int:
    case = json.loads(open(path).read())
    print(json.dumps(case, indent=1, default=str)[:4000])
    return 0
