"""A systematic family of base components for C16: every (input type, output type) pair, with and without
declared context keys, with three parameter signatures; sources, sinks, probes and payload variants over
every data type.  Built at import time and registered like any extension module."""
from __future__ import annotations

from typing import List

from semantiva.context_processors import ContextType
from semantiva.data_io import DataSink, DataSource, PayloadSink, PayloadSource
from semantiva.data_processors import DataOperation, DataProbe
from semantiva.pipeline import Payload

from props.components import TData, TOther, TColl, TColl2

TYPES = {"TData": TData, "TOther": TOther, "TColl": TColl, "TColl2": TColl2}
FAMILY: dict[str, dict] = {}          # class name -> descriptor the harness expects


def _logic(sig: str, tag: str, out_cls, writes):
    ns: dict = {}
    body = f"def _process_logic(self, data{sig}):\n"
    for k in writes:
        body += f"    self._notify_context_update({k!r}, [{k!r}])\n"
    if out_cls is None:
        body += "    return [_tag]\n"
    elif out_cls in (TColl, TColl2):
        body += "    return _out.from_list([_TData([_tag])])\n"
    else:
        body += "    return _out([_tag])\n"
    exec(body, {"_out": out_cls, "_tag": tag, "_TData": TData}, ns)
    return ns["_process_logic"]


SIGS = {"p0": ("", []), "p1": (", a", ["a"]), "p2": (", a, b='d'", ["a", "b"])}


def _build():
    g = globals()
    for iname, icls in TYPES.items():
        for oname, ocls in TYPES.items():
            for sname, (sig, params) in SIGS.items():
                for ck in ([], ["w1"]):
                    if ck and sname != "p0":
                        continue
                    name = f"Op_{iname}_{oname}_{sname}{'_w' if ck else ''}"
                    attrs = {"input_data_type": classmethod(lambda cls, t=icls: t), "output_data_type": classmethod(lambda cls, t=ocls: t),
                             "_process_logic": _logic(sig, name, ocls, ck), "__doc__": f"Generated operation {iname}->{oname}.", "__module__": __name__}
                    if ck:
                        attrs["context_keys"] = classmethod(lambda cls, k=tuple(ck): list(k))
                    g[name] = type(name, (DataOperation,), attrs)
                    FAMILY[name] = dict(kind="operation", inT=iname, outT=oname, created=list(ck), params=params)
        for sname, (sig, params) in SIGS.items():
            name = f"Probe_{iname}_{sname}"
            g[name] = type(name, (DataProbe,), {"input_data_type": classmethod(lambda cls, t=icls: t), "_process_logic": _logic(sig, name, None, []),
                                                "__doc__": f"Generated probe over {iname}.", "__module__": __name__})
            FAMILY[name] = dict(kind="probe", inT=iname, outT=None, created=[], params=params)
        name = f"Source_{iname}"

        def _mk_get_data(_c, _n):
            def _get_data(cls, v="d"):
                return _c([_n, v]) if _c not in (TColl, TColl2) else _c.from_list([TData([_n, v])])
            return _get_data
        g[name] = type(name, (DataSource,), {"_get_data": classmethod(_mk_get_data(icls, name)), "output_data_type": classmethod(lambda cls, t=icls: t),
                                             "__doc__": f"Generated source of {iname}.", "__module__": __name__})
        FAMILY[name] = dict(kind="dataSource", inT="NoDataType", outT=iname, created=[], params=["v"])
        name = f"Sink_{iname}"

        def _send_data(cls, data, path="/dev/null"):
            return None
        g[name] = type(name, (DataSink,), {"_send_data": classmethod(_send_data), "input_data_type": classmethod(lambda cls, t=icls: t),
                                           "__doc__": f"Generated sink of {iname}.", "__module__": __name__})
        FAMILY[name] = dict(kind="dataSink", inT=iname, outT=iname, created=[], params=["path"])
        name = f"PSource_{iname}"

        def _mk_get_payload(_c, _n):
            def _get_payload(cls, v="d"):
                d = _c([_n, v]) if _c not in (TColl, TColl2) else _c.from_list([TData([_n, v])])
                return Payload(d, ContextType({"pk16": v}))
            return _get_payload
        g[name] = type(name, (PayloadSource,), {"_get_payload": classmethod(_mk_get_payload(icls, name)), "output_data_type": classmethod(lambda cls, t=icls: t),
                                                "_injected_context_keys": classmethod(lambda cls: ["pk16"]),
                                                "__doc__": f"Generated payload source of {iname}.", "__module__": __name__})
        FAMILY[name] = dict(kind="payloadSource", inT="NoDataType", outT=iname, created=["pk16"], params=["v"])
        name = f"PSink_{iname}"

        def _send_payload(cls, payload, path="/dev/null"):
            return None
        g[name] = type(name, (PayloadSink,), {"_send_payload": classmethod(_send_payload), "input_data_type": classmethod(lambda cls, t=icls: t),
                                              "__doc__": f"Generated payload sink of {iname}.", "__module__": __name__})
        FAMILY[name] = dict(kind="payloadSink", inT=iname, outT=iname, created=[], params=["path"])
        # components that offer both IO roles: the node factory and the adapter factory each pick one; whichever they pick,
        # the node must mirror the adapter it wraps (descriptor = the data role, which is what both pick on the pinned tree;
        # `dual` tells the harness not to hold a consistent switch to the payload role against the code)
        name = f"DualSource_{iname}"
        g[name] = type(name, (DataSource, PayloadSource), {
            "_get_data": classmethod(_mk_get_data(icls, name)), "_get_payload": classmethod(_mk_get_payload(icls, name)),
            "output_data_type": classmethod(lambda cls, t=icls: t), "_injected_context_keys": classmethod(lambda cls: ["pk16"]),
            "__doc__": f"Generated source of {iname} offering both source roles.", "__module__": __name__})
        FAMILY[name] = dict(kind="dataSource", inT="NoDataType", outT=iname, created=[], params=["v"], dual=True)
        name = f"DualSink_{iname}"
        g[name] = type(name, (DataSink, PayloadSink), {
            "_send_data": classmethod(_send_data), "_send_payload": classmethod(_send_payload),
            "input_data_type": classmethod(lambda cls, t=icls: t),
            "__doc__": f"Generated sink of {iname} offering both sink roles.", "__module__": __name__})
        FAMILY[name] = dict(kind="dataSink", inT=iname, outT=iname, created=[], params=["path"], dual=True)


def _build_bare():
    """One component of every kind WITHOUT a docstring of its own (user classes often have none)."""
    g = globals()

    class Bare_Op(DataOperation):
        @classmethod
        def input_data_type(cls):
            return TData

        @classmethod
        def output_data_type(cls):
            return TData

        def _process_logic(self, data, a):
            return TData(["bare", data.data, a])

    class Bare_Probe(DataProbe):
        @classmethod
        def input_data_type(cls):
            return TData

        def _process_logic(self, data):
            return ["bareprobe", data.data]

    class Bare_Source(DataSource):
        @classmethod
        def _get_data(cls, v="d"):
            return TData(["baresrc", v])

        @classmethod
        def output_data_type(cls):
            return TData

    class Bare_Sink(DataSink):
        @classmethod
        def _send_data(cls, data, path="/dev/null"):
            return None

        @classmethod
        def input_data_type(cls):
            return TData

    class Bare_PSource(PayloadSource):
        @classmethod
        def _get_payload(cls, v="d"):
            return Payload(TData(["barepsrc", v]), ContextType({"pk16": v}))

        @classmethod
        def output_data_type(cls):
            return TData

        @classmethod
        def _injected_context_keys(cls):
            return ["pk16"]

    class Bare_PSink(PayloadSink):
        @classmethod
        def _send_payload(cls, payload, path="/dev/null"):
            return None

        @classmethod
        def input_data_type(cls):
            return TData

    from semantiva.data_types import NoDataType

    class Terminal_Sink(DataSink):
        """A sink that declares it emits nothing (a warning-level contract note, not an error)."""

        @classmethod
        def _send_data(cls, data, path="/dev/null"):
            return None

        @classmethod
        def input_data_type(cls):
            return TData

        @classmethod
        def output_data_type(cls):
            return NoDataType

    class Terminal_PSink(PayloadSink):
        """A payload sink that declares it emits nothing."""

        @classmethod
        def _send_payload(cls, payload, path="/dev/null"):
            return None

        @classmethod
        def input_data_type(cls):
            return TColl

        @classmethod
        def output_data_type(cls):
            return NoDataType

    for cls, desc in ((Terminal_Sink, dict(kind="dataSink", inT="TData", outT="TData", created=[], params=["path"])),
                      (Terminal_PSink, dict(kind="payloadSink", inT="TColl", outT="TColl", created=[], params=["path"]))):
        cls.__module__ = __name__
        cls.__qualname__ = cls.__name__
        g[cls.__name__] = cls
        FAMILY[cls.__name__] = desc
    for cls, desc in ((Bare_Op, dict(kind="operation", inT="TData", outT="TData", created=[], params=["a"])),
                      (Bare_Probe, dict(kind="probe", inT="TData", outT=None, created=[], params=[])),
                      (Bare_Source, dict(kind="dataSource", inT="NoDataType", outT="TData", created=[], params=["v"])),
                      (Bare_Sink, dict(kind="dataSink", inT="TData", outT="TData", created=[], params=["path"])),
                      (Bare_PSource, dict(kind="payloadSource", inT="NoDataType", outT="TData", created=["pk16"], params=["v"])),
                      (Bare_PSink, dict(kind="payloadSink", inT="TData", outT="TData", created=[], params=["path"]))):
        assert cls.__doc__ is None
        cls.__module__ = __name__
        cls.__qualname__ = cls.__name__
        g[cls.__name__] = cls
        FAMILY[cls.__name__] = desc


def _build_derived():
    """Components derived from *concrete* components of the family, changing types / keys / signature: whatever is generated
    for the parent (adapters, node classes) must not be handed to the child, in either order of construction."""
    g = globals()
    Bare_Source, Bare_PSource, Bare_Sink, Bare_Op, Bare_Probe = (g[n] for n in ("Bare_Source", "Bare_PSource", "Bare_Sink", "Bare_Op", "Bare_Probe"))

    class Derived_Source(Bare_Source):
        """A source derived from a concrete source: other output type, one more parameter."""

        @classmethod
        def _get_data(cls, v="d", w="e"):
            return TColl.from_list([TData(["dsrc", v, w])])

        @classmethod
        def output_data_type(cls):
            return TColl

    class Derived_PSource(Bare_PSource):
        """A payload source derived from a concrete one: injects one more key."""

        @classmethod
        def _get_payload(cls, v="d"):
            return Payload(TData(["dpsrc", v]), ContextType({"pk16": v, "pk17": v}))

        @classmethod
        def _injected_context_keys(cls):
            return ["pk16", "pk17"]

    class Derived_Sink(Bare_Sink):
        """A sink derived from a concrete sink: accepts collections."""

        @classmethod
        def _send_data(cls, data, path="/dev/null", mode="w"):
            return None

        @classmethod
        def input_data_type(cls):
            return TColl

    class Derived_Op(Bare_Op):
        """An operation derived from a concrete one: other output type, one more parameter."""

        @classmethod
        def output_data_type(cls):
            return TColl

        def _process_logic(self, data, a, b="x"):
            return TColl.from_list([TData(["dop", data.data, a, b])])

    class Derived_Probe(Bare_Probe):
        """A probe derived from a concrete one: reads collections."""

        @classmethod
        def input_data_type(cls):
            return TColl

        def _process_logic(self, data, q="z"):
            return ["dprobe", q]

    # the reverse order of construction: the child is met before its parent
    class Late_Source(DataSource):
        """A concrete source met after a class derived from it."""

        @classmethod
        def _get_data(cls, v="d"):
            return TData(["late", v])

        @classmethod
        def output_data_type(cls):
            return TData

    class Early_Source(Late_Source):
        """Derived from Late_Source and met first."""

        @classmethod
        def _get_data(cls, v="d", u="u"):
            return TColl.from_list([TData(["early", v, u])])

        @classmethod
        def output_data_type(cls):
            return TColl

    for cls, desc in ((Derived_Source, dict(kind="dataSource", inT="NoDataType", outT="TColl", created=[], params=["v", "w"])),
                      (Derived_PSource, dict(kind="payloadSource", inT="NoDataType", outT="TData", created=["pk16", "pk17"], params=["v"])),
                      (Derived_Sink, dict(kind="dataSink", inT="TColl", outT="TColl", created=[], params=["path", "mode"])),
                      (Derived_Op, dict(kind="operation", inT="TData", outT="TColl", created=[], params=["a", "b"])),
                      (Derived_Probe, dict(kind="probe", inT="TColl", outT=None, created=[], params=["q"])),
                      (Early_Source, dict(kind="dataSource", inT="NoDataType", outT="TColl", created=[], params=["v", "u"])),
                      (Late_Source, dict(kind="dataSource", inT="NoDataType", outT="TData", created=[], params=["v"]))):
        cls.__module__ = __name__
        cls.__qualname__ = cls.__name__
        g[cls.__name__] = cls
        FAMILY[cls.__name__] = desc


_build()
_build_bare()
_build_derived()


def register() -> None:
    from semantiva.registry.processor_registry import ProcessorRegistry
    ProcessorRegistry.register_modules(["props.components", "props.components16"])
