"""C17 — the CLI never executes a configuration its pre-flight checks reject.

translate  : the gate table (blocker x no-execution flag) -> (exit code, node loop entered), one probe invocation of the
             real `semantiva run` per row                                                   -> Generated/C17.lean
prove      : Properties/C17.lean (no_execution_when_rejected, rejected_exit_code, exit_zero_iff_all_completed,
             runs_started) + Tie/C17.lean (`gateOK gateTable` by kernel evaluation)
correspond : (exit code, runs started) of the real CLI on generated invocations vs cliRun of the Lean model with the
             *documented* table, the invocation classified by the reference analysis (C02 model) and the real plan
oracle     : (real code only) no node entered, no sink output, no trace file whenever the invocation is rejected or a
             no-execution flag is given; exit 0 exactly when every planned run completed; no run after a failed one.
"""
from __future__ import annotations

import copy
import json
from pathlib import Path

import yaml

from vlib import core, rt
from props import pipegen, serlog, c02, c09

PROP = "C17"
BLOCKERS = ["none_", "invalidConfig", "missingKey", "runSpaceInvalid", "capExceeded"]
FLAGS = ["none_", "validate", "dryRun", "rsDryRun"]
FLAG_ARGS = {"none_": [], "validate": ["--validate"], "dryRun": ["--dry-run"], "rsDryRun": ["--run-space-dry-run"]}
DOC_TABLE = [[b, f, (0 if b == "none_" else 3), (b == "none_" and f == "none_")] for b in BLOCKERS for f in FLAGS]


def invoke(d: Path, cfg: dict, args, name="cfg.yaml"):
    """Run `semantiva run` in-process with the reference recorders installed. Returns observation dict."""
    (d / name).write_text(yaml.safe_dump(cfg, sort_keys=False))
    log: list = []
    with serlog.recorders(log):
        code, so, se = rt.cli(["run", str(d / name)] + list(args), cwd=d)
    trace_out = Path(cfg.get("trace", {}).get("output_path", d / "nonexistent"))
    tfiles = rt.read_trace_files(trace_out) if trace_out.exists() else {}
    sink = d / "sink.txt"
    return {"code": code, "nodes_entered": len(log), "trace_files": sorted(tfiles), "trace_records": sum(len(v) for v in tfiles.values()),
            "sink": sink.read_text() if sink.exists() else "", "stderr": se[-300:], "stdout": so[-200:], "files": tfiles}


def base_cfg(d: Path, nodes, rs=None, trace_to_file=False):
    cfg = {"extensions": ["props.components"], "trace": {"driver": "jsonl", "output_path": str(d / ("trace_out.jsonl" if trace_to_file else "tracedir"))},
           "pipeline": {"nodes": nodes}}
    if rs is not None:
        cfg["run_space"] = rs
    return cfg


def clean(d: Path):
    import shutil
    for p in (d / "sink.txt",):
        if p.exists():
            p.unlink()
    if (d / "tracedir").exists():
        shutil.rmtree(d / "tracedir")
    if (d / "trace_out.jsonl").exists():
        (d / "trace_out.jsonl").unlink()


def extract_gate_table():
    table = []
    with rt.tempdir() as d:
        sink = str(d / "sink.txt")
        for b in BLOCKERS:
            for f in FLAGS:
                nodes = [{"processor": "TSource"}, {"processor": "TOp1"}, {"processor": "TSink", "parameters": {"path": sink}}]
                rs = {"blocks": [{"mode": "by_position", "context": {"v": [1, 2]}}]}
                args = ["--context", "a=x"]
                if b == "invalidConfig":
                    nodes[1]["parameters"] = {"bogus": 1}
                elif b == "missingKey":
                    args = []
                elif b == "runSpaceInvalid":
                    rs["blocks"][0]["context"]["w"] = [1]
                elif b == "capExceeded":
                    rs["max_runs"] = 1
                clean(d)
                o = invoke(d, base_cfg(d, nodes, rs, trace_to_file=(len(table) % 2 == 1)), args + FLAG_ARGS[f])
                table.append([b, f, o["code"], o["nodes_entered"] > 0 or bool(o["sink"]) or bool(o["trace_files"])])
    return table


def translate():
    table = extract_gate_table()
    body = "import SemantivaModel.Model.Gate\nnamespace SemantivaModel.Generated.C17\nopen SemantivaModel.Gate\n\n"
    body += "/-- (blocker, flag) ↦ (exit code, node loop entered), one probe invocation of `semantiva run` per row. -/\n"
    body += "def gateTable : GateTable :=\n  " + core.lean_list(f"((.{b}, .{f}), ({c}, {core.lean_bool(e)}))" for b, f, c, e in table) + \
            "\n\nend SemantivaModel.Generated.C17\n"
    core.write_generated("C17", body, ["semantiva/cli/__init__.py (_run probed on 20 invocations: 5 blockers x 4 flags)"])
    return table


# ---------------------------------------------------------------------------------------------

def gen_invocation(rnd, d: Path, i: int):
    """A generated invocation with its expected class. Returns dict(nodes, rs, args, blocker, flag, contexts)."""
    sink = str(d / "sink.txt")
    want_blocker = rnd.choice(["none_"] * 4 + ["missingKey", "missingKey", "runSpaceInvalid", "capExceeded", "invalidConfig"])
    for _ in range(6):
        nodes, ctx0, meta = pipegen.gen_pipeline(rnd, max_len=5, p_misfit=0.03, sinks_path=sink)
        # the CLI starts from NoDataType: make the first data node a source most of the time
        if rnd.random() < 0.8 and not any(n["processor"].startswith(("TSource", "TCollSource", "TPayloadSource")) for n in nodes[:1]):
            nodes = [{"processor": "TSourceDef"}] + nodes
        if want_blocker == "invalidConfig" or c02.real_inspect(nodes)[0]:
            break
    if rnd.random() < 0.5:
        nodes.append({"processor": "TSink", "parameters": {"path": sink}})
    if rnd.random() < 0.45:
        nodes.insert(rnd.randrange(1, len(nodes) + 1), {"processor": "TFailIf"})
    flag = rnd.choice(["none_"] * 5 + FLAGS[1:])
    # a node that requires and re-creates the same key (in-place update): the key is required from outside
    inplace = None
    if want_blocker in ("none_", "missingKey") and rnd.random() < 0.35:
        k = rnd.choice(["ipk1", "ipk2"])
        spec = rnd.choice([{"processor": 'template:"{%s}_v2":%s' % (k, k)}, {"processor": f"rename:{k}:{k}x"}])
        nodes.insert(rnd.randrange(1, len(nodes) + 1), spec)
        inplace = k
    if want_blocker == "invalidConfig":
        k = rnd.randrange(len(nodes))
        how = rnd.choice(["bogus", "unknown-processor", "probe-no-key"])
        if how == "bogus" and not nodes[k]["processor"].startswith(("rename:", "delete:", "template:")):
            nodes[k].setdefault("parameters", {})["bogus"] = 1
        elif how == "unknown-processor":
            nodes[k] = {"processor": "NoSuchProcessorAnywhere"}
        else:
            nodes.insert(k + 1, {"processor": "TProbe"})
    return nodes, flag, (want_blocker, inplace)


def classify_and_run(rep, drv, rnd, d: Path, nodes, flag, want_blocker, stats, mism):
    force = want_blocker[2] if len(want_blocker) > 2 else {}
    want_blocker, inplace = want_blocker[0], want_blocker[1]
    # ---- reference analysis: accepted? required keys? ------------------------------------------------
    unknown_proc = any(n["processor"] == "NoSuchProcessorAnywhere" for n in nodes)
    accepted, required = False, []
    framework_node = any(n["processor"] == "ModelFittingContextProcessor" for n in nodes)
    if framework_node:
        # a processor of the framework itself (outside the harness' term library): the reference is the real inspection of a copy
        accepted, insp0, _ = c02.real_inspect(nodes)
        required = sorted(insp0.required_context_keys)
    elif not unknown_proc:
        try:
            ans = drv.run([{"m": "c02.analyse", "id": 0, "nodes": [pipegen.model_node(n) for n in nodes], "dtype": c02.first_input_type(nodes)}])[0]
        except Exception as exc:
            raise RuntimeError(f"reference analysis failed: {exc!r}")
        if "err" in ans:
            raise RuntimeError(ans["err"])
        accepted, required = ans["ok"]["accepted"], sorted(ans["ok"]["required"])
        # unknown parameters are a construction-time matter the reference analysis also rejects
    real_accepted, insp, msg = (False, None, "unknown processor") if unknown_proc else c02.real_inspect(nodes)
    # ---- context supply: run space + --context ---------------------------------------------------------
    n_runs = rnd.randrange(1, 4)
    rs_keys = list(required) if force.get("all_keys_in_rs") else [k for k in required if rnd.random() < 0.5]
    cli_keys = [k for k in required if k not in rs_keys]
    bad_at = rnd.randrange(n_runs) if any(n["processor"] == "TFailIf" for n in nodes) and rnd.random() < 0.6 else None
    ctxmap = {k: [("/dev/null" if k == "path" else f"rs_{k}_{j}") for j in range(n_runs)] for k in rs_keys}
    if any(n["processor"] == "TFailIf" for n in nodes) and "bad" not in required:
        ctxmap["bad"] = ["boom" if j == bad_at else f"fine{j}" for j in range(n_runs)]
    elif "bad" in ctxmap:
        ctxmap["bad"] = ["boom" if j == bad_at else f"fine{j}" for j in range(n_runs)]
    blocker = "none_"
    rs = {"blocks": [{"mode": "by_position", "context": ctxmap}]} if ctxmap else None
    if not real_accepted:
        blocker = "invalidConfig"
    elif want_blocker == "missingKey" and required:
        drop = inplace if (inplace in required and rnd.random() < 0.7) else rnd.choice(required)
        stats["inplace_key_dropped"] = stats.get("inplace_key_dropped", 0) + (1 if drop == inplace else 0)
        if drop in ctxmap:
            del ctxmap[drop]
            if not ctxmap:
                rs = None
        else:
            cli_keys.remove(drop)
        blocker = "missingKey"
    elif want_blocker == "runSpaceInvalid":
        rs = rs or {"blocks": [{"mode": "by_position", "context": {}}]}
        how = rnd.choice(["unequal", "bad-mode", "dup-key", "dup-key-source", "dup-key-source"])
        if how == "unequal":
            rs["blocks"][0]["context"]["u1"] = [1, 2, 3, 4, 5]
            rs["blocks"][0]["context"]["u2"] = [1]
        elif how == "bad-mode":
            rs["blocks"][0]["mode"] = "diagonal"
        elif how == "dup-key-source":
            # the same key defined by a source file of one block and by another block (context or a second file)
            (d / "dup_src.csv").write_text("dupk,other\n1,a\n2,b\n")
            first = {"mode": "by_position", "source": {"format": "csv", "path": "dup_src.csv"}}
            second = rnd.choice([{"mode": "by_position", "context": {"dupk": [7, 8]}},
                                 {"mode": "by_position", "source": {"format": "csv", "path": "dup_src.csv", "select": ["dupk"]}}])
            pair = [first, second]
            rnd.shuffle(pair)
            rs["blocks"] += pair
        else:
            rs["blocks"].append({"mode": "by_position", "context": {"dupk": [1]}})
            rs["blocks"].append({"mode": "by_position", "context": {"dupk": [2]}})
        blocker = "runSpaceInvalid"
    elif want_blocker == "capExceeded":
        rs = rs or {"blocks": []}
        rs["blocks"].append({"mode": "combinatorial", "context": {"big1": list(range(6)), "big2": list(range(6))}})
        blocker = "capExceeded"
    args = []
    via_set = False
    for k in cli_keys:
        args += ["--context", f"{k}=" + ("/dev/null" if k == "path" else f"cli_{k}")]
    if blocker == "capExceeded":
        cap = rnd.choice([0, 0, 1, 10, 35])          # boundary caps: zero (nothing may run at all) … one below the 36 planned runs
        stats.setdefault("caps", {}).setdefault(str(cap), 0)
        stats["caps"][str(cap)] += 1
        r = {"yaml": 0.0, "cli": 0.5, "set": 0.9}.get(force.get("cap_via"), rnd.random())
        if r < 0.4:
            rs["max_runs"] = cap
        elif r < 0.75:
            args += ["--run-space-max-runs", str(cap)]
        else:
            # the same cap given as a configuration override
            rs["max_runs"] = 100000
            args += ["--set", f"run_space.max_runs={cap}"]
            via_set = True
    flag_args = FLAG_ARGS[flag]
    if flag == "rsDryRun" and rs is not None:
        # the same request spelled in the file, or as an override of the file
        r = {"cli": 0.9, "yaml": 0.1, "set": 0.4}.get(force.get("flag_via"), rnd.random())
        if r < 0.25:
            rs["dry_run"] = True
            flag_args = []
            via_set = True          # (keeps the run space inline)
        elif r < 0.5:
            rs["dry_run"] = False
            flag_args = ["--set", "run_space.dry_run=true"]
            via_set = True
    args += flag_args
    stats["spelled_via_set_or_file"] = stats.get("spelled_via_set_or_file", 0) + (1 if via_set else 0)
    rs_in_file = rs is not None and not via_set and (force.get("rs_in_file", False) or rnd.random() < 0.35)
    if rs_in_file:
        # the same run space given through --run-space-file (as a bare block or under a run_space: key)
        (d / "rs_file.yaml").write_text(yaml.safe_dump(rs if rnd.random() < 0.5 else {"run_space": rs}, sort_keys=False))
        args = ["--run-space-file", str(d / "rs_file.yaml")] + args
        if rnd.random() < 0.5:
            rnd.shuffle(args_groups := [args[:2], args[2:]])
            args = args_groups[0] + args_groups[1]
    trace_to_file = rnd.random() < 0.5              # a trace *file* must not exist either when nothing was executed
    yaml_nodes = nodes
    if unknown_proc and rnd.random() < 0.5:
        # the file names a known processor; an override replaces it by an unknown one: the invocation is as invalid as before
        k = next(i for i, n in enumerate(nodes) if n["processor"] == "NoSuchProcessorAnywhere")
        yaml_nodes = copy.deepcopy(nodes)
        yaml_nodes[k] = {"processor": "TOp0"}
        args = args + ["--set", f"pipeline.nodes.{k}.processor=NoSuchProcessorAnywhere"]
        stats["spelled_via_set_or_file"] = stats.get("spelled_via_set_or_file", 0) + 1
    cfg = base_cfg(d, yaml_nodes, None if rs_in_file else rs, trace_to_file=trace_to_file)
    stats["trace_to_file"] = stats.get("trace_to_file", 0) + (1 if trace_to_file else 0)
    stats["run_space_file"] = stats.get("run_space_file", 0) + (1 if rs_in_file else 0)
    clean(d)
    o = invoke(d, cfg, args)
    pub = {"nodes": nodes, "run_space": rs, "run_space_via_file": rs_in_file, "trace_output": "file" if trace_to_file else "directory", "args": args, "blocker": blocker, "flag": flag, "required_keys": required}
    stats["by_class"][f"{blocker}/{flag}"] = stats["by_class"].get(f"{blocker}/{flag}", 0) + 1
    executed = o["nodes_entered"] > 0
    side_effects = bool(o["sink"]) or bool(o["trace_files"])
    obs = {k: o[k] for k in ("code", "nodes_entered", "trace_files", "sink", "stderr")}
    if blocker != "none_" or flag != "none_":
        if executed or side_effects:
            what = "nodes were entered" if executed else "a sink or trace file was written"
            rep.add_violation(f"executes-when-rejected:{blocker}:{flag}", f"{what} although the invocation is rejected / a no-execution flag is given",
                              dict(pub, observed=obs))
        if blocker != "none_" and flag == "none_" and o["code"] != 3:
            rep.add_violation(f"exit-code:{blocker}", f"exit code {o['code']} for a configuration problem (documented: 3)", dict(pub, observed=obs))
        if blocker == "none_" and o["code"] != 0:
            rep.add_violation(f"exit-code:clean:{flag}", f"exit code {o['code']} for a valid invocation with a no-execution flag (documented: 0)", dict(pub, observed=obs))
        if blocker != "none_" and flag != "none_" and o["code"] not in (0, 3):
            rep.add_violation(f"exit-code:{blocker}:{flag}", f"exit code {o['code']} (documented: 0 or 3)", dict(pub, observed=obs))
        outcomes = []
    else:
        # ---- executed invocation: documented outcomes from standalone runs --------------------------------
        plan = c09.plan_of(rs, d) if rs is not None else [{}]
        cli_ctx = {k: ("/dev/null" if k == "path" else f"cli_{k}") for k in cli_keys}
        launch_sink = o["sink"]
        clean(d)
        outcomes = []
        for r in plan:
            res = pipegen.run_real(nodes, dict(cli_ctx, **r))
            outcomes.append(res["outcome"] == "ok")
            if res["outcome"] != "ok":
                break
        want_sink = (d / "sink.txt").read_text() if (d / "sink.txt").exists() else ""
        all_ok = all(outcomes) and len(outcomes) == len(plan)
        stats["executed"] += 1
        stats["failing"] += 0 if all_ok else 1
        if (o["code"] == 0) != all_ok:
            rep.add_violation("exit-zero-iff-all-completed", f"exit code {o['code']} although {'every planned run completed' if all_ok else 'a run failed'}",
                              dict(pub, observed=obs, outcomes=outcomes, planned=len(plan)))
        elif not all_ok and o["code"] != 4:
            rep.add_violation("exit-code:runtime", f"exit code {o['code']} for a run-time failure (documented: 4)", dict(pub, observed=obs, outcomes=outcomes))
        if launch_sink != want_sink:
            rep.add_violation("runs-after-failure-or-missing", "the sink output is not that of the planned runs up to the first failing one",
                              dict(pub, observed=obs, documented_sink=want_sink, outcomes=outcomes))
        started = sum(1 for f in o["files"].values() for r in f if r.get("record_type") == "pipeline_start")
        if started != len(outcomes):
            rep.add_violation("runs-started", f"{started} runs were started, documented {len(outcomes)}", dict(pub, observed=obs, outcomes=outcomes))
        outcomes = outcomes + [True] * (len(plan) - len(outcomes))
    # ---- correspondence with the model under the documented table --------------------------------------
    ans = drv.run([{"m": "c17.run", "id": 0, "table": DOC_TABLE, "blocker": blocker, "flag": flag, "outcomes": outcomes}])[0]
    if "err" in ans:
        raise RuntimeError(ans["err"])
    mcode, mstarted = ans["ok"]["code"], ans["ok"]["started"]
    rstarted = sum(1 for f in o["files"].values() for r in f if r.get("record_type") == "pipeline_start")
    code_ok = (o["code"] == mcode) or (blocker != "none_" and flag != "none_" and o["code"] in (0, 3))
    if not code_ok or rstarted != mstarted:
        mism.append({"case": pub, "model": [mcode, mstarted], "real": [o["code"], rstarted]})
    return pub


def run(tier: str) -> int:
    rep = core.Report(PROP, tier)
    rnd = core.rng(PROP)
    pipegen.setup()
    try:
        table = translate()
    except Exception as exc:
        rep.add_broken(f"translator C17 failed: {exc!r}")
        table = None
    rep.coverage["gate_table"] = table
    core.prove(rep, PROP, thorough=(tier == "thorough"))
    drv = None
    try:
        drv = core.Driver()
    except Exception as exc:
        rep.add_broken(f"correspondence C17: model driver unavailable ({exc!r})")
    n_cases = 120 if tier == "quick" else 1500
    stats = {"invocations": 0, "by_class": {}, "executed": 0, "failing": 0}
    mism, samples = [], []
    def directed(d):
        """Invocations that are part of every run, whatever the seed: one per documented blocker, on minimal pipelines."""
        sink = str(d / "sink.txt")
        snk = {"processor": "TSink", "parameters": {"path": sink}}
        return [
            ([{"processor": "TSourceDef"}, {"processor": 'template:"{ipk1}_v2":ipk1'}, dict(snk)], "none_", ("missingKey", "ipk1")),
            ([{"processor": "TSourceDef"}, {"processor": "rename:ipk2:ipk2x"}, {"processor": "TOp0"}, dict(snk)], "none_", ("missingKey", "ipk2")),
            ([{"processor": "TSourceDef"}, {"processor": "TOp1"}, dict(snk)], "none_", ("missingKey", None)),
            ([{"processor": "TSourceDef"}, {"processor": "TOp1"}, dict(snk)], "validate", ("missingKey", None)),
            ([{"processor": "TSourceDef"}, dict(snk)], "none_", ("capExceeded", None)),
            ([{"processor": "TSourceDef"}, dict(snk)], "none_", ("runSpaceInvalid", None)),
            ([{"processor": "TSourceDef"}, {"processor": "TProbe"}, dict(snk)], "none_", ("invalidConfig", None)),
            ([{"processor": "TSourceDef"}, {"processor": "NoSuchProcessorAnywhere"}, dict(snk)], "dryRun", ("invalidConfig", None)),
            ([{"processor": "TSourceDef"}, {"processor": "TOp0"}, dict(snk)], "dryRun", ("none_", None)),
            ([{"processor": "TSourceDef"}, {"processor": "TOp0"}, dict(snk)], "rsDryRun", ("none_", None)),
            ([{"processor": "TSourceDef"}, {"processor": "TOp0"}, dict(snk)], "none_", ("none_", None)),
            # the same blockers / flags given as configuration overrides
            ([{"processor": "TSource"}, dict(snk)], "none_", ("capExceeded", None, {"cap_via": "set", "all_keys_in_rs": True})),
            ([{"processor": "TSource"}, dict(snk)], "rsDryRun", ("none_", None, {"flag_via": "set", "all_keys_in_rs": True})),
            ([{"processor": "TSource"}, dict(snk)], "rsDryRun", ("none_", None, {"flag_via": "yaml", "all_keys_in_rs": True})),
            # an IO component with a keyword-only required parameter: it is required like any other
            ([{"processor": "TSourceDef"}, {"processor": "TSinkKw", "parameters": {"path": sink}}, dict(snk)], "none_", ("missingKey", None)),
            ([{"processor": "TSourceDef"}, {"processor": "TSinkKw", "parameters": {"path": sink}}], "dryRun", ("missingKey", None)),
            ([{"processor": "TSourceDef"}, {"processor": "TSinkKw", "parameters": {"path": sink, "tag": "t"}}], "none_", ("none_", None)),
            # the run space in its own file, combined with the run-space options of the command line
            ([{"processor": "TSource"}, dict(snk)], "none_", ("capExceeded", None, {"rs_in_file": True, "cap_via": "cli"})),
            ([{"processor": "TSource"}, dict(snk)], "rsDryRun", ("none_", None, {"rs_in_file": True, "flag_via": "cli"})),
            ([{"processor": "TSource"}, dict(snk)], "rsDryRun", ("capExceeded", None, {"rs_in_file": True, "cap_via": "cli", "flag_via": "cli"})),
            # a node whose factory consumes some of its parameters: the configuration that runs is the one that was checked
            ([{"processor": "TSourceDef"}, {"processor": "ModelFittingContextProcessor", "parameters": {
                "independent_var_key": "xs", "dependent_var_key": "ys", "context_key": "fit_out", "fitting_model": "model:TFitModel:degree=1"}},
              {"processor": "rename:fit_out:final_fit"}, dict(snk)], "none_", ("none_", None)),
            ([{"processor": "TSourceDef"}, {"processor": "ModelFittingContextProcessor", "parameters": {
                "context_key": "fit_out", "fitting_model": "model:TFitModel"}}, {"processor": "rename:fit_out:final_fit"}, dict(snk)], "none_", ("none_", None)),
            ([{"processor": "TSourceDef"}, {"processor": "ModelFittingContextProcessor", "parameters": {
                "independent_var_key": "xs", "dependent_var_key": "ys", "fitting_model": "model:TFitModel"}}, dict(snk)], "none_", ("missingKey", None)),
        ]
    if drv is not None:
        with rt.tempdir() as d0:
            n_directed = len(directed(d0))
        for i in range(n_directed + n_cases):
            with rt.tempdir() as d:
                if i < n_directed:
                    nodes, flag, want = directed(d)[i]
                    stats["directed"] = stats.get("directed", 0) + 1
                else:
                    nodes, flag, want = gen_invocation(rnd, d, i)
                try:
                    pub = classify_and_run(rep, drv, rnd, d, nodes, flag, want, stats, mism)
                except RuntimeError as exc:
                    rep.add_broken(f"correspondence C17: {exc}")
                    break
                stats["invocations"] += 1
                if len(samples) < 3 and i % 37 == 0:
                    samples.append(pub)
    if mism:
        rep.add_broken(f"correspondence C17: exit code / runs started of the real CLI differ from the gate model on {len(mism)} invocations, first "
                       + json.dumps(mism[0], default=str)[:800])
        rep.coverage["first_disagreements"] = mism[:3]
    rep.coverage.update({
        "evaluations": stats["invocations"],
        "distinct_nontrivial": stats["invocations"],
        "rule": "pipelines from the C01 generator (12% misfits, sinks writing to a watched file, a data-dependent failing node in 30%), required keys "
                "split at random between a run space (1..3 runs) and --context; one blocker injected in ~55% (missing key, invalid run space in 3 ways, "
                "cap exceeded via YAML or flag, invalid configuration in 3 ways) and a no-execution flag in ~37%; node entries counted by the reference "
                "recorders, sink file and trace directory inspected after every invocation",
        "samples": samples,
        "traces_validated_against_impl": stats["invocations"],
        "generator_distribution": stats,
        "search": "same generator",
    })
    rep.assumptions += [
        "the invocation's class (valid / which problem) is decided by the reference analysis of property C02 and the real run-space expansion of C08",
        "`semantiva run` is invoked in-process (semantiva.cli.main); exit codes are SystemExit codes",
    ]
    return rep.finish()


def replay(path: str) -> int:
    case = json.loads(open(path).read())
    print(json.dumps(case, indent=1, default=str)[:5000])
    return 0
