"""Shared by C06/C07/C10 (and C09/C13): traced real runs with fault injection, schema validators,
and the lexical extractor of the lifecycle shape of `SemantivaOrchestrator.execute`."""
from __future__ import annotations

import ast
import copy
import json
from pathlib import Path

from vlib import core, rt
from props import pipegen

ORCH = core.REPO / "semantiva" / "execution" / "orchestrator" / "orchestrator.py"
SCHEMA_DIR = core.REPO / "semantiva" / "trace" / "schema"
DETAILS = ["hash", "repr", "context", "all"]
FAULT_KINDS = ["none", "proc", "keyboard-interrupt", "unresolved", "type-gate", "undeclared-write", "construct-unknown-param",
               "construct-probe-no-key"]

# ---------------------------------------------------------------------------------------------
# base pipelines and fault injection
# ---------------------------------------------------------------------------------------------

def base_pipeline(rnd, n):
    """A pipeline of n nodes that runs without error on an empty context (data stays TData after node 0)."""
    nodes = [rnd.choice([{"processor": "TSourceDef"}, {"processor": "TSource", "parameters": {"v": "s"}},
                         {"processor": "TPayloadSource", "parameters": {"v": 1}}])]
    live = []
    for i in range(1, n):
        r = rnd.random()
        if r < 0.35:
            nodes.append(rnd.choice([{"processor": "TOp0"}, {"processor": "TOp1", "parameters": {"a": rnd.choice(["x", 2])}},
                                     {"processor": "TOp1Def"}, {"processor": "TOp2", "parameters": {"a": 1}}]))
        elif r < 0.5:
            nodes.append({"processor": "TOpW", "parameters": {"a": "wa"}})
            live.append("w")
        elif r < 0.75:
            k = rnd.choice(["b", "c", "e"])      # never "a": the injected unresolved fault relies on `a` being absent
            nodes.append({"processor": rnd.choice(["TProbe", "TProbe", "TProbeP"]), "context_key": k})
            if nodes[-1]["processor"] == "TProbeP":
                nodes[-1]["parameters"] = {"a": "pa"}
            live.append(k)
        elif r < 0.9 and live:
            k = rnd.choice(live)
            kind = rnd.choice(["rename", "delete", "template"])
            if kind == "rename":
                d = rnd.choice(["r1", "r2"])
                nodes.append({"processor": f"rename:{k}:{d}"})
                live.remove(k)
                live.append(d)
            elif kind == "delete":
                nodes.append({"processor": f"delete:{k}"})
                live.remove(k)
            else:
                nodes.append({"processor": f'template:"t_{{{k}}}":tout'})
                live.append("tout")
        else:
            nodes.append({"processor": "TSink", "parameters": {"path": "/dev/null"}})
    return nodes


def inject(nodes, kind, k):
    """Insert / mutate so that node k fails in the given way. Returns (nodes', expected failing index or 'construct')."""
    nodes = copy.deepcopy(nodes)
    if kind == "none":
        return nodes, None
    if kind == "construct-unknown-param":
        if nodes[k]["processor"].startswith(("rename:", "delete:", "template:")):
            k = 0           # factory-made context processors take **kwargs: no parameter is unknown to them
        nodes[k].setdefault("parameters", {})["bogus_param"] = 1
        return nodes, "construct"
    if kind == "construct-probe-no-key":
        nodes.insert(max(k, 1), {"processor": "TProbe"})
        return nodes, "construct"
    if k == 0:
        if kind == "unresolved":
            nodes[0] = {"processor": "TSource"}
            return nodes, 0
        k = 1
    ins = {"proc": {"processor": "TFail"}, "keyboard-interrupt": {"processor": "TFailKI"}, "unresolved": {"processor": "TOp1"},
           "type-gate": {"processor": "TMerge"}, "undeclared-write": {"processor": "TOpUndeclared"}}[kind]
    nodes.insert(k, ins)
    return nodes, k


# ---------------------------------------------------------------------------------------------
# traced runs
# ---------------------------------------------------------------------------------------------

def traced_run(nodes, ctx0, detail="hash", to_file=False, reuse_pipeline=None, launch_context=False, transport=None):
    """Run with a JsonlTraceDriver. Returns dict(res=<run_real result>, records, files, driver_closed).
    `launch_context`: the run carries the metadata of a run of a run-space launch (what `semantiva run` sets before each run)."""
    pipegen.setup()
    from semantiva.trace.drivers.jsonl import JsonlTraceDriver
    with rt.tempdir() as d:
        target = d / "trace.jsonl" if to_file else d / "out"
        if not to_file:
            target.mkdir()
        driver = JsonlTraceDriver(str(target), detail=detail)
        meta = None
        if launch_context:
            from semantiva.cli import TraceContext
            tc = TraceContext()
            tc.set_run_space_fk(spec_id="0" * 64, launch_id="launch-for-c06", attempt=1, inputs_id=None)
            meta = {"trace_context": tc, "run_space_index": 0, "run_space_context": dict(ctx0)}
        res = pipegen.run_real(nodes, ctx0, trace=driver, run_metadata=meta, transport=transport)
        files = rt.read_trace_files(target) if (target.exists()) else {}
        closed = getattr(driver, "_file", None) is None
        raw_ok = True
        # every line must be a complete JSON object (flushed, not truncated)
        for fn in ([target] if to_file and target.exists() else sorted(target.glob("*.jsonl")) if target.exists() else []):
            for line in Path(fn).read_text().split("\n"):
                if not line:
                    continue
                try:
                    json.loads(line)
                except Exception:
                    raw_ok = False
    records = [r for f in sorted(files) for r in files[f]]
    return {"res": res, "records": records, "files": files, "driver_closed": closed, "lines_complete": raw_ok}


_VALIDATORS = None


def validators():
    global _VALIDATORS
    if _VALIDATORS is None:
        import jsonschema
        from referencing import Registry, Resource
        reg = Registry()
        for p in SCHEMA_DIR.glob("*.schema.json"):
            contents = json.loads(p.read_text())
            if isinstance(contents.get("$id"), str):
                reg = reg.with_resource(contents["$id"], Resource.from_contents(contents))
        registry = json.loads((SCHEMA_DIR / "trace_registry_v1.json").read_text())
        by_type = {}
        for rtype, url in registry["records"].items():
            contents = json.loads((SCHEMA_DIR / url.rsplit("/", 1)[-1]).read_text())
            by_type[rtype] = jsonschema.validators.Draft202012Validator(contents, registry=reg,
                                                                        format_checker=jsonschema.FormatChecker())
        header = jsonschema.validators.Draft202012Validator(json.loads((SCHEMA_DIR / "trace_header_v1.schema.json").read_text()),
                                                            registry=reg)
        _VALIDATORS = (header, by_type)
    return _VALIDATORS


def schema_errors(record) -> list[str]:
    header, by_type = validators()
    out = []
    rtype = record.get("record_type")
    v = by_type.get(rtype)
    if v is None:
        return [f"record_type {rtype!r} is not in the registry"]
    for e in list(v.iter_errors(record))[:2]:
        out.append(f"{rtype}: {e.message[:160]} at {list(e.absolute_path)}")
    return out


# ---------------------------------------------------------------------------------------------
# T4: lexical shape of execute()
# ---------------------------------------------------------------------------------------------

PUBLISH_OUTSIDE = False


def _calls(node, name):
    return [n for n in ast.walk(node) if isinstance(n, ast.Call) and
            (getattr(n.func, "attr", None) == name or getattr(n.func, "id", None) == name)]


def _handler_type_names(h):
    t = h.type
    if t is None:
        return ["BaseException"]
    if isinstance(t, ast.Tuple):
        return [getattr(e, "id", getattr(e, "attr", "?")) for e in t.elts]
    return [getattr(t, "id", getattr(t, "attr", "?"))]


def _reraises(h):
    last = h.body[-1] if h.body else None
    if isinstance(last, ast.Raise):
        return last.exc is None or (isinstance(last.exc, ast.Name) and last.exc.id == h.name)
    return False


def _unconditional_close(finalbody):
    """Is there a `.close()` call in the finally block that every run reaches?  Allowed around it: nothing, or a guard on the
    closed object itself (`if drv is not None:` / `if drv:`).  Any other condition makes closing depend on the kind of run."""
    def is_close(stmt):
        return isinstance(stmt, ast.Expr) and isinstance(stmt.value, ast.Call) and getattr(stmt.value.func, "attr", None) == "close"

    def receiver(stmt):
        v = stmt.value.func.value
        return getattr(v, "id", getattr(v, "attr", None))
    for stmt in finalbody:
        if is_close(stmt):
            return True
        if isinstance(stmt, ast.If) and not stmt.orelse:
            t = stmt.test
            guarded = None
            if isinstance(t, ast.Compare) and len(t.ops) == 1 and isinstance(t.ops[0], ast.IsNot) and \
                    isinstance(t.comparators[0], ast.Constant) and t.comparators[0].value is None:
                guarded = getattr(t.left, "id", getattr(t.left, "attr", None))
            elif isinstance(t, (ast.Name, ast.Attribute)):
                guarded = getattr(t, "id", getattr(t, "attr", None))
            if guarded is not None and any(is_close(x) and receiver(x) == guarded for x in stmt.body):
                return True
    return False


def extract_lifecycle_shape(src: str):
    tree = ast.parse(src)
    fn = None
    for c in [n for n in ast.walk(tree) if isinstance(n, ast.ClassDef)]:
        for f in c.body:
            if isinstance(f, ast.FunctionDef) and f.name == "execute":
                fn = f
    notes = []
    shape = dict(startBeforeConstruct=False, constructProtected=False, nodeCatchesBase=False, pipeCatchesBase=False,
                 serOnSuccess=False, serOnError=False, nodeReraises=False, pipeReraises=False, endOkAfterLoop=False,
                 endErrInHandler=False, closeInFinally=False)
    if fn is None:
        return shape, ["execute() not found"]
    parents = {}
    for n in ast.walk(fn):
        for ch in ast.iter_child_nodes(n):
            parents[ch] = n

    def enclosing_trys(node):
        """[(Try, part)] from innermost to outermost; part in body/handler/final/else."""
        out = []
        cur = node
        while cur in parents:
            par = parents[cur]
            if isinstance(par, ast.Try):
                if cur in par.body:
                    out.append((par, "body"))
                elif cur in par.finalbody:
                    out.append((par, "final"))
                elif cur in par.orelse:
                    out.append((par, "else"))
            if isinstance(par, ast.ExceptHandler):
                out.append((parents[par], "handler"))
            cur = par
        return out

    starts = _calls(fn, "on_pipeline_start")
    constructs = _calls(fn, "_instantiate_nodes")
    submits = _calls(fn, "_submit_and_wait")
    if not (starts and constructs and submits):
        return shape, ["on_pipeline_start / _instantiate_nodes / _submit_and_wait call not found in execute()"]
    shape["startBeforeConstruct"] = starts[0].lineno < constructs[0].lineno
    # the pipeline-level try: a Try with a handler calling on_pipeline_end and a finally calling close
    pipe_try = None
    for t in [n for n in ast.walk(fn) if isinstance(n, ast.Try)]:
        if any(_calls(h, "on_pipeline_end") for h in t.handlers) and any(_calls(s, "close") for s in t.finalbody):
            pipe_try = t
    if pipe_try is None:
        notes.append("no try with a pipeline_end-emitting handler and a closing finally")
    else:
        shape["closeInFinally"] = _unconditional_close(pipe_try.finalbody)
        if not shape["closeInFinally"]:
            notes.append("the finally block closes the driver only under a condition other than the driver's own presence")
        shape["constructProtected"] = any(t is pipe_try and part == "body" for t, part in enclosing_trys(constructs[0]))
        hs = [h for h in pipe_try.handlers if _calls(h, "on_pipeline_end")]
        shape["endErrInHandler"] = bool(hs)
        shape["pipeCatchesBase"] = any("BaseException" in _handler_type_names(h) for h in hs)
        shape["pipeReraises"] = all(_reraises(h) for h in hs)
        # pipeline_end(ok) in the try body, after the loop, not inside a handler
        ok_calls = [c for c in _calls(pipe_try, "on_pipeline_end")
                    if not any(part == "handler" for _, part in enclosing_trys(c)[:1])
                    and any(t is pipe_try and part == "body" for t, part in enclosing_trys(c))]
        loops = [n for n in pipe_try.body if isinstance(n, ast.For)]
        shape["endOkAfterLoop"] = bool(ok_calls) and bool(loops) and all(c.lineno > loops[-1].end_lineno for c in ok_calls)
    node_trys = [t for t, part in enclosing_trys(submits[0]) if part == "body" and t is not pipe_try]
    if not node_trys:
        notes.append("the node call is not inside a per-node try")
    else:
        nt = node_trys[0]
        body_events = [c for stmt in nt.body for c in _calls(stmt, "on_node_event")]
        shape["serOnSuccess"] = bool(body_events)
        hs = [h for h in nt.handlers if _calls(h, "on_node_event")]
        shape["serOnError"] = bool(hs)
        shape["nodeCatchesBase"] = any("BaseException" in _handler_type_names(h) for h in hs)
        shape["nodeReraises"] = bool(nt.handlers) and all(_reraises(h) for h in nt.handlers)
    return shape, notes


def extract_publish_outside(src: str) -> bool:
    """Is every `_publish` call of execute() placed inside the pipeline-level try and outside the per-node try?  (A failure of the
    transport then goes straight to the pipeline-level handler; inside the per-node try it would be reported against a node
    that already has its SER.)  Conservative: no call found, or a structure not recognised, gives False."""
    tree = ast.parse(src)
    fn = None
    for c in [n for n in ast.walk(tree) if isinstance(n, ast.ClassDef)]:
        for f in c.body:
            if isinstance(f, ast.FunctionDef) and f.name == "execute":
                fn = f
    if fn is None:
        return False
    parents = {}
    for n in ast.walk(fn):
        for ch in ast.iter_child_nodes(n):
            parents[ch] = n
    pubs = _calls(fn, "_publish")
    submits = _calls(fn, "_submit_and_wait")
    if not pubs or not submits:
        return False

    def trys_of(node):
        out, cur = [], node
        while cur in parents:
            par = parents[cur]
            if isinstance(par, ast.Try):
                out.append((par, "body" if cur in par.body else "final" if cur in par.finalbody else "else" if cur in par.orelse else "?"))
            if isinstance(par, ast.ExceptHandler):
                out.append((parents[par], "handler"))
            cur = par
        return out
    node_trys = [t for t, part in trys_of(submits[0]) if part == "body"]
    if len(node_trys) < 2:
        return False
    node_try, pipe_try = node_trys[0], node_trys[-1]
    for pcall in pubs:
        chain = trys_of(pcall)
        if any(t is node_try for t, _ in chain):
            return False
        if not any(t is pipe_try and part == "body" for t, part in chain):
            return False
    return True


def translate_shape():
    shape, notes = extract_lifecycle_shape(ORCH.read_text())
    global PUBLISH_OUTSIDE
    PUBLISH_OUTSIDE = extract_publish_outside(ORCH.read_text())
    b = core.lean_bool
    body = "import SemantivaModel.Model.Trace\nnamespace SemantivaModel.Generated.C06\nopen SemantivaModel.Trace\n\n"
    body += "/-- " + ("; ".join(notes) or "lexical structure of SemantivaOrchestrator.execute").replace("-/", "- /") + " -/\n"
    body += "def shape : LifecycleShape :=\n  { " + ",\n    ".join(f"{k} := {b(v)}" for k, v in shape.items()) + " }\n\n"
    body += "/-- is the `_publish` call placed after the per-node try (inside the pipeline-level one)? -/\n"
    body += f"def publishOutside : Bool := {b(PUBLISH_OUTSIDE)}\n\nend SemantivaModel.Generated.C06\n"
    core.write_generated("C06", body, ["semantiva/execution/orchestrator/orchestrator.py (try/except/finally structure of execute)"])
    return shape, notes
