"""C06 — every run leaves a well-formed, schema-valid trace, whatever node fails.

translate  : the try/except/finally structure of SemantivaOrchestrator.execute (where the start is
             emitted, whether node construction is protected, what each handler catches and whether
             it re-raises, what the finally does)                       -> Generated/C06.lean
prove      : Properties/C06.lean `trace_wellformed` (good shape ⇒ for every fault plan the emitted
             stream is exactly the documented one) + Tie/C06.lean (`shape.good = true`)
correspond : real traced runs with a fault injected at every node index x every failure kind
             (processor exception, KeyboardInterrupt, unresolvable parameter, type gate, undeclared
             write, construction errors) x detail levels x file/directory output; the record-type /
             status sequence is compared with the Lean model driven by the same fault plan
oracle     : (real code only) start, one SER per started node in canonical order, exactly one end,
             ids shared, upstream = canonical edges, statuses, end.ok iff returned, every line valid
             against the schema its record_type maps to, exception unchanged, file closed.
"""
from __future__ import annotations

import json

from vlib import core, rt
from props import pipegen, tracegen

PROP = "C06"


def expected_events(n_nodes, fail_at):
    if fail_at == "construct":
        return ["start", "end:error"]
    if fail_at is None:
        return ["start"] + [f"ser:{i}:succeeded" for i in range(n_nodes)] + ["end:ok"]
    return ["start"] + [f"ser:{i}:succeeded" for i in range(fail_at)] + [f"ser:{fail_at}:error", "end:error"]


def observed_events(records, uuids):
    out = []
    for r in records:
        t = r.get("record_type")
        if t == "pipeline_start":
            out.append("start")
        elif t == "pipeline_end":
            out.append("end:" + str((r.get("summary") or {}).get("status")))
        elif t == "ser":
            nid = (r.get("identity") or {}).get("node_id")
            idx = uuids.index(nid) if nid in uuids else "?"
            out.append(f"ser:{idx}:{r.get('status')}")
        else:
            out.append(str(t))
    return out


def check_trace(rep, case, run, nodes, fail_at, kind, stats):
    """Real-code oracle for one traced run."""
    recs = run["records"]
    res = run["res"]
    pub = dict(case, nodes=nodes)
    sig_tail = f"{kind}"
    starts = [r for r in recs if r.get("record_type") == "pipeline_start"]
    uuids = []
    if starts:
        uuids = [n["node_uuid"] for n in (starts[0].get("pipeline_spec_canonical") or {}).get("nodes", [])]
    got = observed_events(recs, uuids)
    want = expected_events(len(nodes), fail_at)
    if got != want:
        what = "missing-pipeline-end" if not any(g.startswith("end") for g in got) and got[:1] == ["start"] else \
               "missing-failing-ser" if [g for g in got if g.startswith("ser")] != [w for w in want if w.startswith("ser")] else "sequence"
        rep.add_violation(f"trace-not-wellformed:{what}:{sig_tail}",
                          f"trace of a run failing with {kind} at {fail_at}: record sequence {got}, documented {want}",
                          dict(pub, observed=got, documented=want))
        return got
    if not run["driver_closed"]:
        rep.add_violation(f"trace-file-left-open:{sig_tail}", "the trace driver still holds an open file after the call returned/raised", pub)
    if not run["lines_complete"]:
        rep.add_violation(f"trace-line-truncated:{sig_tail}", "a trace line is not a complete JSON object after the call returned", pub)
    run_ids = {r.get("run_id") or (r.get("identity") or {}).get("run_id") for r in recs}
    pids = {r.get("pipeline_id") or (r.get("identity") or {}).get("pipeline_id") for r in recs if r.get("record_type") != "pipeline_end"}
    if len(run_ids) != 1 or None in run_ids:
        rep.add_violation("trace-run-id-not-shared", f"records of one run carry run ids {run_ids}", pub)
    if len(pids) != 1 or None in pids:
        rep.add_violation("trace-pipeline-id-not-shared", f"records of one run carry pipeline ids {pids}", pub)
    edges = (starts[0].get("pipeline_spec_canonical") or {}).get("edges", [])
    for r in recs:
        for msg in tracegen.schema_errors(r):
            rep.add_violation(f"schema-invalid:{r.get('record_type')}", "a trace line does not validate against its schema: " + msg,
                              dict(pub, record=r))
            break
        stats["lines_validated"] += 1
        if r.get("record_type") == "ser":
            nid = r["identity"]["node_id"]
            want_up = sorted(e["source"] for e in edges if e["target"] == nid)
            got_up = sorted((r.get("dependencies") or {}).get("upstream", []))
            if got_up != want_up:
                rep.add_violation("upstream-not-canonical-edges", f"SER upstream {got_up} differs from the canonical edges {want_up}", dict(pub, record=r))
    # the exception that reaches the caller
    if fail_at is not None:
        want_cls = {"proc": "proc", "keyboard-interrupt": "proc:KeyboardInterrupt", "unresolved": "unresolved", "type-gate": "typeGate",
                    "undeclared-write": "undeclaredWrite", "construct-unknown-param": "unknownParam", "construct-probe-no-key": "config"}.get(kind)
        if want_cls is None:
            want_cls = case.get("untraced_class")
        if res["cls"] is None or res["cls"][1] != want_cls:
            rep.add_violation(f"exception-changed:{sig_tail}", f"the injected {kind} failure reaches the caller as {res['cls']} ({res['exc']!r})", pub)
    elif res["outcome"] != "ok":
        rep.add_violation("traced-run-fails", f"a run without injected fault fails: {res['exc']!r}", pub)
    return got


def exotic_runs(rep, rnd, stats, tier):
    """Unusual but legal values (non-finite floats, lone surrogates, bytes, control characters ...) in node parameters, context
    values and error messages: the trace of such a run must be as well-formed as any other, and the caller must see what the
    untraced run gives."""
    from props.c10 import EXOTIC_VALUES
    for kind, val in EXOTIC_VALUES.items():
        for where in ("node-config", "context", "error-message"):
            if where == "node-config":
                nodes, ctx = [{"processor": "TSource", "parameters": {"v": val}}, {"processor": "TOp0"}], {}
            elif where == "context":
                nodes, ctx = [{"processor": "TSourceDef"}, {"processor": "TOp1"}, {"processor": "TOp0"}], {"a": val}
            else:
                if not isinstance(val, str):
                    continue
                nodes, ctx = [{"processor": "TSourceDef"}, {"processor": "TFailMsg", "parameters": {"msg": val}}, {"processor": "TOp0"}], {}
            plain = pipegen.run_real(nodes, ctx)
            fail_at = None if plain["outcome"] == "ok" else ("construct" if plain["outcome"] == "constructError" else plain["started"] - 1)
            if plain["pipeline"] is None:
                continue        # rejected by Pipeline(...) itself (the value cannot be part of a canonical spec): no run, no trace
            for detail, to_file in ((rnd.choice(tracegen.DETAILS), True), (rnd.choice(tracegen.DETAILS), False)):
                run = tracegen.traced_run(nodes, ctx, detail=detail, to_file=to_file)
                stats["runs"] += 1
                stats["by_kind"]["exotic-value"] = stats["by_kind"].get("exotic-value", 0) + 1
                case = {"fault": f"exotic-value:{kind}:{where}", "position": fail_at, "detail": detail, "output": "file" if to_file else "directory",
                        "untraced_class": plain["cls"][1] if plain["cls"] else None, "value": repr(val)[:60]}
                check_trace(rep, case, run, nodes, fail_at, f"exotic-value:{kind}:{where}", stats)


def unusual_failures(rep, rnd, stats):
    """Nodes failing with unusual exceptions (no message, non-JSON argument, keyword-only constructor): the failing SER, the
    error pipeline_end and the unchanged exception are owed all the same."""
    from props.c10 import FAILING_NODES
    for proc in FAILING_NODES:
        if proc == "TFailKI":
            continue                      # covered by the keyboard-interrupt fault kind
        for pos in (1, 2):
            nodes = [{"processor": "TSourceDef"}, {"processor": "TOp0"}, {"processor": "TOp0"}]
            nodes.insert(pos, {"processor": proc})
            plain = pipegen.run_real(nodes, {})
            detail, to_file = rnd.choice(tracegen.DETAILS), rnd.random() < 0.5
            run = tracegen.traced_run(nodes, {}, detail=detail, to_file=to_file)
            stats["runs"] += 1
            stats["by_kind"]["unusual-failure"] = stats["by_kind"].get("unusual-failure", 0) + 1
            case = {"fault": f"unusual-failure:{proc}", "position": pos, "detail": detail, "output": "file" if to_file else "directory",
                    "untraced_class": plain["cls"][1] if plain["cls"] else None}
            check_trace(rep, case, run, nodes, pos, f"unusual-failure:{proc}", stats)
            if run["res"]["exc"] is not None and plain["exc"] is not None and type(run["res"]["exc"]) is not type(plain["exc"]):
                rep.add_violation(f"exception-changed:unusual-failure:{proc}",
                                  f"the traced run raises {type(run['res']['exc']).__name__}, the untraced run {type(plain['exc']).__name__}",
                                  dict(case, nodes=nodes, traced=repr(run["res"]["exc"]), untraced=repr(plain["exc"])))


def transport_failures(rep, rnd, stats, shape=None):
    """The run fails *between* nodes: publishing node k's output raises (a remote transport that drops the connection).  Every
    node that started has exactly one SER — it succeeded — and the run ends with one error pipeline_end and the original exception."""
    pipegen.setup()
    from semantiva.execution.transport.in_memory import InMemorySemantivaTransport

    class Dropping(InMemorySemantivaTransport):
        def __init__(self, fail_on):
            super().__init__()
            self.fail_on, self.count = fail_on, 0

        def publish(self, *a, **k):
            self.count += 1
            if self.count - 1 == self.fail_on:
                raise ConnectionError("transport dropped the connection")
            return super().publish(*a, **k)

    nodes = [{"processor": "TSourceDef"}, {"processor": "TOp0"}, {"processor": "TProbe", "context_key": "p"}, {"processor": "TOp0"}]
    for k in range(len(nodes)):
        for detail, to_file in ((rnd.choice(tracegen.DETAILS), False), (rnd.choice(tracegen.DETAILS), True)):
            run = tracegen.traced_run(nodes, {}, detail=detail, to_file=to_file, transport=Dropping(k))
            stats["runs"] += 1
            stats["by_kind"]["transport-publish-fails"] = stats["by_kind"].get("transport-publish-fails", 0) + 1
            uuids = [r for r in run["records"] if r.get("record_type") == "pipeline_start"]
            ids = [n["node_uuid"] for n in (uuids[0].get("canonical_spec") or uuids[0].get("pipeline_spec_canonical") or {}).get("nodes", [])] if uuids else []
            got = observed_events(run["records"], ids) if ids else [str(r.get("record_type")) for r in run["records"]]
            want = ["start"] + [f"ser:{i}:succeeded" for i in range(k + 1)] + ["end:error"]
            case = {"fault": "transport-publish-fails", "after_node": k, "detail": detail, "output": "file" if to_file else "directory", "nodes": nodes}
            # the same failure in the Lean model, with the shape and the placement of the publish call read off the code
            if shape is not None:
                try:
                    a = core.Driver().run([{"m": "c06.publishFault", "id": 0, "shape": shape, "publishOutside": tracegen.PUBLISH_OUTSIDE, "k": k, "cls": "exception"}])[0]
                    if "ok" in a and ids and a["ok"]["events"] != got:
                        rep.add_broken(f"correspondence C06: publishing node {k}'s output raises — model {a['ok']['events']}, real {got}")
                except Exception as exc:  # noqa: BLE001
                    rep.add_broken(f"correspondence C06: model driver unavailable ({exc!r})")
            if ids and got != want:
                rep.add_violation("trace-not-wellformed:transport-publish-fails",
                                  f"publishing the output of node {k} raises: record sequence {got}, documented {want}", dict(case, observed=got, documented=want))
            if not isinstance(run["res"]["exc"], ConnectionError):
                rep.add_violation("exception-changed:transport-publish-fails", f"the caller receives {run['res']['exc']!r} instead of the transport's exception", case)
            if not run["driver_closed"] or not run["lines_complete"]:
                rep.add_violation("trace-not-flushed-or-closed:transport-publish-fails", "the trace file is not flushed and closed when the call returns", case)


def run(tier: str) -> int:
    rep = core.Report(PROP, tier)
    rnd = core.rng(PROP)
    pipegen.setup()
    try:
        shape, notes = tracegen.translate_shape()
    except Exception as exc:
        rep.add_broken(f"translator C06 could not analyse execute(): {exc!r}")
        shape, notes = None, []
    rep.coverage["shape"] = shape
    rep.coverage["shape_notes"] = notes
    core.prove(rep, PROP, thorough=(tier == "thorough"))

    n_bases = 6 if tier == "quick" else 30
    stats = {"runs": 0, "by_kind": {}, "by_detail": {}, "file_mode": 0, "dir_mode": 0, "lines_validated": 0, "fail_positions": {}}
    reqs, expect_model = [], []
    samples = []
    for b in range(n_bases):
        n = rnd.randrange(2, 6 if tier == "quick" else 8)
        base = tracegen.base_pipeline(rnd, n)
        for kind in tracegen.FAULT_KINDS:
            positions = [None] if kind == "none" else list(range(len(base)))
            if tier == "quick" and len(positions) > 3:
                positions = sorted(rnd.sample(positions, 3))
            for k in positions:
                nodes, fail_at = tracegen.inject(base, kind, k if k is not None else 0)
                detail = rnd.choice(tracegen.DETAILS)
                to_file = rnd.random() < 0.4
                in_launch = rnd.random() < 0.3         # the run of a run-space launch: same lifecycle, same flush and close
                run = tracegen.traced_run(nodes, {}, detail=detail, to_file=to_file, launch_context=in_launch)
                stats["in_launch_context"] = stats.get("in_launch_context", 0) + (1 if in_launch else 0)
                stats["runs"] += 1
                stats["by_kind"][kind] = stats["by_kind"].get(kind, 0) + 1
                stats["by_detail"][detail] = stats["by_detail"].get(detail, 0) + 1
                stats["file_mode" if to_file else "dir_mode"] += 1
                stats["fail_positions"][str(fail_at)] = stats["fail_positions"].get(str(fail_at), 0) + 1
                case = {"fault": kind, "position": fail_at, "detail": detail, "output": "file" if to_file else "directory", "launch_context": in_launch}
                got = check_trace(rep, case, run, nodes, fail_at, kind, stats)
                # the same fault plan for the Lean model
                cls = "base" if kind == "keyboard-interrupt" else "exception"
                plan = {"construct": (cls if fail_at == "construct" else None),
                        "nodes": [(cls if (fail_at not in (None, "construct") and i == fail_at) else None) for i in range(len(nodes))]}
                reqs.append({"m": "c06.run", "id": len(reqs), "shape": shape, "plan": plan})
                expect_model.append((case, nodes, got))
                if len(samples) < 5 and stats["runs"] % 23 == 1:
                    samples.append(dict(case, nodes=[x["processor"] for x in nodes], events=got))
    exotic_runs(rep, rnd, stats, tier)
    unusual_failures(rep, rnd, stats)
    transport_failures(rep, rnd, stats, shape)
    rep.coverage["publish_outside"] = tracegen.PUBLISH_OUTSIDE
    if shape is not None:
        try:
            ans = core.Driver().run(reqs)
            dis = []
            for (case, nodes, got), a in zip(expect_model, ans):
                if "err" in a:
                    raise RuntimeError(a["err"])
                if a["ok"]["events"] != got:
                    dis.append({"case": case, "model": a["ok"]["events"], "real": got})
            if dis:
                rep.add_broken(f"correspondence C06: the lifecycle model with the extracted shape and the real runs differ on {len(dis)} fault plans, first {json.dumps(dis[0])[:500]}")
        except Exception as exc:
            rep.add_broken(f"correspondence C06: model driver unavailable ({exc!r})")
    rep.coverage.update({
        "evaluations": stats["runs"],
        "distinct_nontrivial": stats["runs"] - stats["by_kind"].get("none", 0),
        "rule": "base pipelines of 2..5 (thorough 2..7) nodes that run cleanly; for every failure kind a fault is injected at every node index "
                "(quick: 3 sampled indices) with a random detail level and file/directory output; non-trivial = a run with an injected fault",
        "samples": samples,
        "traces_validated_against_impl": stats["runs"],
        "generator_distribution": stats,
        "search": "fault injection at every index x kind; the Lean model is driven by the same fault plan with the extracted shape",
    })
    rep.assumptions += [
        "schema validity is checked on the emitted lines with jsonschema (support, not proved)",
        "a fault plan abstracts a failure to (where, Exception-class or BaseException-class)",
        "the lexical shape extractor looks at SemantivaOrchestrator.execute only; subclasses overriding execute are outside",
    ]
    return rep.finish()


def replay(path: str) -> int:
    case = json.loads(open(path).read())
    print(json.dumps(case, indent=1, default=str)[:3000])
    c = case.get("case", {})
    if "nodes" in c:
        run = tracegen.traced_run(c["nodes"], {}, detail=c.get("detail", "hash"), to_file=c.get("output") == "file")
        starts = [r for r in run["records"] if r.get("record_type") == "pipeline_start"]
        uuids = [n["node_uuid"] for n in (starts[0].get("pipeline_spec_canonical") or {}).get("nodes", [])] if starts else []
        print("now:", observed_events(run["records"], uuids), "closed:", run["driver_closed"])
    return 0
