"""C01 — pipeline execution matches the documented dual-channel node semantics.

translate  : the precedence table of the real `resolve_runtime_value`, read off on the 8
             combinations (in config, in context, has default)        -> Generated/C01.lean
prove      : Properties/C01.lean (failure exactly at the failing node, precedence, probes pass data
             through, context processors touch only declared keys, slicers are ordered maps, …)
             + Tie/C01.lean (`precedenceOK Generated.resolveTable`)
correspond : real `Pipeline(nodes).process(Payload(NoDataType, ctx))` vs the Lean model on generated
             pipelines over the harness' term library (free algebra): (data, context) or
             (failing node, error class)
oracle     : the model is the documented semantics; a difference that survives on a tree where the
             model was validated is the replay.
"""
from __future__ import annotations

import itertools
import json

from vlib import core, rt
from props import pipegen

PROP = "C01"
# the documented precedence: node configuration > context > processor default > error
DOC_TABLE = [[a, c, d, ("config" if a else "context" if c else "default" if d else "none")]
             for a in (True, False) for c in (True, False) for d in (True, False)]


def extract_resolve_table():
    pipegen.setup()
    import importlib
    import semantiva.pipeline._param_resolution as pr
    importlib.reload(pr)
    from semantiva.context_processors import ContextType
    from props import components as C
    table = []
    for in_cfg, in_ctx, has_def in itertools.product([True, False], repeat=3):
        cls = C.TOp1Def if has_def else C.TOp1
        cfg = {"a": "CFG"} if in_cfg else {}
        ctx = ContextType({"a": "CTX"} if in_ctx else {})
        try:
            v = pr.resolve_runtime_value(name="a", processor_cls=cls, processor_config=cfg, context=ctx)
            ch = {"CFG": "config", "CTX": "context", "d1": "default"}.get(v, "other")
        except KeyError:
            ch = "none"
        table.append([in_cfg, in_ctx, has_def, ch])
    return table


def translate():
    table = extract_resolve_table()
    b = core.lean_bool
    chan = {"config": ".config", "context": ".context", "default": ".default", "none": ".none_", "other": ".none_"}
    body = "import SemantivaModel.Model.Exec\nnamespace SemantivaModel.Generated.C01\nopen SemantivaModel.Exec\n\n"
    body += "/-- (in node config, in context, has default) ↦ channel, as `resolve_runtime_value` behaves now. -/\n"
    body += "def resolveTable : ResolveTable :=\n  " + core.lean_list(f"(({b(a)}, {b(c)}, {b(d)}), {chan[ch]})" for a, c, d, ch in table) + "\n\nend SemantivaModel.Generated.C01\n"
    core.write_generated("C01", body, ["semantiva/pipeline/_param_resolution.py (resolve_runtime_value on the 8 placement combinations)"])
    return [[a, c, d, ("none" if ch == "other" else ch)] for a, c, d, ch in table]


def compare(real: dict, model: dict):
    """None when they agree, else (category, explanation)."""
    if real["outcome"] == "ok":
        if model["outcome"] != "ok":
            return "ok-instead-of-error", f"the run returns although the documented semantics fail at node {model['node']} ({model['fine']})"
        if real["data"] != model["data"]:
            return "data", "returned data differs from the documented result"
        if real["ctx"] != model["ctx"]:
            return "context", "returned context differs from the documented result"
        return None
    coarse = real["cls"][0]
    if model["outcome"] == "ok":
        return "error-instead-of-ok", f"the run raises {real['cls'][1]} although the documented semantics succeed"
    if real["outcome"] == "constructError":
        if model["outcome"] != "constructError":
            return "error-before-any-node", f"raised {real['cls'][1]} before any node ran; documented: node {model['node']} fails with {model['fine']}"
        if coarse != model["coarse"]:
            return "error-class", f"construction fails with class {coarse}, documented {model['coarse']}"
        return None
    # run error: `started` nodes started, the last one failed
    if model["outcome"] == "constructError":
        return "construct-error-missed", f"documented: rejected while constructing node {model['node']} ({model['fine']}); real: nodes ran and node {real['started'] - 1} raised"
    if real["started"] - 1 != model["node"]:
        return "failing-node", f"node {real['started'] - 1} raised, documented failure is at node {model['node']} ({model['fine']})"
    if coarse != model["coarse"]:
        return "error-class", f"node {model['node']} raises class {coarse} ({real['cls'][1]}), documented {model['coarse']} ({model['fine']})"
    return None


def run(tier: str) -> int:
    rep = core.Report(PROP, tier)
    rnd = core.rng(PROP)
    pipegen.setup()
    try:
        table = translate()
    except Exception as exc:
        rep.add_broken(f"translator C01 failed on resolve_runtime_value: {exc!r}")
        table = None
    rep.coverage["resolve_table"] = table
    core.prove(rep, PROP, thorough=(tier == "thorough"))

    n_cases = 1500 if tier == "quick" else 15000
    max_len = 6 if tier == "quick" else 8
    cases = []
    stats = {"cases": 0, "lengths": {}, "kinds": {}, "placements": {}, "real_outcomes": {}, "error_kinds": {}, "with_misfit": 0}
    # the oracle runs the model with the DOCUMENTED precedence; the extracted table only feeds the Tie theorem
    reqs = [{"m": "c01.setup", "id": "setup", "resolveTable": DOC_TABLE}]
    if table is not None and sorted(map(json.dumps, table)) != sorted(map(json.dumps, DOC_TABLE)):
        rep.notes.append(f"extracted precedence table differs from the documented one: {table}")
    for i in range(n_cases):
        nodes, ctx0, meta = pipegen.gen_pipeline(rnd, max_len=max_len)
        cases.append((nodes, ctx0, meta))
        reqs.append({"m": "c01.run", "id": i, "nodes": [pipegen.model_node(n) for n in nodes],
                     "ctx": [[k, pipegen.enc(v)] for k, v in ctx0.items()]})
        stats["lengths"][len(nodes)] = stats["lengths"].get(len(nodes), 0) + 1
        for k in meta["kinds"]:
            stats["kinds"][k] = stats["kinds"].get(k, 0) + 1
        for p in meta["placements"]:
            stats["placements"][p] = stats["placements"].get(p, 0) + 1
        stats["with_misfit"] += 1 if meta["misfits"] else 0
    # directed: shorthand keys that differ only in characters an identifier cannot hold (generated class names are built from
    # sanitised keys, so `x.y` / `x_y` and `a:b_to_c` / `a_to_b:c` meet in one name) — each shorthand must act on its own keys,
    # in either order, in one pipeline and across pipelines of one process
    directed = []
    for k1, k2 in [("run.id", "run_id"), ("m.x", "m_x"), ("x.y.z", "x_y.z"), ("x.y_z", "x_y.z")]:
        c0 = {k1: "s1", k2: "s2", "a": 7}
        for x, y in [(k1, k2), (k2, k1)]:
            directed.append(([{"processor": f"delete:{x}"}, {"processor": f"delete:{y}"}], c0))
            directed.append(([{"processor": f"delete:{x}"}], c0))
            directed.append(([{"processor": f"rename:{x}:out1"}, {"processor": f"rename:{y}:out2"}], c0))
            directed.append(([{"processor": f"rename:a:{x}"}], {"a": 7}))
            directed.append(([{"processor": f"rename:a:{y}"}], {"a": 7}))
    c0 = {"a": "s1", "a_to_b": "s2"}
    directed.append(([{"processor": "rename:a:b_to_c"}, {"processor": "rename:a_to_b:c"}], c0))
    directed.append(([{"processor": "rename:a_to_b:c"}, {"processor": "rename:a:b_to_c"}], c0))
    directed.append(([{"processor": "rename:a_to_b:c"}], c0))
    directed.append(([{"processor": "rename:a:b_to_c"}], c0))
    for nodes, ctx0 in directed:
        cases.append((nodes, ctx0, {"kinds": ["directed"], "placements": [], "misfits": 0}))
        reqs.append({"m": "c01.run", "id": len(cases) - 1, "nodes": [pipegen.model_node(n) for n in nodes],
                     "ctx": [[k, pipegen.enc(v)] for k, v in ctx0.items()]})
    stats["directed_sanitised_name_twins"] = len(directed)
    model = None
    try:
        ans = core.Driver().run(reqs)
        if "err" in ans[0]:
            raise RuntimeError(ans[0]["err"])
        model = ans[1:]
    except Exception as exc:
        rep.add_broken(f"correspondence C01: model driver unavailable ({exc!r})")
    samples = []
    distinct = set()
    for i, (nodes, ctx0, meta) in enumerate(cases):
        stats["cases"] += 1
        real = pipegen.run_real(nodes, ctx0)
        key = real["outcome"] + (":" + real["cls"][1] if real["cls"] else "")
        stats["real_outcomes"][key] = stats["real_outcomes"].get(key, 0) + 1
        distinct.add(json.dumps([nodes, ctx0], sort_keys=True, default=str))
        if model is None:
            continue
        a = model[i]
        if "err" in a:
            rep.add_broken(f"correspondence C01: driver error {a['err']}")
            model = None
            continue
        mv = pipegen.model_outcome_view(a["ok"])
        if mv["outcome"] != "ok":
            stats["error_kinds"][mv["fine"]] = stats["error_kinds"].get(mv["fine"], 0) + 1
        diff = compare(real, mv)
        if diff:
            cat, why = diff
            where = ""
            if mv["outcome"] != "ok" or real["outcome"] != "ok":
                idx = mv.get("node", max(real["started"] - 1, 0))
                idx = min(idx, len(nodes) - 1)
                where = ":" + nodes[idx]["processor"].split(":")[0]
            else:
                where = ":" + "+".join(sorted({n["processor"].split(":")[0] for n in nodes}))[:60] if cat in ("data", "context") else ""
            rep.add_violation(f"exec-differs:{cat}{where if cat not in ('data', 'context') else ''}", why,
                              {"nodes": nodes, "initial_context": ctx0,
                               "real": {k: (repr(v) if k == "exc" else v) for k, v in real.items() if k != "pipeline"},
                               "documented": mv})
        if len(samples) < 5 and i % 211 == 0:
            samples.append({"nodes": nodes, "initial_context": ctx0, "outcome": mv})
    # ---- parameter sweeps are part of the component library: pipelines with a sweep node, compared with the sweep model of C03
    from props import c03
    sweep_stats = {"cases": 0, "kinds": {}, "modes": {}, "specs": {}, "real_outcomes": {}, "elements_compared": 0, "ranges_checked": 0,
                   "surrounded": 0}
    c03.sweep_cases(rep, rnd, 120 if tier == "quick" else 1200, sweep_stats)
    stats["with_sweep_node"] = {k: sweep_stats[k] for k in ("cases", "kinds", "real_outcomes", "elements_compared")}
    rep.coverage.update({
        "evaluations": stats["cases"],
        "distinct_nontrivial": len(distinct),
        "rule": f"type-directed random pipelines of length 1..{max_len} over the harness term library (sources, payload source, operations with/without "
                "defaults, context-writing operations, probes, rename/delete/template, slicers, sinks, failing processors), 15% deliberate misfits; every "
                "parameter placed in config / initial context / produced earlier / default / missing; distinct = distinct (nodes, context)",
        "samples": samples,
        "traces_validated_against_impl": stats["cases"],
        "generator_distribution": stats,
        "search": "same generator (the model is the oracle)",
    })
    rep.assumptions += [
        "processor bodies are parameters of the theorems; the correspondence instantiates them with the free term algebra of props/components.py",
        "error messages are not compared, only the failing node and the class {flow, processor, configuration}",
        "ContextCollectionType, parameter sweeps inside pipelines (see C03) and the repo's float components are outside this model",
    ]
    return rep.finish()


def replay(path: str) -> int:
    case = json.loads(open(path).read())
    print(json.dumps(case, indent=1, default=str)[:4000])
    c = case.get("case", {})
    if "nodes" in c:
        real = pipegen.run_real(c["nodes"], c.get("initial_context", {}))
        print("real now:", {k: (repr(v) if k == "exc" else v) for k, v in real.items() if k != "pipeline"})
    return 0
