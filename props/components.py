"""The harness' own component library: a free (Herbrand) term algebra over JSON values.

Every processor builds a constructor term `[tag, data-term, param...]`, so different plumbings can
never produce equal values by arithmetic coincidence, and the value itself shows which inputs
reached the processor.  Registered with `ProcessorRegistry.register_modules(["props.components"])`
(and, for CLI runs, through the YAML `extensions:` mechanism via `register()` below).
"""
from __future__ import annotations

from typing import Any, List

from semantiva.context_processors import ContextType
from semantiva.data_io import DataSink, DataSource, PayloadSink, PayloadSource
from semantiva.data_processors import DataOperation, DataProbe
from semantiva.data_types import BaseDataType, DataCollectionType
from semantiva.pipeline import Payload


class VerifProcError(Exception):
    """Raised by the harness' failing processors ("the processor's own error")."""


class TData(BaseDataType[Any]):
    """A term."""

    def validate(self, data: Any) -> bool:
        return True

    def __repr__(self) -> str:
        return f"TData({self._data!r})"


class TOther(BaseDataType[Any]):
    """A second item type (for type-gate breaks)."""

    def validate(self, data: Any) -> bool:
        return True


class TColl(DataCollectionType[TData, list]):
    """A collection of terms."""

    @classmethod
    def _initialize_empty(cls) -> list:
        return []

    def __iter__(self):
        return iter(self._data)

    def append(self, item: TData) -> None:
        if not isinstance(item, TData):
            raise TypeError("Item must be of type TData")
        self._data.append(item)

    def __len__(self) -> int:
        return len(self._data)

    def validate(self, data):
        for item in data:
            if not isinstance(item, TData):
                raise TypeError("Data must be a list of TData objects")


class TColl2(TColl):
    """A second collection type (for identity mutations of a sweep's `collection`)."""


# ---------------------------------------------------------------------------------------------
# sources
# ---------------------------------------------------------------------------------------------

class TSource(DataSource):
    """Term source with a required parameter."""

    @classmethod
    def _get_data(cls, v) -> TData:
        return TData(["src", v])

    @classmethod
    def output_data_type(cls):
        return TData


class TSourceDef(DataSource):
    """Term source whose parameter has a default."""

    @classmethod
    def _get_data(cls, v="d0") -> TData:
        return TData(["srcd", v])

    @classmethod
    def output_data_type(cls):
        return TData


class TCollSource(DataSource):
    """Source of a three-element collection."""

    @classmethod
    def _get_data(cls, v) -> TColl:
        return TColl.from_list([TData(["el", v, i]) for i in range(3)])

    @classmethod
    def output_data_type(cls):
        return TColl


class TPayloadSource(PayloadSource):
    """Payload source: data term plus the context key `pk`."""

    @classmethod
    def _get_payload(cls, v) -> Payload:
        return Payload(TData(["psrc", v]), ContextType({"pk": ["pctx", v]}))

    @classmethod
    def output_data_type(cls):
        return TData

    @classmethod
    def _injected_context_keys(cls) -> List[str]:
        return ["pk"]


# ---------------------------------------------------------------------------------------------
# operations
# ---------------------------------------------------------------------------------------------

class _TOp(DataOperation):
    @classmethod
    def input_data_type(cls):
        return TData

    @classmethod
    def output_data_type(cls):
        return TData


class TOp0(_TOp):
    """Unary term operation without parameters."""

    def _process_logic(self, data):
        return TData(["op0", data.data])


class TOp1(_TOp):
    """Term operation with one required parameter."""

    def _process_logic(self, data, a):
        return TData(["op1", data.data, a])


class TOp1Def(_TOp):
    """Term operation with one defaulted parameter."""

    def _process_logic(self, data, a="d1"):
        return TData(["op1d", data.data, a])


class TOp2(_TOp):
    """Term operation with a required and a defaulted parameter."""

    def _process_logic(self, data, a, b="d2"):
        return TData(["op2", data.data, a, b])


class TOpKw(_TOp):
    """Term operation with a keyword-only defaulted parameter next to an ordinary one."""

    def _process_logic(self, data, a, *, g="dg"):
        return TData(["opkw", data.data, a, g])


class TOpKwReq(_TOp):
    """Term operation with a required keyword-only parameter next to a defaulted ordinary one."""

    def _process_logic(self, data, a="da", *, g):
        return TData(["opkwr", data.data, a, g])


class TOp1DefSub(TOp1Def):
    """Derived from a concrete operation: same parameter, another default."""

    def _process_logic(self, data, a="dsub"):
        return TData(["op1s", data.data, a])


class TOp2Sub(TOp2):
    """Derived from a concrete operation: the parent's defaulted parameter is required here."""

    def _process_logic(self, data, a, b):
        return TData(["op2s", data.data, a, b])


class TOp1Sub(TOp1):
    """Derived from a concrete operation: the parent's required parameter has a default here."""

    def _process_logic(self, data, a="asub"):
        return TData(["op1sub", data.data, a])


class TOnlyHereParent(_TOp):
    """A concrete operation used by exactly one oracle (C10: a derived class traced after its parent), never by the generators,
    so that which of the two classes is met first in a process is under that oracle's control."""

    def _process_logic(self, data, a="parent-default", b="pb"):
        return TData(["ohp", data.data, a, b])


class TOnlyHereChild(TOnlyHereParent):
    """Derived from TOnlyHereParent with other defaults and one parameter without a default."""

    def _process_logic(self, data, a="child-default", b="cb", c="cc"):
        return TData(["ohc", data.data, a, b, c])


class TOpW(_TOp):
    """Operation that also writes the context key `w` it declares."""

    @classmethod
    def context_keys(cls) -> List[str]:
        return ["w"]

    def _process_logic(self, data, a):
        self._notify_context_update("w", ["w", data.data, a])
        return TData(["opw", data.data, a])


class TOpW2(_TOp):
    """Operation that writes the declared key `k` (a key other nodes read as a parameter)."""

    @classmethod
    def context_keys(cls) -> List[str]:
        return ["k"]

    def _process_logic(self, data):
        self._notify_context_update("k", ["wk", data.data])
        return TData(["opk", data.data])


class TOpUndeclared(_TOp):
    """Operation that writes a context key it does not declare."""

    def _process_logic(self, data):
        self._notify_context_update("zz", ["zz", data.data])
        return TData(["opu", data.data])


class TOpToOther(DataOperation):
    """TData -> TOther (a type change)."""

    @classmethod
    def input_data_type(cls):
        return TData

    @classmethod
    def output_data_type(cls):
        return TOther

    def _process_logic(self, data):
        return TOther(["oth", data.data])


class TMerge(DataOperation):
    """TColl -> TData."""

    @classmethod
    def input_data_type(cls):
        return TColl

    @classmethod
    def output_data_type(cls):
        return TData

    def _process_logic(self, data):
        return TData(["merge"] + [x.data for x in data])


class TFail(_TOp):
    """Operation whose body raises the processor's own error."""

    def _process_logic(self, data):
        raise VerifProcError("boom")


class TWriteThenFail(_TOp):
    """Operation that writes the context key `w` it declares and then raises: the write has happened when the node fails."""

    @classmethod
    def context_keys(cls) -> List[str]:
        return ["w"]

    def _process_logic(self, data):
        self._notify_context_update("w", ["written-before-failing", data.data])
        raise VerifProcError("boom after writing")


class KwOnlyError(Exception):
    """An exception that cannot be rebuilt from its own .args (keyword-only constructor), like several library errors."""

    def __init__(self, *, code):
        super().__init__(f"code {code}")
        self.code = code


class TFailKw(_TOp):
    """Operation raising an exception with a keyword-only constructor."""

    def _process_logic(self, data):
        raise KwOnlyError(code=3)


class TFailKeyObj(_TOp):
    """Operation failing like an ordinary `mapping[key]` lookup whose key is not JSON-serialisable."""

    def _process_logic(self, data):
        raise KeyError(frozenset({"k", 1}))


class TFailEmpty(_TOp):
    """Operation raising an exception without any message (like a bare `assert` or `raise NotImplementedError`)."""

    def _process_logic(self, data):
        raise NotImplementedError


class TFailMsg(_TOp):
    """Operation that raises the processor's own error with a caller-supplied message (C06: unusual text in error fields)."""

    def _process_logic(self, data, msg):
        raise VerifProcError(msg)


class TFailKI(_TOp):
    """Operation whose body raises a KeyboardInterrupt-class abort."""

    def _process_logic(self, data):
        raise KeyboardInterrupt()


class TFailIf(_TOp):
    """Operation that raises the processor's own error when its parameter `bad` equals "boom" (C09: a failing run)."""

    def _process_logic(self, data, bad="fine"):
        if bad == "boom":
            raise VerifProcError("boom")
        return TData(["failif", data.data, bad])


class TOpConsume(_TOp):
    """Operation that consumes an iterable parameter `chunks` (C10: a one-shot iterator in the context)."""

    def _process_logic(self, data, chunks):
        return TData(["consume", data.data, list(chunks)])


def _hostile(name, exc=TypeError):
    def method(self, *a, **k):
        raise exc(f"{name} of an object that does not support it")
    return method


# term data whose special methods misbehave the way real wrapped objects do (a 0-d numpy array has __len__ and raises on len(),
# a closed lazy collection raises on iteration, a proxy object raises on repr, ...): anything only *tracing* calls must not
# change what a run returns or raises
HOSTILE = {
    "len-raises": type("THostileLen", (TData,), {"__len__": _hostile("len()"), "__doc__": "A term."}),
    "len-negative": type("THostileNegLen", (TData,), {"__len__": lambda self: -1, "__doc__": "A term."}),
    "len-huge": type("THostileHugeLen", (TData,), {"__len__": lambda self: 2 ** 70, "__doc__": "A term."}),
    "repr-raises": type("THostileRepr", (TData,), {"__repr__": _hostile("repr()", RuntimeError), "__doc__": "A term."}),
    "str-raises": type("THostileStr", (TData,), {"__str__": _hostile("str()", RuntimeError), "__doc__": "A term."}),
    "iter-raises": type("THostileIter", (TData,), {"__iter__": _hostile("iter()"), "__doc__": "A term."}),
    "bool-raises": type("THostileBool", (TData,), {"__bool__": _hostile("bool()", ValueError), "__doc__": "A term."}),
    "reduce-raises": type("THostileReduce", (TData,), {"__reduce_ex__": _hostile("pickling"), "__doc__": "A term."}),
    "getstate-raises": type("THostileState", (TData,), {"__getstate__": _hostile("__getstate__"), "__doc__": "A term."}),
}


class TOpMakeHostile(_TOp):
    """Operation whose *output* is a term of one of the HOSTILE classes (C10)."""

    def _process_logic(self, data, kind):
        return HOSTILE[kind](["hostile-out", data.data])


class TOpDrain(_TOp):
    """Operation whose input data wraps a one-shot iterator and drains it (C10)."""

    def _process_logic(self, data):
        return TData(["drain", list(data.data)])


# ---------------------------------------------------------------------------------------------
# probes
# ---------------------------------------------------------------------------------------------

class _TProbe(DataProbe):
    @classmethod
    def input_data_type(cls):
        return TData


class TProbe(_TProbe):
    """Probe without parameters."""

    def _process_logic(self, data):
        return ["probe", data.data]


class TProbeP(_TProbe):
    """Probe with one required parameter."""

    def _process_logic(self, data, a):
        return ["probep", data.data, a]


class TProbeEcho(_TProbe):
    """Probe whose result is its parameter `val` itself — including falsy results (0, 0.0, False, "", [], {})."""

    def _process_logic(self, data, val):
        return val


class TFailProbe(_TProbe):
    """Probe whose body raises."""

    def _process_logic(self, data):
        raise VerifProcError("probe boom")


# ---------------------------------------------------------------------------------------------
# sinks (their effect is a line appended to a file: observable by C17)
# ---------------------------------------------------------------------------------------------

class TSink(DataSink[TData]):
    """Appends repr(data) to `path`."""

    @classmethod
    def _send_data(cls, data: TData, path: str):
        # only absolute string paths are written: generated parameter values (ints, relative names) must never
        # open a file descriptor or create files in the working directory
        if isinstance(path, str) and path.startswith("/"):
            with open(path, "a") as fh:
                fh.write(repr(data.data) + "\n")

    @classmethod
    def input_data_type(cls):
        return TData


class TSinkKw(DataSink[TData]):
    """A sink with a keyword-only required parameter next to an ordinary one."""

    @classmethod
    def _send_data(cls, data: TData, path: str, *, tag):
        if isinstance(path, str) and path.startswith("/"):
            with open(path, "a") as fh:
                fh.write(repr([tag, data.data]) + "\n")

    @classmethod
    def input_data_type(cls):
        return TData


class TPayloadSink(PayloadSink[TData]):
    """Appends repr(payload.data) to `path`."""

    @classmethod
    def _send_payload(cls, payload: Payload, path: str):
        if isinstance(path, str) and path.startswith("/"):
            with open(path, "a") as fh:
                fh.write(repr(payload.data.data) + "\n")

    @classmethod
    def input_data_type(cls):
        return TData


def register() -> None:
    """Entry point of the repo's extension loader (`extensions: [props.components]`)."""
    from semantiva.registry.processor_registry import ProcessorRegistry
    ProcessorRegistry.register_modules(["props.components"])


# --- a fitting model for the `model:` parameter shorthand (identity checks) ------------------------
from semantiva.workflows.fitting_model import FittingModel as _FittingModel


class TFitModel(_FittingModel):
    """Harness fitting model: remembers its keyword arguments; never fits anything."""

    def __init__(self, degree: int = 1, label: str = "", flag: bool = False):
        self.degree, self.label, self.flag = degree, label, flag

    def fit(self, x_values, y_values):
        return {"degree": float(self.degree)}

    def __repr__(self) -> str:
        return f"TFitModel(degree={self.degree!r}, label={self.label!r}, flag={self.flag!r})"

    __str__ = __repr__
