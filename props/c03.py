"""C03 — parameter sweeps expand to exactly the documented element sequence.

prove      : Properties/C03.lean (combinatorial = product over sorted variable names, last fastest;
             by_position aligned / broadcast cycles / unequal lengths rejected; merge precedence;
             one element per step in order; every variable published) — reusing the C08 product theorems
correspond : real pipelines containing a derive.parameter_sweep node (source / operation / probe;
             explicit sequences, ranges, from_context; both modes; broadcast; tuple and integer
             expressions; surrounding nodes) vs the Lean model: output collection element by element,
             context, or failing node
oracle     : the model is the documented sequence; numeric contract of ranges checked in Python.
No generated side condition (hand-written model + correspondence); the C01 precedence table is reused.
"""
from __future__ import annotations

import copy
import json
import math

from vlib import core, rt
from props import pipegen, c01

PROP = "C03"
VARS = ["x", "y", "z", "t", "T", "N", "dt", "aB", "a_b"]      # mixed case: axis order is plain code-point order of the names

ELEMENTS = {
    "TSource": dict(kind="source", params=[("v", None)], beh=["term", "src"], declared=[], inT="NoDataType"),
    "TSourceDef": dict(kind="source", params=[("v", "d0")], beh=["term", "srcd"], declared=[], inT="NoDataType"),
    "TOp1": dict(kind="operation", params=[("a", None)], beh=["term", "op1"], declared=[], inT="TData"),
    "TOp2": dict(kind="operation", params=[("a", None), ("b", "d2")], beh=["term", "op2"], declared=[], inT="TData"),
    "TOp1Def": dict(kind="operation", params=[("a", "d1")], beh=["term", "op1d"], declared=[], inT="TData"),
    "TOpW": dict(kind="operation", params=[("a", None)], beh=["termWrite", "opw", "w", "w"], declared=["w"], inT="TData"),
    "TProbeP": dict(kind="probe", params=[("a", None)], beh=["term", "probep"], declared=[], inT="TData"),
    "TProbe": dict(kind="probe", params=[], beh=["term", "probe"], declared=[], inT="TData"),
    # wrapped processors with keyword-only parameters (defaulted / required): parameters like any other
    "TOpKw": dict(kind="operation", params=[("a", None), ("g", "dg")], beh=["term", "opkw"], declared=[], inT="TData"),
    "TOpKwReq": dict(kind="operation", params=[("a", "da"), ("g", None)], beh=["term", "opkwr"], declared=[], inT="TData"),
}


def gen_sweep(rnd):
    """Returns (yaml node, model sweep description without range values, info)."""
    proc = rnd.choice(list(ELEMENTS))
    el = ELEMENTS[proc]
    nvars = rnd.choice([1, 1, 2, 2, 3])
    names = rnd.sample(VARS, nvars)
    rnd.shuffle(names)
    fn_named = rnd.random() < 0.12
    if fn_named:
        # a sweep variable may be called like one of the expression functions: inside the expression the variable is meant
        names = rnd.sample(["max", "min", "abs", "round", "int", "str", "float", "bool"], nvars)
    mode = rnd.choice(["combinatorial", "by_position"])
    broadcast = rnd.random() < 0.4
    variables, decls, all_int = {}, [], True
    base_len = rnd.randrange(1, 4)
    info = {"specs": [], "mode": mode, "broadcast": broadcast, "kind": el["kind"], "element": proc}
    ctx0 = {}
    for v in names:
        r = rnd.random()
        ln = base_len if (mode == "by_position" and rnd.random() < 0.75) else rnd.randrange(1, 4)
        if r < 0.45:
            vals = [rnd.randrange(-3, 6) for _ in range(ln)]
            if len(vals) == 2 and rnd.random() < 0.7:
                vals.append(rnd.randrange(0, 4))       # 2-element numeric lists are kept rare (see known findings)
            variables[v] = vals if rnd.random() < 0.7 else {"values": vals}
            decls.append([v, ["seq", [json.dumps(x) for x in vals]]])
            info["specs"].append("list" if isinstance(variables[v], list) else "values")
        elif r < 0.6:
            vals = [rnd.choice(["p", "q", 1.5, True, None, float("inf"), -0.0, 10 ** 20]) for _ in range(ln)]
            variables[v] = vals
            decls.append([v, ["seq", [json.dumps(x) for x in vals]]])
            all_int = False
            info["specs"].append("mixed-list")
        elif r < 0.85:
            lo = rnd.choice([1.0, 0.5, 2.0, -1.0])
            hi = lo + rnd.choice([1.0, 2.5, 9.0])
            scale = rnd.choice(["linear", "linear", "log"]) if lo > 0 else "linear"
            spec = {"lo": lo, "hi": hi, "steps": ln}
            if scale == "log":
                spec["scale"] = "log"
            if rnd.random() < 0.3:
                spec["endpoint"] = False
            variables[v] = spec
            decls.append([v, ["range", spec]])
            all_int = False
            info["specs"].append(f"range-{scale}" + ("-noend" if spec.get("endpoint") is False else ""))
        else:
            key = "seq_" + v
            seq = [rnd.randrange(0, 9) for _ in range(ln)]
            ctx0[key] = seq
            variables[v] = {"from_context": key}
            decls.append([v, ["ctx", key]])
            info["specs"].append("from_context")
        if isinstance(variables.get(v), list) and len(variables[v]) == 2 and all(isinstance(x, (int, float)) for x in variables[v]):
            info["specs"][-1] = "two-number-list"
    # expressions for some of the element's parameters
    exprs_yaml, exprs_model = {}, []
    for (pname, dflt) in el["params"]:
        if rnd.random() < 0.8:
            if all_int and not fn_named and rnd.random() < 0.5:
                a, b = rnd.choice(names), rnd.choice(names)
                k = rnd.randrange(1, 4)
                form = rnd.choice(["lin", "max", "mixed"])
                if form == "lin":
                    exprs_yaml[pname] = f"{a} * {k} + {b}"
                    exprs_model.append([pname, ["arith", ["bin", "add", ["bin", "mul", ["var", a], ["const", k]], ["var", b]]]])
                elif form == "max":
                    exprs_yaml[pname] = f"max({a}, {b}) - {k}"
                    exprs_model.append([pname, ["arith", ["bin", "sub", ["call2", "max", ["var", a], ["var", b]], ["const", k]]]])
                else:
                    exprs_yaml[pname] = f"abs({a}) // {k} if {a} > {b} else {b}"
                    exprs_model.append([pname, ["arith", ["ite", ["cmp", "gt", ["var", a], ["var", b]],
                                                                   ["bin", "floordiv", ["call1", "abs", ["var", a]], ["const", k]], ["var", b]]]])
            else:
                vs = rnd.sample(names, rnd.randrange(1, len(names) + 1))
                exprs_yaml[pname] = "(" + ", ".join(vs) + ("," if len(vs) == 1 else "") + ")"
                exprs_model.append([pname, ["tuple", vs]])
    node = {"processor": proc, "derive": {"parameter_sweep": {"parameters": exprs_yaml, "variables": variables, "mode": mode,
                                                              "broadcast": broadcast}}}
    if el["kind"] != "probe":
        node["derive"]["parameter_sweep"]["collection"] = "TColl"
    # defaults left out: `mode` defaults to combinatorial whatever `broadcast` says, `broadcast` defaults to false
    if mode == "combinatorial" and rnd.random() < 0.5:
        del node["derive"]["parameter_sweep"]["mode"]
        info["specs"].append("mode-omitted" + ("+broadcast" if broadcast else ""))
    if not broadcast and rnd.random() < 0.5:
        del node["derive"]["parameter_sweep"]["broadcast"]
    # the context may already hold a `<var>_values` key (an earlier sweep over the same name, a caller's leftover): it is rewritten
    if rnd.random() < 0.15:
        ctx0[rnd.choice(names) + "_values"] = ["stale", 0]
        info["specs"].append("stale-values-key")
    config = {}
    for (pname, dflt) in el["params"]:
        if pname not in exprs_yaml:
            r = rnd.random()
            if r < 0.5:
                config[pname] = rnd.choice(["cfg", 9, 0, False, "", 0.0, None, []])      # falsy values are values too
            elif r < 0.7:
                ctx0[pname] = "ctx_" + pname
            # else: default or missing
    if rnd.random() < 0.1 and exprs_yaml:
        config[next(iter(exprs_yaml))] = "ignored_by_expression"     # a node parameter for a computed name
    if config:
        node["parameters"] = config
    ck = None
    if el["kind"] == "probe":
        ck = rnd.choice(["res", "k", "e"])
        node["context_key"] = ck
    model = {"sweep": {"kind": el["kind"], "vars": decls, "byPos": mode == "by_position", "broadcast": broadcast, "exprs": exprs_model,
                       "beh": el["beh"], "declared": el["declared"],
                       "elementParams": [[n, (None if d is None else pipegen.enc(d))] for n, d in el["params"]],
                       "inT": el["inT"], "outT": "TColl", "config": [[k, pipegen.enc(v)] for k, v in config.items()], "contextKey": ck}}
    return node, model, ctx0, info


def range_contract(spec, values):
    """Documented numeric contract of a range, checked in Python (support for the external part)."""
    steps = spec["steps"]
    if any(isinstance(v, bool) or not isinstance(v, (int, float)) for v in values):
        return f"published sequence {values!r} is not the materialised range (non-numeric entries)"
    if len(values) != steps:
        return f"length {len(values)} != steps {steps}"
    if not math.isclose(values[0], spec["lo"], rel_tol=1e-12, abs_tol=1e-12):
        return f"first value {values[0]} != lo {spec['lo']}"
    endpoint = spec.get("endpoint", True)
    if endpoint and steps > 1 and not math.isclose(values[-1], spec["hi"], rel_tol=1e-9):
        return f"last value {values[-1]} != hi {spec['hi']}"
    if not endpoint and steps > 1 and not values[-1] < spec["hi"]:
        return f"endpoint excluded but last value {values[-1]} >= hi"
    # closed form (numpy's linspace / geomspace convention): the interval is divided into steps-1 parts when the upper
    # bound is included and into `steps` parts when it is excluded
    div = (steps - 1) if endpoint else steps
    for i, v in enumerate(values):
        if div == 0:
            want = spec["lo"]
        elif spec.get("scale", "linear") == "linear":
            want = spec["lo"] + (spec["hi"] - spec["lo"]) * i / div
        else:
            want = spec["lo"] * (spec["hi"] / spec["lo"]) ** (i / div)
        if not math.isclose(v, want, rel_tol=1e-9, abs_tol=1e-12):
            return f"value {i} of the range is {v}, the documented {spec.get('scale', 'linear')} spacing gives {want}"
    return None


def sweep_cases(rep, rnd, n_cases, stats):
    """Generated pipelines with one sweep node: real run vs the model, element by element. Returns samples."""
    cases, reqs = [], [{"m": "c01.setup", "id": "setup", "resolveTable": c01.DOC_TABLE}]
    for i in range(n_cases):
        node, model, ctx0, info = gen_sweep(rnd)
        kind = info["kind"]
        nodes, mnodes = [], []
        if kind != "source":
            nodes.append({"processor": "TSourceDef"})
            if rnd.random() < 0.4:
                nodes.append(rnd.choice([{"processor": "TOp0"}, {"processor": "TProbe", "context_key": "b"},
                                         {"processor": 'template:"t{b}":pre', "parameters": {"b": "B"}}]))
                stats["surrounded"] += 1
        nodes.append(node)
        if rnd.random() < 0.5:
            if kind == "probe":
                nodes.append(rnd.choice([{"processor": "TOp0"}, {"processor": "delete:" + node["context_key"]}]))
            else:
                nodes.append(rnd.choice([{"processor": "TMerge"}, {"processor": "slice:TOp0:TColl"},
                                         {"processor": "slice:TProbe:TColl", "context_key": "after"}]))
            stats["surrounded"] += 1
        cases.append((nodes, model, ctx0, info))
    # ranges need the sequence the real code published: run the real code first
    real_results = []
    for (nodes, model, ctx0, info) in cases:
        real = pipegen.run_real(nodes, ctx0)
        real_results.append(real)
    for i, ((nodes, model, ctx0, info), real) in enumerate(zip(cases, real_results)):
        sw = copy.deepcopy(model["sweep"])
        ok_ranges = True
        for vd in sw["vars"]:
            if vd[1][0] == "range":
                spec = vd[1][1]
                published = None
                if real["outcome"] == "ok":
                    published = dict((k, v) for k, v in real["ctx"]).get(vd[0] + "_values")
                if published is None:
                    # the run failed or did not publish: materialise with numpy as documented (linspace / logspace)
                    import numpy as np
                    if spec.get("scale", "linear") == "linear":
                        vals = list(np.linspace(spec["lo"], spec["hi"], spec["steps"], endpoint=spec.get("endpoint", True)))
                    else:
                        hi = spec["hi"] if spec.get("endpoint", True) else spec["lo"] * (spec["hi"] / spec["lo"]) ** ((spec["steps"] - 1) / spec["steps"])
                        vals = list(np.logspace(np.log10(spec["lo"]), np.log10(hi), spec["steps"]))
                    toks = [json.dumps(float(x)) for x in vals]
                else:
                    toks = list(published)
                    vals = [json.loads(t) for t in toks]
                    stats["ranges_checked"] += 1
                    why = range_contract(spec, vals)
                    if why:
                        rep.add_violation("range-contract:" + spec.get("scale", "linear"), "a materialised range violates its documented contract: " + why,
                                          {"spec": spec, "values": vals, "nodes": nodes})
                vd[1] = ["seq", toks]
        mnodes = [({"sweep": sw} if "derive" in n else pipegen.model_node(n)) for n in nodes]
        reqs.append({"m": "c03.run", "id": i, "nodes": mnodes, "ctx": [[k, pipegen.enc(v)] for k, v in ctx0.items()]})
    model_ans = None
    try:
        ans = core.Driver().run(reqs)
        if "err" in ans[0]:
            raise RuntimeError(ans[0]["err"])
        model_ans = ans[1:]
    except Exception as exc:
        rep.add_broken(f"correspondence C03: model driver unavailable ({exc!r})")
    samples = []
    for i, ((nodes, model, ctx0, info), real) in enumerate(zip(cases, real_results)):
        stats["cases"] += 1
        stats["kinds"][info["kind"]] = stats["kinds"].get(info["kind"], 0) + 1
        stats["modes"][info["mode"] + ("+broadcast" if info["broadcast"] else "")] = stats["modes"].get(info["mode"] + ("+broadcast" if info["broadcast"] else ""), 0) + 1
        for sp in info["specs"]:
            stats["specs"][sp] = stats["specs"].get(sp, 0) + 1
        key = real["outcome"] + (":" + real["cls"][1] if real["cls"] else "")
        stats["real_outcomes"][key] = stats["real_outcomes"].get(key, 0) + 1
        if model_ans is None:
            continue
        a = model_ans[i]
        if "err" in a:
            rep.add_broken(f"correspondence C03: driver error {a['err']}")
            model_ans = None
            continue
        m = a["ok"]
        sweep_idx = next(k for k, n in enumerate(nodes) if "derive" in n)
        pub = {"nodes": nodes, "initial_context": ctx0, "sweep": info}
        tags = info["kind"] + ":" + info["mode"] + ("+broadcast" if info["broadcast"] else "")
        if "ok" in m:
            md, mc = m["ok"]["data"], sorted(m["ok"]["ctx"])
            if real["outcome"] != "ok":
                rep.add_violation(f"sweep-fails-unexpectedly:{tags}:{real['cls'][1]}",
                                  f"the documented semantics give a result but the run raises {real['exc']!r}", dict(pub, documented=m["ok"]))
                continue
            if real["data"] != md:
                what = "length" if (real["data"][0] == "coll" and md[0] == "coll" and len(real["data"][2]) != len(md[2])) else "elements"
                spec_tag = "two-number-list" if "two-number-list" in info["specs"] else "general"
                rep.add_violation(f"sweep-data-differs:{what}:{tags}:{spec_tag}", "the output of the sweep node differs from the documented element sequence",
                                  dict(pub, returned=real["data"], documented=md))
            elif real["ctx"] != mc:
                rk, mk = dict((k, json.dumps(v)) for k, v in real["ctx"]), dict((k, json.dumps(v)) for k, v in mc)
                missing = sorted(set(mk) - set(rk))
                extra = sorted(set(rk) - set(mk))
                diff = sorted(k for k in set(rk) & set(mk) if rk[k] != mk[k])
                kind = "values-not-published" if any(k.endswith("_values") for k in missing) else "context"
                spec_tag = "two-number-list" if "two-number-list" in info["specs"] else "general"
                rep.add_violation(f"sweep-context-differs:{kind}:{info['kind']}:{spec_tag}", f"context after the pipeline differs: missing {missing}, unexpected {extra}, different {diff}",
                                  dict(pub, returned=real["ctx"], documented=mc))
            else:
                stats["elements_compared"] += len(md[2]) if md[0] == "coll" else 1
        else:
            kind_m = "constructError" if "constructError" in m else "runError"
            idx, err = m[kind_m]
            if real["outcome"] == "ok":
                rep.add_violation(f"sweep-accepts-what-must-fail:{tags}:{err[0]}",
                                  f"documented: node {idx} fails ({err}); the run returned", dict(pub, returned=real["data"]))
            elif kind_m == "runError" and real["outcome"] == "runError" and real["started"] - 1 != idx:
                rep.add_violation(f"sweep-failing-node:{tags}", f"node {real['started'] - 1} raised, documented failure at node {idx} ({err})", pub)
        if len(samples) < 5 and i % 97 == 0:
            samples.append({"nodes": nodes, "initial_context": ctx0, "real": real["data"]})
    return samples


def run(tier: str) -> int:
    rep = core.Report(PROP, tier)
    rnd = core.rng(PROP)
    pipegen.setup()
    try:
        c01.translate()
    except Exception as exc:
        rep.add_broken(f"translator C01 (precedence table) failed: {exc!r}")
    core.prove(rep, PROP, thorough=(tier == "thorough"))
    n_cases = 500 if tier == "quick" else 5000
    stats = {"cases": 0, "kinds": {}, "modes": {}, "specs": {}, "real_outcomes": {}, "elements_compared": 0, "ranges_checked": 0,
             "surrounded": 0}
    samples = sweep_cases(rep, rnd, n_cases, stats)
    rep.coverage.update({
        "evaluations": stats["cases"],
        "distinct_nontrivial": stats["cases"],
        "rule": "random sweep nodes over 1..3 variables (int lists, mixed lists, ranges linear/log with/without endpoint, from_context), both modes, "
                "broadcast on/off, tuple and integer expressions (C12 fragment), three wrapped kinds, non-swept parameters in config/context/default/missing, "
                "optionally surrounded by other nodes; every case is a distinct sweep",
        "samples": samples,
        "traces_validated_against_impl": stats["cases"],
        "generator_distribution": stats,
        "search": "same generator",
    })
    rep.assumptions += [
        "numpy's linspace/logspace values are taken from what the code published (or recomputed with numpy) and checked against the documented contract in Python",
        "expressions are tuples of variables or integer expressions of the C12 fragment (float arithmetic is not modelled)",
    ]
    return rep.finish()


def replay(path: str) -> int:
    case = json.loads(open(path).read())
    print(json.dumps(case, indent=1, default=str)[:4000])
    c = case.get("case", {})
    if "nodes" in c:
        real = pipegen.run_real(c["nodes"], c.get("initial_context", {}))
        print("real now:", {k: (repr(v) if k == "exc" else v) for k, v in real.items() if k != "pipeline"})
    return 0
