"""C02 — static inspection is sound and its per-node facts are true.

prove      : Properties/C02.lean — a reference flow analysis over the C01 execution model with the
             theorem `analysis_sound` (accepted ∧ required keys supplied ⇒ no flow error at any node,
             for pipelines of any length) and `step_key_delta` (keys appear/disappear only as declared)
correspond : the real build_pipeline_inspection + validate_pipeline vs the reference analysis
             (accept/reject, required keys, per-node created/suppressed keys) on generated pipelines
oracle     : (real code only) validation passed ∧ required keys supplied ∧ the run raises a flow
             error; reported created/suppressed keys vs the real per-node context difference; reported
             parameter origin vs where the value really came from; unknown-parameter names at
             inspection vs at run time.
"""
from __future__ import annotations

import copy
import json

from vlib import core, rt
from props import pipegen

PROP = "C02"
FLOW_FINE = {"unresolved", "missingKey", "typeGate", "unknownParam"}


def real_inspect(nodes):
    """(accepted, inspection, error message)"""
    pipegen.setup()
    from semantiva.inspection import build_pipeline_inspection, validate_pipeline
    work = copy.deepcopy(nodes)
    insp = build_pipeline_inspection(work)
    if _cfg_view(work) != _cfg_view(nodes):
        MUTATED.append({"given": copy.deepcopy(nodes), "after_inspection": work})
    try:
        validate_pipeline(insp)
        return True, insp, None
    except Exception as exc:  # PipelineConfigurationError
        return False, insp, str(exc)


MUTATED: list = []          # configurations that build_pipeline_inspection altered in place


def _cfg_view(nodes):
    """The meaning of a configuration as text: parameter shorthands in their documented resolved form, descriptor objects as
    their JSON form, an absent `parameters` block as an empty one (writing those normal forms back is not a change)."""
    from props import idgen
    out = []
    for n in nodes:
        m = {k: v for k, v in n.items() if k != "parameters"}
        m["parameters"] = idgen.resolve_doc(n.get("parameters") or {})
        out.append(m)
    return json.dumps(out, sort_keys=True, default=lambda o: o.to_json() if hasattr(o, "to_json") else repr(o))


def first_input_type(nodes):
    """Declared input type of the first data node (what the caller's payload must be an instance of)."""
    for n in nodes:
        m = pipegen.model_node(n)
        if m["kind"][0] not in ("rename", "delete", "template"):
            return m["inT"]
    return "NoDataType"


def initial_data(tname):
    from props import components as C
    from semantiva.data_types import NoDataType
    if tname == "TData":
        return C.TData(["init"])
    if tname == "TColl":
        return C.TColl.from_list([C.TData(["init", 0]), C.TData(["init", 1])])
    if tname == "TOther":
        return C.TOther(["initother"])
    return NoDataType()


_KEEPALIVE: list = []
LIVE_IDS: list = []          # per node of the last run: key -> id of the live value object after the node


def run_with_snapshots(nodes, ctx0):
    """Real run recording the context after every node. Returns (result, snapshots)."""
    del _KEEPALIVE[:]
    del LIVE_IDS[:]
    pipegen.setup()
    from semantiva.pipeline import Pipeline, Payload
    from semantiva.context_processors import ContextType
    from semantiva.data_types import NoDataType
    from semantiva.execution.orchestrator.orchestrator import LocalSemantivaOrchestrator
    snaps = []

    class Rec(LocalSemantivaOrchestrator):
        def __init__(self):
            super().__init__()
            self.started = 0

        def _submit_and_wait(self, node_callable, *, ser_hooks):
            self.started += 1
            out = super()._submit_and_wait(node_callable, ser_hooks=ser_hooks)
            live = out.context.to_dict()
            snaps.append(copy.deepcopy(live))
            _KEEPALIVE.extend(live.values())          # ids below stay unique: no object seen here is freed during the run
            LIVE_IDS.append({k: id(v) for k, v in live.items()})
            return out

    orch = Rec()
    res = {"outcome": "ok", "started": 0, "cls": None, "exc": None}
    try:
        pipe = Pipeline(copy.deepcopy(nodes), orchestrator=orch)
        pipe.process(Payload(initial_data(first_input_type(nodes)), ContextType(copy.deepcopy(ctx0))))
    except BaseException as exc:  # noqa: BLE001
        res.update(outcome="runError" if orch.started else "constructError", cls=pipegen.classify(exc), exc=repr(exc)[:300])
    res["started"] = orch.started
    return res, snaps


def check_accepted(rep, stats, rnd, nodes, insp, pub, given=None):
    """Accepted by inspection + validation: run with exactly the required keys and with a superset; per-node facts."""
    given = given or {}
    required = sorted(insp.required_context_keys)
    # ---- soundness, exact context and supersets ---------------------------------------------------
    for variant in range(2):
        ctx0 = {k: copy.deepcopy(given[k]) if k in given else ("/dev/null" if k == "path" else f"init_{k}") for k in required}     # `path` is a sink target: nothing is written into the cwd
        if variant == 1:
            extra = [k for k in pipegen.KEYS if k not in ctx0 and rnd.random() < 0.4]
            for k in extra:
                ctx0[k] = rnd.choice([f"extra_{k}", 5, ["z"]])
            if not extra:
                continue
            stats["superset_runs"] += 1
        res, snaps = run_with_snapshots(nodes, ctx0)
        if res["outcome"] == "ok":
            stats["accepted_runs_ok"] += 1
        elif res["cls"][1] in FLOW_FINE:
            idx = res["started"] - 1
            proc = nodes[max(idx, 0)]["processor"].split(":")[0] if res["outcome"] == "runError" else "construct"
            if res["outcome"] == "runError" and proc in ("rename", "delete"):
                srck = nodes[idx]["processor"].split(":")[1]
                if srck in (nodes[idx].get("parameters") or {}):
                    proc += ":source-key-given-in-node-parameters"
            rep.add_violation(f"accepted-but-flow-error:{res['cls'][1]}:{proc}",
                              f"inspection and validation report no error and every required key {required} is supplied, yet the run "
                              f"fails on flow: {res['exc']}",
                              dict(pub, required=required, initial_context=ctx0, failing_node=idx, error=res["exc"]))
        else:
            stats["accepted_runs_proc_error"] += 1
        if variant == 1:
            continue
        # ---- per-node facts (exact required keys) ----------------------------------------------
        before = dict(ctx0)
        writers = {k: None for k in ctx0}       # key -> node (1-based) that last changed its value
        live_ids = list(LIVE_IDS)
        ids_before = {}
        for idx, after in enumerate(snaps):
            ni = insp.nodes[idx]
            stats["facts_nodes_checked"] += 1
            appeared = sorted(set(after) - set(before))
            vanished = sorted(set(before) - set(after))
            want_new = sorted(set(ni.created_keys) - set(before))
            want_gone = sorted(set(ni.suppressed_keys) & set(before))
            proc = nodes[idx]["processor"].split(":")[0]
            if proc == "rename" and len(set(nodes[idx]["processor"].split(":")[1:3])) == 1:
                proc = "rename-onto-itself"
            if appeared != want_new:
                rep.add_violation(f"created-keys-untrue:{proc}",
                                  f"node {idx + 1} is reported to create {sorted(ni.created_keys)}; keys that appeared when it ran: {appeared}",
                                  dict(pub, initial_context=ctx0, node=idx + 1, before=sorted(before), after=sorted(after)))
            if vanished != want_gone:
                rep.add_violation(f"suppressed-keys-untrue:{proc}",
                                  f"node {idx + 1} is reported to suppress {sorted(ni.suppressed_keys)}; keys that disappeared when it ran: {vanished}",
                                  dict(pub, initial_context=ctx0, node=idx + 1, before=sorted(before), after=sorted(after)))
            # origins of the parameters this node resolved
            cfg = nodes[idx].get("parameters") or {}
            for p, origin in ni.context_params.items():
                if p in cfg or p not in before:
                    continue
                stats["origins_checked"] += 1
                # an equal value may have been written again by the reported node (not observable for scalars); a container a
                # node writes is a fresh object, so for containers the last writer is known exactly
                if origin != writers.get(p) and (isinstance(before.get(p), (list, dict)) or not same_value_since(ctx0, snaps, p, origin, idx)):
                    rep.add_violation(f"origin-untrue:context:{'initial' if origin is None else 'node'}",
                                      f"node {idx + 1} parameter {p!r}: reported origin {origin}, the value actually comes from "
                                      f"{'the initial context' if writers.get(p) is None else 'node ' + str(writers.get(p))}",
                                      dict(pub, initial_context=ctx0, node=idx + 1, parameter=p, reported=origin, actual=writers.get(p)))
            for p, dv in ni.default_params.items():
                if p in cfg:
                    continue
                stats["origins_checked"] += 1
                if p in before:
                    rep.add_violation("origin-untrue:default-overridden-by-context",
                                      f"node {idx + 1} parameter {p!r} is reported to take its default {dv!r}, but the context holds {p!r} "
                                      f"(written by {'the initial context' if writers.get(p) is None else 'node ' + str(writers.get(p))}) and overrides it",
                                      dict(pub, initial_context=ctx0, node=idx + 1, parameter=p))
            ids_after = live_ids[idx] if idx < len(live_ids) else {}
            for k in after:
                # written here: the key is new, its value changed, or the live value is another object than before
                if k not in before or before[k] != after[k] or (k in ids_before and k in ids_after and ids_before[k] != ids_after[k]):
                    writers[k] = idx + 1
            ids_before = ids_after
            for k in vanished:
                writers.pop(k, None)
            before = after
    return required


def inspect_then_run_same_objects(rep, stats, rnd):
    """What `semantiva run` does: the node dicts that were inspected are the ones the pipeline is built from.  Uses the
    framework's own ModelFittingContextProcessor, whose node factory consumes some of the node's parameters."""
    pipegen.setup()
    from semantiva.inspection import build_pipeline_inspection, validate_pipeline
    from semantiva.pipeline import Pipeline, Payload
    from semantiva.context_processors import ContextType
    from semantiva.data_types import NoDataType
    shapes = []
    for mapping in (True, False):
        for ck in ("fit_out", None):
            for consumer in ("rename", "template", None):
                params = {"fitting_model": rnd.choice(["model:TFitModel:degree=1", "model:TFitModel"])}
                if mapping:
                    params.update({"independent_var_key": "xs", "dependent_var_key": "ys"})
                if ck:
                    params["context_key"] = ck
                out = ck or "fit.parameters"
                nodes = [{"processor": "TSourceDef"}, {"processor": "ModelFittingContextProcessor", "parameters": params}]
                if consumer == "rename":
                    nodes.append({"processor": f"rename:{out}:final_fit"})
                elif consumer == "template" and "." not in out:          # template placeholders are plain identifiers
                    nodes.append({"processor": 'template:"{%s}":shown' % out})
                nodes.append({"processor": "TOp0"})
                shapes.append(nodes)
    for nodes in shapes:
        stats["inspect_then_run"] = stats.get("inspect_then_run", 0) + 1
        given = _cfg_view(nodes)
        pub = {"nodes": json.loads(given), "how": "build_pipeline_inspection(nodes); validate_pipeline; Pipeline(nodes).process — the same objects"}
        try:
            insp = build_pipeline_inspection(nodes)
            validate_pipeline(insp)
        except Exception as exc:  # noqa: BLE001
            rep.add_violation("valid-configuration-rejected:model-fitting", f"inspection / validation rejects a valid model-fitting pipeline: {exc!r}", pub)
            continue
        if _cfg_view(nodes) != given:
            rep.add_violation("inspection-mutates-configuration", "build_pipeline_inspection altered the node configuration it was given "
                              "(a pipeline built from it afterwards is not the one that was inspected)", dict(pub, after_inspection=json.loads(_cfg_view(nodes))))
        required = sorted(insp.required_context_keys)
        ctx0 = {k: [1.0, 2.0, 3.0] for k in required}
        try:
            out = Pipeline(nodes).process(Payload(NoDataType(), ContextType(copy.deepcopy(ctx0))))
        except Exception as exc:  # noqa: BLE001
            cls = pipegen.classify(exc)
            if cls[1] in FLOW_FINE:
                rep.add_violation(f"accepted-but-flow-error:{cls[1]}:inspect-then-run-same-objects",
                                  f"inspection and validation report no error and every required key {required} is supplied, yet the run of the "
                                  f"same configuration objects fails on flow: {exc!r}", dict(pub, required=required))
            continue
        created = set().union(*[set(n.created_keys) for n in insp.nodes]) - set().union(*[set(n.suppressed_keys) for n in insp.nodes])
        missing = sorted(k for k in created if k not in out.context.to_dict())
        if missing:
            rep.add_violation("created-keys-untrue:inspect-then-run-same-objects", f"keys reported as created are absent after the run: {missing}",
                              dict(pub, context_keys=sorted(out.context.to_dict())))


def swept_pipelines(rep, stats, rnd, n):
    """Oracle-only stream (the reference analysis has no sweep nodes): pipelines in which a processor is used both inside a
    derive.parameter_sweep block and plainly — the two uses resolve to different classes with different parameters — are
    inspected and, when accepted, run with exactly the reported required keys."""
    from props import c03
    st = stats.setdefault("swept", {"cases": 0, "accepted": 0, "same_processor_twice": 0, "two_sweeps": 0})
    for _ in range(n):
        node, _model, gctx, info = c03.gen_sweep(rnd)
        proc = node["processor"]
        nodes = []
        if info["kind"] != "source":
            nodes.append({"processor": "TSourceDef"})
        plain = {"processor": proc}
        if info["kind"] == "probe":
            plain["context_key"] = rnd.choice(["p1", "p2"])
        r = rnd.random()
        if info["kind"] == "source":
            # a source used plainly first, then swept (the second replaces the data)
            if r < 0.6:
                nodes += [plain, node]
                st["same_processor_twice"] += 1
            else:
                nodes += [node]
            nodes.append(rnd.choice([{"processor": "TMerge"}, {"processor": "slice:TOp0:TColl"}]))
        else:
            if r < 0.35:
                nodes += [plain, node]
                st["same_processor_twice"] += 1
            elif r < 0.7:
                nodes += [node] + ([{"processor": "TMerge"}] if info["kind"] == "operation" else []) + [plain]
                st["same_processor_twice"] += 1
            elif r < 0.85:
                for _try in range(12):
                    node2, _m2, gctx2, info2 = c03.gen_sweep(rnd)
                    if info2["kind"] == info["kind"] == "probe" or info["kind"] != "probe":
                        break
                if info2["kind"] == info["kind"] == "probe":
                    node2 = dict(node2, context_key="res2")
                    nodes += [node, node2]
                    gctx = dict(gctx2, **gctx)
                    st["two_sweeps"] += 1
                else:
                    nodes += [node]
            else:
                nodes += [node]
        if rnd.random() < 0.25:
            # two sweeps over a shared variable name, then a consumer of `<var>_values`: the key is created twice, the second
            # sweep is its reported (and actual) producer
            for _try in range(40):
                n1, _m1, g1, i1 = c03.gen_sweep(rnd)
                n2, _m2, g2, i2 = c03.gen_sweep(rnd)
                shared = sorted(set(n1["derive"]["parameter_sweep"]["variables"]) & set(n2["derive"]["parameter_sweep"]["variables"]))
                if shared and i2["kind"] != "source":
                    break
            else:
                shared = []
            if shared:
                nodes = ([] if i1["kind"] == "source" else [{"processor": "TSourceDef"}]) + [n1]
                if i1["kind"] != "probe":
                    nodes.append({"processor": "TMerge"})
                if i2["kind"] == "probe" and i1["kind"] == "probe":
                    n2 = dict(n2, context_key="res2")
                nodes.append(n2)
                v = rnd.choice(shared)
                nodes.append(rnd.choice([{"processor": f"rename:{v}_values:axis"}, {"processor": f'template:"{{{v}_values}}":axis'}]))
                gctx = dict(g2, **g1)
                st["shared_variable"] = st.get("shared_variable", 0) + 1
        st["cases"] += 1
        try:
            accepted, insp, msg = real_inspect(nodes)
        except Exception as exc:  # noqa: BLE001
            rep.add_violation("inspection-crashes:swept", f"inspection of a pipeline with a sweep node raises {exc!r}", {"nodes": nodes})
            continue
        if not accepted:
            continue
        st["accepted"] += 1
        stats["accepted"] += 1
        check_accepted(rep, stats, rnd, nodes, insp, {"nodes": nodes, "stream": "swept"}, given=gctx)


def run(tier: str) -> int:
    rep = core.Report(PROP, tier)
    rnd = core.rng(PROP)
    pipegen.setup()
    try:
        from props import c01
        c01.translate()          # Tie/C02 instantiates the theorem with the generated precedence table
    except Exception as exc:
        rep.add_broken(f"translator C01 (precedence table) failed: {exc!r}")
    core.prove(rep, PROP, thorough=(tier == "thorough"))
    n_cases = 1200 if tier == "quick" else 12000
    max_len = 6 if tier == "quick" else 8
    stats = {"cases": 0, "accepted": 0, "rejected": 0, "accepted_runs_ok": 0, "accepted_runs_proc_error": 0,
             "superset_runs": 0, "facts_nodes_checked": 0, "origins_checked": 0, "unknown_param_cases": 0,
             "shapes": {"use_before_create": 0, "delete_then_require": 0, "type_change_across_ctx_node": 0, "create_and_require": 0,
                        "falsy_value_created": 0}}
    reqs, cases, oreqs = [], [], []
    oracle_only = set()
    for i in range(n_cases):
        nodes, ctx0, meta = pipegen.gen_pipeline(rnd, max_len=max_len, p_misfit=0.06)
        # bias toward the shapes the property names
        r = rnd.random()
        if r < 0.10:
            k = rnd.choice(["a", "b"])
            nodes = [{"processor": "TSourceDef"}, {"processor": "TOp1" if k == "a" else "TOp2", **({"parameters": {"a": 1}} if k == "b" else {})},
                     {"processor": "TProbe", "context_key": k}] + nodes[:2]
            stats["shapes"]["use_before_create"] += 1
        elif r < 0.18:
            k = rnd.choice(["a", "c"])
            nodes = [{"processor": "TSourceDef"}, {"processor": f"delete:{k}"},
                     rnd.choice([{"processor": f"rename:{k}:e"}, {"processor": f"delete:{k}"}, {"processor": f'template:"{{{k}}}x":{k}'},
                                 {"processor": "TOp1"} if k == "a" else {"processor": f'template:"{{{k}}}":b'}])] + nodes[:2]
            stats["shapes"]["delete_then_require"] += 1
        elif r < 0.25:
            nodes = [{"processor": "TCollSource", "parameters": {"v": 1}} if rnd.random() < 0.5 else {"processor": "TSourceDef"},
                     rnd.choice([{"processor": "rename:a:b"}, {"processor": 'template:"{a}":c'}, {"processor": "delete:a"}]),
                     rnd.choice([{"processor": "TMerge"}, {"processor": "TOp0"}, {"processor": "slice:TOp0:TColl"}])] + nodes[:1]
            stats["shapes"]["type_change_across_ctx_node"] += 1
        elif r < 0.30:
            nodes = [{"processor": "TSourceDef"}, {"processor": 'template:"{c}x":c'}, {"processor": "TProbeP", "context_key": "a"}] + nodes[:2]
            stats["shapes"]["create_and_require"] += 1
        elif r < 0.39 and r >= 0.36:
            # a template whose placeholder is a dotted context key (dotted keys are legal for rename / delete / probes)
            k = rnd.choice(["run.id", "fit.parameters", "a.b"])
            nodes = [{"processor": "TSourceDef"}, {"processor": "TProbe", "context_key": k} if rnd.random() < 0.5 else {"processor": "TOp0"},
                     {"processor": 'template:"exp_{%s}.png":c' % k}] + nodes[:1]
            stats["shapes"]["dotted_template_placeholder"] = stats["shapes"].get("dotted_template_placeholder", 0) + 1
            oracle_only.add(i)         # placeholder grammar is outside the reference analysis: judged on the real code only
        elif r < 0.36:
            # a key created with a falsy value (0, 0.0, False, "", [], null) is created all the same
            k = rnd.choice(["a", "c"])
            falsy = rnd.choice([0, 0.0, False, "", [], None])
            consumer = {"processor": "TOp1"} if k == "a" else {"processor": f'template:"{{{k}}}x":b'}
            nodes = [{"processor": "TSourceDef"}, {"processor": "TProbeEcho", "parameters": {"val": falsy}, "context_key": k}, consumer] + nodes[:1]
            stats["shapes"]["falsy_value_created"] += 1
        cases.append(nodes)
        reqs.append({"m": "c02.analyse", "id": i, "nodes": [pipegen.model_node(n) for n in nodes], "dtype": first_input_type(nodes)})
        oreqs.append({"m": "c02.origins", "id": i, "nodes": [pipegen.model_node(n) for n in nodes], "dtype": first_input_type(nodes)})
    model = None
    omodel = None
    try:
        model = core.Driver().run(reqs)
        omodel = core.Driver().run(oreqs)
    except Exception as exc:
        rep.add_broken(f"correspondence C02: model driver unavailable ({exc!r})")
    origin_disagreements = []
    disagreements = []
    samples = []
    for i, nodes in enumerate(cases):
        stats["cases"] += 1
        accepted, insp, msg = real_inspect(nodes)
        pub = {"nodes": nodes}
        # ---- unknown parameters: same names at inspection and at run time --------------------------
        insp_unknown = {n.index - 1: sorted(p["name"] for p in n.invalid_parameters) for n in insp.nodes if n.invalid_parameters}
        if insp_unknown or any("bogus" in (n.get("parameters") or {}) for n in nodes):
            stats["unknown_param_cases"] += 1
            res, _ = run_with_snapshots(nodes, {})
            rt_names = None
            if res["cls"] and res["cls"][1] == "unknownParam":
                import re
                m = re.search(r"\): (.*)$", res["exc"].replace("')", "").replace('")', ""))
                rt_names = sorted(x.strip(" '\"") for x in m.group(1).split(",")) if m else None
            first = insp_unknown[min(insp_unknown)] if insp_unknown else None
            # a construction error of another node may come first at run time; only compare when the run reports unknown params
            if rt_names is not None and first is not None and rt_names != first and res["outcome"] == "constructError":
                rep.add_violation("unknown-params-differ", "unknown parameters are reported with different names at inspection and at run time",
                                  dict(pub, inspection=insp_unknown, runtime=rt_names))
            if first is None and rt_names is not None:
                rep.add_violation("unknown-param-not-reported", "the run rejects an unknown parameter that inspection did not report",
                                  dict(pub, runtime=rt_names))
            if accepted and insp_unknown:
                rep.add_violation("unknown-param-accepted", "validation accepts a configuration with unknown parameters", dict(pub, inspection=insp_unknown))
        # ---- correspondence with the reference analysis -------------------------------------------------
        if model is not None and i not in oracle_only:
            a = model[i]
            if "err" in a:
                rep.add_broken(f"correspondence C02: driver error {a['err']}")
                model = None
            else:
                m = a["ok"]
                if m["accepted"] != accepted:
                    disagreements.append({"nodes": nodes, "real_accepts": accepted, "reference": m, "real_msg": msg})
                elif accepted and sorted(insp.required_context_keys) != sorted(m["required"]):
                    disagreements.append({"nodes": nodes, "real_required": sorted(insp.required_context_keys), "reference": m})
        if not accepted:
            stats["rejected"] += 1
            continue
        stats["accepted"] += 1
        # ---- correspondence of the reported origins with the model's one-pass origin analysis (theorems origin_*_true) ----
        if omodel is not None and "ok" in omodel[i] and i not in oracle_only:
            for idx, (ni, row) in enumerate(zip(insp.nodes, omodel[i]["ok"])):
                cfg = nodes[idx].get("parameters") or {}
                reported = {}
                for name, o in ni.context_params.items():
                    reported[name] = ["initial"] if o is None else ["node", o - 1]
                for name in ni.default_params:
                    reported[name] = ["default"]
                for name in cfg:
                    reported[name] = ["config"]
                want = {k: v for k, v in row}
                stats["origin_rows_compared"] = stats.get("origin_rows_compared", 0) + 1
                for v in want.values():
                    stats.setdefault("origin_kinds", {}).setdefault(v[0], 0)
                    stats["origin_kinds"][v[0]] += 1
                if reported != want:
                    origin_disagreements.append({"nodes": nodes, "node": idx, "reported": reported, "model": want})
        elif omodel is not None:
            rep.add_broken(f"correspondence C02: driver error {omodel[i].get('err')}")
            omodel = None
        required = check_accepted(rep, stats, rnd, nodes, insp, pub)
        if len(samples) < 4 and i % 251 == 0:
            samples.append({"nodes": nodes, "required": required})
    swept_pipelines(rep, stats, rnd, 150 if tier == "quick" else 1500)
    inspect_then_run_same_objects(rep, stats, rnd)
    for m in MUTATED[:3]:
        rep.add_violation("inspection-mutates-configuration", "build_pipeline_inspection altered the node configuration it was given", m)
    stats["configurations_checked_for_mutation"] = stats["cases"]
    del MUTATED[:]
    if origin_disagreements:
        rep.add_broken(f"correspondence C02: reported parameter origins and the model's origin analysis differ on {len(origin_disagreements)} nodes, "
                       "first " + json.dumps(origin_disagreements[0], default=str)[:700])
        rep.coverage["first_origin_disagreements"] = origin_disagreements[:5]
    if disagreements:
        rep.add_broken(f"correspondence C02: real inspection and the reference analysis differ on {len(disagreements)} pipelines, first "
                       + json.dumps(disagreements[0], default=str)[:700])
        rep.coverage["first_disagreements"] = disagreements[:5]
    rep.coverage.update({
        "evaluations": stats["cases"],
        "distinct_nontrivial": stats["accepted"],
        "rule": "pipelines from the C01 generator (6% misfits) plus the shapes the property names (use-before-create, delete-then-require, "
                "type change across context-only nodes, create-and-require in one node); non-trivial = accepted by inspection+validation "
                "(then run with exactly the required keys and with a random superset)",
        "samples": samples or [{"note": "none"}],
        "traces_validated_against_impl": stats["cases"],
        "generator_distribution": stats,
        "search": "same generator; the named shapes are injected at fixed rates",
    })
    rep.assumptions += [
        "the initial data is NoDataType (what the CLI passes); pipelines start with a source or a context processor",
        "'exactly the keys that appear or disappear' is read modulo keys that already existed / did not exist before the node",
        "a reported origin is accepted when the value the node received equals the value the reported writer left and nothing changed it since",
    ]
    return rep.finish()


def same_value_since(ctx0, snaps, key, origin, idx):
    """Did the value of `key` stay what node `origin` (None = initial context) left, up to node idx (0-based)?"""
    seq = [ctx0] + snaps
    start = 0 if origin is None else origin
    if start >= len(seq) or key not in seq[start]:
        return False
    v = seq[start][key]
    return all(key in s and s[key] == v for s in seq[start:idx + 1])


def replay(path: str) -> int:
    case = json.loads(open(path).read())
    print(json.dumps(case, indent=1, default=str)[:4000])
    c = case.get("case", {})
    if "nodes" in c:
        acc, insp, msg = real_inspect(c["nodes"])
        print("accepted:", acc, "required:", sorted(insp.required_context_keys), msg)
        if "initial_context" in c:
            print(run_with_snapshots(c["nodes"], c["initial_context"]))
    return 0
