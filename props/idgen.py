"""Shared by C04/C05 (and C10): configuration generator with nested parameters and sweeps, cosmetic
YAML rewrites, single-point semantic mutations, conversion of a configuration to the identity model's
input, and extraction of the real identities on the three paths."""
from __future__ import annotations

import copy
import hashlib
import json
import uuid

import yaml

from vlib import core, rt
from props import pipegen, c12

NS = uuid.UUID("00000000-0000-0000-0000-000000000000")
ELEMENT_PARAMS = {"TSource": [("v", None)], "TSourceDef": [("v", "d0")], "TOp1": [("a", None)], "TOp2": [("a", None), ("b", "d2")],
                  "TOp1Def": [("a", "d1")], "TProbeP": [("a", None)], "TOpW": [("a", None)]}
ELEMENT_KIND = {"TSource": "source", "TSourceDef": "source", "TOp1": "operation", "TOp2": "operation", "TOp1Def": "operation",
                "TProbeP": "probe", "TOpW": "operation"}


# ---------------------------------------------------------------------------------------------
# generator
# ---------------------------------------------------------------------------------------------

SHORTHANDS = ["model:TFitModel", "model:TFitModel:degree=2", "model:TFitModel:degree=3,label=x", "model:TFitModel:flag=true,degree=2",
              "model:TFitModel:label=2.5"]


def deep_value(rnd, depth=0):
    r = rnd.random()
    if rnd.random() < 0.07:
        return rnd.choice(SHORTHANDS)          # the documented `model:` parameter shorthand: hashed in its resolved form
    if depth >= 2 or r < 0.45:
        return rnd.choice([1, 2.5, "s", "a b", True, None, 0, -3, "1"])
    if r < 0.7:
        return [deep_value(rnd, depth + 1) for _ in range(rnd.randrange(1, 4))]
    return {k: deep_value(rnd, depth + 1) for k in rnd.sample(["k1", "k2", "zz", "aa", "m"], rnd.randrange(1, 4))}


def gen_expr(rnd, names):
    if rnd.random() < 0.35:
        e = c12.gen_nested_ac(rnd)
    else:
        e = c12.gen(rnd, rnd.choice([2, 3, 4, 5]), ops=["add", "mul", "sub", "add", "mul"])

    def ren(x):
        if x[0] == "var":
            return ["var", rnd.choice(names)]
        out = list(x)
        for i in c12.children_idx(x):
            out[i] = ren(x[i])
        return out
    return ren(e)


def gen_sweep_node(rnd):
    proc = rnd.choice(list(ELEMENT_PARAMS))
    names = rnd.sample(["x", "y", "t"], rnd.choice([1, 2, 2, 3]))
    variables = {}
    for v in names:
        r = rnd.random()
        if r < 0.1:
            # explicit values that are themselves mappings / nested containers: their key order is cosmetic too
            variables[v] = [{"name": rnd.choice(["low", "high"]), "gain": rnd.randrange(1, 20), "opts": {"z": i, "a": [i, {"q": 1, "b": 2}]}}
                            for i in range(rnd.choice([1, 2, 4]))]
            if rnd.random() < 0.5:
                variables[v] = {"values": variables[v]}
        elif r < 0.4:
            variables[v] = [rnd.randrange(0, 9) for _ in range(rnd.choice([1, 3, 4, 8]))]
        elif r < 0.75:
            lo = rnd.choice([1.0, 0.5, 2.0])
            variables[v] = {"lo": lo, "hi": lo + rnd.choice([1.0, 2.0]), "steps": rnd.randrange(1, 5)}
            if rnd.random() < 0.3:
                variables[v]["scale"] = "log"
            if rnd.random() < 0.3:
                variables[v]["endpoint"] = False
        else:
            variables[v] = {"from_context": "seq_" + v}
    exprs = {}
    for (p, d) in ELEMENT_PARAMS[proc]:
        if rnd.random() < 0.8:
            exprs[p] = c12.src(gen_expr(rnd, names))
    node = {"processor": proc, "derive": {"parameter_sweep": {"parameters": exprs, "variables": variables,
                                                              "mode": rnd.choice(["combinatorial", "by_position"]),
                                                              "broadcast": rnd.random() < 0.4}}}
    if ELEMENT_KIND[proc] != "probe":
        node["derive"]["parameter_sweep"]["collection"] = "TColl"
    else:
        node["context_key"] = "res"
    extra = {p: deep_value(rnd) for (p, d) in ELEMENT_PARAMS[proc] if p not in exprs and rnd.random() < 0.6}
    if extra:
        node["parameters"] = extra
    return node


def gen_config(rnd, with_sweep=0.5):
    nodes = []
    n = rnd.randrange(1, 6)
    for i in range(n):
        if rnd.random() < with_sweep / n * 2 and i in (0, 1):
            nodes.append(gen_sweep_node(rnd))
            continue
        if rnd.random() < 0.08:
            # the framework's own model-fitting context processor: some of its parameters are consumed by the node factory
            # (variable mapping, output key) — they are part of the configuration all the same
            params = {"fitting_model": rnd.choice(SHORTHANDS)}
            r = rnd.random()
            if r < 0.5:
                params.update({"independent_var_key": rnd.choice(["xs", "t"]), "dependent_var_key": rnd.choice(["ys", "v"])})
            if rnd.random() < 0.6:
                params["context_key"] = rnd.choice(["fit.k", "fit2"])
            nodes.append({"processor": "ModelFittingContextProcessor", "parameters": params})
            continue
        proc = rnd.choice(["TSource", "TSourceDef", "TOp1", "TOp2", "TOp1Def", "TOp0", "TOpW", "TProbe", "TProbeP", "rename:a:b",
                           "delete:a", 'template:"x_{a}":out', "TSink", "slice:TOp1:TColl"])
        if proc in ("rename:a:b", "delete:a") and rnd.random() < 0.5:
            # key names that differ only in a separator, or that contain the words the generated class names are built from
            k1 = rnd.choice(["run.id", "run_id", "meta.tag", "meta_tag", "a_to_b", "a", "x.y.z", "x_y.z"])
            k2 = rnd.choice(["label", "b_to_c", "c", "out.key", "out_key"])
            proc = f"rename:{k1}:{k2}" if proc.startswith("rename") else f"delete:{k1}"
        node = {"processor": proc}
        if rnd.random() < 0.7:
            base = proc.split(":")[1] if proc.startswith("slice:") else proc
            names = [p for p, _ in pipegen.LIB.get(base, {}).get("params", [])] or ["a"]
            if not proc.startswith(("rename:", "delete:", "template:")):
                node["parameters"] = {p: deep_value(rnd) for p in names}
        if "Probe" in proc:
            node["context_key"] = rnd.choice(["p1", "p2"])
        nodes.append(node)
    if rnd.random() < 0.3 and len(nodes) >= 2:
        nodes.append(copy.deepcopy(nodes[rnd.randrange(len(nodes))]))      # textually identical nodes
    return nodes


# ---------------------------------------------------------------------------------------------
# cosmetic rewrites (meaning-preserving: yaml.safe_load gives deep-equal values of equal types)
# ---------------------------------------------------------------------------------------------

def shuffle_keys(v, rnd):
    if isinstance(v, dict):
        items = [(k, shuffle_keys(x, rnd)) for k, x in v.items()]
        rnd.shuffle(items)
        return dict(items)
    if isinstance(v, list):
        return [shuffle_keys(x, rnd) for x in v]
    return v


def rewrite_expressions(nodes, rnd, inner_only=False):
    """Re-order / re-associate + and * operands inside sweep expressions (`inner_only`: keep the outermost chain's
    order as written and re-order inside its operands only)."""
    import ast as pyast
    nodes = copy.deepcopy(nodes)
    for n in nodes:
        sw = (n.get("derive") or {}).get("parameter_sweep")
        if not sw:
            continue
        for p, src in list(sw["parameters"].items()):
            e = parse_expr(src)
            if e is not None:
                sw["parameters"][p] = c12.src(c12.inner_rewrite(e, rnd) if inner_only else c12.ac_rewrite(e, rnd))
    return nodes


def parse_expr(src):
    """Python source of the C12 fragment -> expression tree (None if outside the fragment)."""
    import ast as A
    try:
        t = A.parse(src, mode="eval").body
    except SyntaxError:
        return None
    ops = {A.Add: "add", A.Sub: "sub", A.Mult: "mul", A.FloorDiv: "floordiv", A.Mod: "mod", A.Pow: "pow"}
    cmps = {A.Eq: "eq", A.NotEq: "ne", A.Lt: "lt", A.LtE: "le", A.Gt: "gt", A.GtE: "ge"}

    def go(n):
        if isinstance(n, A.Name):
            return ["var", n.id]
        if isinstance(n, A.Constant) and isinstance(n.value, int) and not isinstance(n.value, bool) and n.value >= 0:
            return ["const", n.value]
        if isinstance(n, A.BinOp) and type(n.op) in ops:
            return ["bin", ops[type(n.op)], go(n.left), go(n.right)]
        if isinstance(n, A.UnaryOp) and isinstance(n.op, A.USub):
            return ["neg", go(n.operand)]
        if isinstance(n, A.Call) and isinstance(n.func, A.Name) and not n.keywords:
            if n.func.id == "abs" and len(n.args) == 1:
                return ["call1", "abs", go(n.args[0])]
            if n.func.id in ("min", "max") and len(n.args) == 2:
                return ["call2", n.func.id, go(n.args[0]), go(n.args[1])]
        if isinstance(n, A.Compare) and len(n.ops) == 1 and type(n.ops[0]) in cmps:
            return ["cmp", cmps[type(n.ops[0])], go(n.left), go(n.comparators[0])]
        if isinstance(n, A.IfExp):
            return ["ite", go(n.test), go(n.body), go(n.orelse)]
        raise ValueError
    try:
        return go(t)
    except ValueError:
        return None


def cosmetic_yaml_variants(nodes, rnd):
    """YAML texts that all load to deep-equal configurations (equal types)."""
    doc = {"extensions": ["props.components"], "pipeline": {"nodes": nodes}}
    out = []
    for style in range(5):
        d = shuffle_keys(doc, rnd) if style else doc
        if style == 1:
            txt = yaml.safe_dump(d, default_flow_style=True, sort_keys=False)
        elif style == 2:
            txt = yaml.safe_dump(d, default_flow_style=False, sort_keys=False, indent=6, width=30)
        elif style == 3:
            txt = "# leading comment\n" + yaml.safe_dump(d, default_flow_style=False, sort_keys=True) + "\n# trailing comment\n"
        elif style == 4:
            txt = yaml.safe_dump(d, default_flow_style=None, sort_keys=False, default_style='"')
        else:
            txt = yaml.safe_dump(d, sort_keys=False)
        loaded = yaml.safe_load(txt)
        if typed_equal(loaded, doc):
            out.append(txt)
    return out


def typed_equal(a, b):
    if type(a) is not type(b):
        return False
    if isinstance(a, dict):
        return a.keys() == b.keys() and all(typed_equal(a[k], b[k]) for k in a)
    if isinstance(a, list):
        return len(a) == len(b) and all(typed_equal(x, y) for x, y in zip(a, b))
    return a == b


# ---------------------------------------------------------------------------------------------
# real identities
# ---------------------------------------------------------------------------------------------

def real_payload(nodes):
    pipegen.setup()
    from semantiva.inspection import build_inspection_payload
    return build_inspection_payload(copy.deepcopy(nodes))


def real_ids(nodes):
    """Identities on the inspection path and on the Pipeline-construction path."""
    pipegen.setup()
    from semantiva.pipeline import Pipeline
    from semantiva.pipeline.graph_builder import compute_pipeline_id
    payload = real_payload(nodes)
    pipe = Pipeline(copy.deepcopy(nodes))
    return {"semantic_id": payload["identity"]["semantic_id"], "config_id": payload["identity"]["config_id"],
            "uuids": [n["uuid"] for n in payload["pipeline_spec_canonical"]["nodes"]],
            "semids": [n["node_semantic_id"] for n in payload["pipeline_spec_canonical"]["nodes"]],
            "pipeline_uuids": [n["node_uuid"] for n in pipe.canonical_spec["nodes"]],
            "pipeline_id": compute_pipeline_id(pipe.canonical_spec), "payload": payload}


# ---------------------------------------------------------------------------------------------
# configuration -> model input
# ---------------------------------------------------------------------------------------------

def to_j(v):
    if isinstance(v, dict):
        return {"o": [[str(k), to_j(x)] for k, x in v.items()]}
    if isinstance(v, (list, tuple)):
        return {"a": [to_j(x) for x in v]}
    return {"t": json.dumps(v)}


def doc_scalar(text):
    low = text.lower()
    if low in ("true", "false"):
        return low == "true"
    for caster in (int, float):
        try:
            return caster(text)
        except ValueError:
            pass
    return text


def resolve_doc(v):
    """Documented meaning of parameter shorthands (workflows_fitting_models.rst): "model:<Class>:k=v,…" denotes the
    descriptor {class: <fully qualified name>, kwargs: {k: v, …}}; identities are those of the resolved configuration."""
    if isinstance(v, dict):
        return {k: resolve_doc(x) for k, x in v.items()}
    if isinstance(v, list):
        return [resolve_doc(x) for x in v]
    if isinstance(v, str) and v.startswith("model:"):
        cls, _, args = v[len("model:"):].partition(":")
        kwargs = {}
        for item in args.split(","):
            if item:
                k, _, val = item.partition("=")
                kwargs[k] = doc_scalar(val)
        from props import components as C
        return {"class": fqcn(cls) if hasattr(C, cls) else "<unresolvable>." + cls, "kwargs": kwargs}
    return v


def fqcn(name):
    from props import components as C
    cls = getattr(C, name)
    return f"{cls.__module__}.{cls.__qualname__}"


def domain_sig(spec):
    """What `variable_domain_signature` documents: ranges by their parameters, sequences by count, head/tail sample and a digest of all values."""
    if isinstance(spec, list) or (isinstance(spec, dict) and "values" in spec):
        values = list(spec if isinstance(spec, list) else spec["values"])
        digest = hashlib.sha256(json.dumps(values, sort_keys=True, separators=(",", ":")).encode()).hexdigest()
        return {"kind": "sequence", "count": len(values), "sample": {"head": values[:3], "tail": values[-3:], "digest_sha256": digest}}
    if "from_context" in spec:
        return {"kind": "from_context", "key": spec["from_context"]}
    return {"kind": "range", "lo": float(spec["lo"]), "hi": float(spec["hi"]), "steps": int(spec["steps"]),
            "scale": str(spec.get("scale", "linear")), "endpoint": bool(spec.get("endpoint", True))}


def sweep_cfg(node):
    from semantiva.metadata import normalize_expression_sig_v1
    sw = node["derive"]["parameter_sweep"]
    proc = node["processor"]
    bound = list(sw["parameters"])
    return {"elementRef": fqcn(proc),
            "exprSigs": [[p, json.dumps(normalize_expression_sig_v1(src)["ast"])] for p, src in sw["parameters"].items()],
            "varDomains": [[v, to_j(domain_sig(spec))] for v, spec in sw["variables"].items()],
            "mode": sw.get("mode", "combinatorial"), "broadcast": bool(sw.get("broadcast", False)),
            "collection": fqcn(sw["collection"]) if sw.get("collection") else None,
            "requiredExternal": [p for p, d in ELEMENT_PARAMS[proc] if p not in bound and d is None],
            "contextKeys": [spec["from_context"] for spec in sw["variables"].values() if isinstance(spec, dict) and "from_context" in spec]}


def processor_ref(node):
    """The string the canonical node carries for the processor (for sweeps: the generated class, read off the code)."""
    if "derive" in node:
        from semantiva.pipeline.node_preprocess import preprocess_node_config
        cls = preprocess_node_config(copy.deepcopy(node))["processor"]
        return f"{cls.__module__}.{cls.__qualname__}"
    return node["processor"]


def model_nodes(nodes):
    return [{"processor_ref": json.dumps(processor_ref(n))[1:-1], "params": to_j(resolve_doc(n.get("parameters") or {})),
             "sweep": (sweep_cfg(n) if "derive" in n else None)} for n in nodes]


def model_ids(nodes, flags, driver=None):
    """Identities computed from the model's pre-images (hashed here with hashlib/uuid)."""
    drv = driver or core.Driver()
    mn = model_nodes(nodes)
    a = drv.run([{"m": "c04.pre", "id": 0, "nodes": mn, **flags}])[0]
    if "err" in a:
        raise RuntimeError(a["err"])
    uuids = [str(uuid.uuid5(NS, pre)) for pre in a["ok"]["uuidPre"]]
    semids = [("none" if pre is None else hashlib.sha256(pre.encode()).hexdigest()) for pre in a["ok"]["nodeSemPre"]]
    b = drv.run([{"m": "c04.pre", "id": 1, "nodes": mn, "uuids": uuids, "semids": semids, **flags}])[0]
    if "err" in b:
        raise RuntimeError(b["err"])
    return {"uuids": uuids, "semids": semids,
            "pipeline_id": "plid-" + hashlib.sha256(b["ok"]["graphPre"].encode()).hexdigest(),
            "semantic_id": "plsemid-" + hashlib.sha256(b["ok"]["semanticPre"].encode()).hexdigest(),
            "config_id": "plcid-" + hashlib.sha256(b["ok"]["configPre"].encode()).hexdigest()}


def extract_flags():
    """Behavioural facts about the real code that the model is parametric in."""
    pipegen.setup()
    a = {"processor": "TSource", "derive": {"parameter_sweep": {"parameters": {"v": "x"}, "collection": "TColl",
         "variables": {"x": {"from_context": "k1"}, "y": {"from_context": "k2"}}}}}
    b = copy.deepcopy(a)
    b["derive"]["parameter_sweep"]["variables"] = {"y": {"from_context": "k2"}, "x": {"from_context": "k1"}}
    pa, pb = real_payload([a]), real_payload([b])
    sorted_keys = pa["pipeline_spec_canonical"]["nodes"][0]["node_semantic_id"] == pb["pipeline_spec_canonical"]["nodes"][0]["node_semantic_id"]
    c = copy.deepcopy(a)
    c["derive"]["parameter_sweep"]["parameters"] = {"v": "x + 1"}
    pc = real_payload([c])
    with_node_sem = pa["identity"]["semantic_id"] != pc["identity"]["semantic_id"]
    return {"sortedKeys": bool(sorted_keys), "withNodeSem": bool(with_node_sem)}


def translate():
    flags = extract_flags()
    body = "namespace SemantivaModel.Generated.C04\n\n"
    body += "/-- does the code sort the `context_keys` list of a sweep's dependencies? -/\n"
    body += f"def sortedKeys : Bool := {core.lean_bool(flags['sortedKeys'])}\n\n"
    body += "/-- does the pipeline-level semantic id depend on the node semantic ids of preprocessed nodes? -/\n"
    body += f"def withNodeSem : Bool := {core.lean_bool(flags['withNodeSem'])}\n\nend SemantivaModel.Generated.C04\n"
    core.write_generated("C04", body, ["semantiva/data_processors/parametric_sweep_factory.py, semantiva/metadata/semantic_id.py (two probes of build_inspection_payload)"])
    return flags
