"""C05 — identities discriminate: a change of meaning changes semantic and config ID.

prove      : Properties/C05.lean (tree-level injectivity of the pre-images: equal canonical trees agree on
             processor, parameters at any depth, position, and every part of a sweep definition;
             distinct positions give distinct node pre-images) + Tie/C05.lean (`withNodeSem = true`)
correspond : shared with C04 (ids recomputed from the model's pre-images == real ids)
oracle     : (real code only) every single-point semantic mutation of a generated configuration changes
             semantic_id and config_id and the UUID or node semantic id of the affected node; all node
             UUIDs of one pipeline are distinct, textually identical nodes included.
"""
from __future__ import annotations

import copy
import json

from vlib import core, rt
from props import pipegen, idgen, c12

PROP = "C05"


# configurations that are part of every run, whatever the seed: shorthands with dotted keys, a sweep with a variable no expression
# reads, the framework's model-fitting processor next to a sweep (ordinary and swept nodes in one pipeline)
FIXED_CONFIGS = [
    [{"processor": "TSourceDef"}, {"processor": "rename:stats.mean:factor"}, {"processor": "delete:run.id"},
     {"processor": "slice:TOp1:TColl", "parameters": {"a": 1}}, {"processor": 'template:"x_{a}":out'}],
    [{"processor": "TSource", "derive": {"parameter_sweep": {"parameters": {"v": "2 * t"}, "variables": {"t": [1, 2, 3], "rep": [0, 1]},
                                                              "mode": "combinatorial", "broadcast": False, "collection": "TColl"}}},
     {"processor": "TMerge"}, {"processor": "TOp2", "parameters": {"a": True, "b": 1}}],
    [{"processor": "TSourceDef"}, {"processor": "TOp1", "parameters": {"a": {"k1": [1, {"m": 0}], "zz": "s"}}},
     {"processor": "TProbeP", "derive": {"parameter_sweep": {"parameters": {"a": "x + y"}, "variables": {"x": {"lo": 1.0, "hi": 2.0, "steps": 2}, "y": {"from_context": "seq_y"}},
                                                               "mode": "by_position", "broadcast": True}}, "context_key": "res"},
     {"processor": "ModelFittingContextProcessor", "parameters": {"fitting_model": "model:TFitModel:degree=2", "independent_var_key": "xs", "dependent_var_key": "ys"}}],
]


def mutations(nodes, rnd):
    """(operator, mutated nodes, index of the affected node or None for structural changes)"""
    out = []
    for i, n in enumerate(nodes):
        sweep = "derive" in n
        # processor of node i
        if not sweep:
            alt = {"TOp1": "TOp2", "TOp2": "TOp1", "TSource": "TSourceDef", "TSourceDef": "TSource", "TProbe": "TProbeP", "TProbeP": "TProbe",
                   "TOp0": "TOp1Def", "TOp1Def": "TOp0", "TOpW": "TOp1", "TSink": "TPayloadSink", "rename:a:b": "rename:a:c",
                   "delete:a": "delete:b", 'template:"x_{a}":out': 'template:"y_{a}":out', "slice:TOp1:TColl": "slice:TOp2:TColl"}.get(n["processor"])
            if alt:
                m = copy.deepcopy(nodes)
                m[i]["processor"] = alt
                out.append(("processor", m, i))
            # every segment of a shorthand (`rename:SRC:DST`, `delete:KEY`, `slice:OP:COLL`) is part of what the node does
            segs = n["processor"].split(":")
            if len(segs) >= 2 and segs[0] in ("rename", "delete", "slice"):
                for j in range(1, len(segs)):
                    new = list(segs)
                    if segs[0] == "slice":
                        new[j] = {"TOp1": "TOp2", "TOp2": "TOp1", "TOp0": "TOp1Def", "TColl": "TColl2", "TColl2": "TColl"}.get(segs[j])
                        if new[j] is None:
                            continue
                        alts = [new[j]]
                    else:
                        # all three spellings, not a drawn one: which of them collides depends on the segment
                        alts = [segs[j] + "x", segs[j].replace(".", "_") if "." in segs[j] else segs[j] + ".v",
                                segs[j].upper() if segs[j].upper() != segs[j] else segs[j].lower()]
                    for alt_seg in alts:
                        if alt_seg == segs[j]:
                            continue
                        new[j] = alt_seg
                        m = copy.deepcopy(nodes)
                        m[i]["processor"] = ":".join(new)
                        out.append((f"processor-shorthand-segment:{segs[0]}:{j}", m, i))
        # a parameter value at every path
        for path, leaf in leaf_paths(n.get("parameters") or {}):
            m = copy.deepcopy(nodes)
            set_path(m[i]["parameters"], path, mutate_scalar(leaf, rnd))
            out.append(("parameter-value:depth%d" % len(path), m, i))
            # the smallest changes of a value are changes too: edge whitespace, letter case, 1 vs 1.0 vs True, "" vs null
            for label, new in subtle_variants(leaf):
                m = copy.deepcopy(nodes)
                set_path(m[i]["parameters"], path, new)
                out.append((f"parameter-value-subtle:{label}", m, i))
        if sweep:
            sw = n["derive"]["parameter_sweep"]
            m = copy.deepcopy(nodes)
            other = {"TSource": "TSourceDef", "TSourceDef": "TSource", "TOp1": "TOp1Def", "TOp1Def": "TOp1", "TOp2": None, "TProbeP": None, "TOpW": "TOp1"}.get(n["processor"])
            if other and set(sw["parameters"]) <= {p for p, _ in idgen.ELEMENT_PARAMS[other]}:
                m[i]["processor"] = other
                out.append(("sweep-wrapped-processor", m, i))
            for p, src in sw["parameters"].items():
                e = idgen.parse_expr(src)
                if e is None:
                    continue
                muts = c12.mutations(e, rnd)
                for mut in muts[:3]:
                    if mut[0] == "swap-noncomm":
                        continue
                    m = copy.deepcopy(nodes)
                    m[i]["derive"]["parameter_sweep"]["parameters"][p] = c12.src(mut[1])
                    out.append(("sweep-expression:" + mut[0], m, i))
            for v, spec in sw["variables"].items():
                m = copy.deepcopy(nodes)
                tgt = m[i]["derive"]["parameter_sweep"]["variables"]
                if isinstance(spec, list) or (isinstance(spec, dict) and "values" in spec):
                    seq = spec if isinstance(spec, list) else spec["values"]
                    wrap = (lambda x: x) if isinstance(spec, list) else (lambda x: {"values": x})
                    k = rnd.randrange(len(seq))
                    new_seq = copy.deepcopy(list(seq))
                    label = "sequence-element"
                    if isinstance(seq[k], dict):
                        # an element that is a mapping: change one leaf somewhere inside it
                        where = rnd.choice(["gain", "opts.z", "opts.a.1.b"])
                        if where == "gain":
                            new_seq[k]["gain"] += 100
                        elif where == "opts.z":
                            new_seq[k]["opts"]["z"] += 1
                        else:
                            new_seq[k]["opts"]["a"][1]["b"] += 1
                        label = "sequence-element-nested-leaf"
                    else:
                        new_seq[k] = seq[k] + 100
                    tgt[v] = wrap(new_seq)
                    out.append((f"sweep-domain:{label}-{'middle' if 3 <= k < len(seq) - 3 else 'edge'}", m, i))
                    m2 = copy.deepcopy(nodes)
                    m2[i]["derive"]["parameter_sweep"]["variables"][v] = wrap(copy.deepcopy(list(seq)) + [7])
                    out.append(("sweep-domain:sequence-length", m2, i))
                elif "from_context" in spec:
                    tgt[v] = {"from_context": spec["from_context"] + "_2"}
                    out.append(("sweep-domain:from_context-key", m, i))
                else:
                    field = rnd.choice(["lo", "hi", "steps", "scale", "endpoint"])
                    tgt[v] = dict(spec)
                    if field == "lo":
                        tgt[v]["lo"] = spec["lo"] / 2
                    elif field == "hi":
                        tgt[v]["hi"] = spec["hi"] + 1.5
                    elif field == "steps":
                        tgt[v]["steps"] = spec["steps"] + 1
                    elif field == "scale":
                        tgt[v]["scale"] = "log" if spec.get("scale", "linear") == "linear" else "linear"
                    else:
                        tgt[v]["endpoint"] = not spec.get("endpoint", True)
                    out.append(("sweep-domain:range-" + field, m, i))
            m = copy.deepcopy(nodes)
            m[i]["derive"]["parameter_sweep"]["mode"] = "by_position" if sw.get("mode") == "combinatorial" else "combinatorial"
            out.append(("sweep-mode", m, i))
            m = copy.deepcopy(nodes)
            m[i]["derive"]["parameter_sweep"]["broadcast"] = not sw.get("broadcast", False)
            out.append(("sweep-broadcast", m, i))
            if sw.get("collection"):
                m = copy.deepcopy(nodes)
                m[i]["derive"]["parameter_sweep"]["collection"] = "TColl2"
                out.append(("sweep-collection", m, i))
    # number and order of nodes
    m = copy.deepcopy(nodes)
    m.insert(rnd.randrange(len(nodes) + 1), {"processor": "TOp0"})
    out.append(("insert-node", m, None))
    if len(nodes) > 1:
        m = copy.deepcopy(nodes)
        del m[rnd.randrange(len(nodes))]
        out.append(("delete-node", m, None))
        k = rnd.randrange(len(nodes) - 1)
        if nodes[k] != nodes[k + 1]:
            m = copy.deepcopy(nodes)
            m[k], m[k + 1] = m[k + 1], m[k]
            out.append(("swap-nodes", m, None))
    return out


def leaf_paths(v, path=()):
    if isinstance(v, dict):
        for k, x in v.items():
            yield from leaf_paths(x, path + (k,))
    elif isinstance(v, list):
        for i, x in enumerate(v):
            yield from leaf_paths(x, path + (i,))
    else:
        yield path, v


def set_path(v, path, new):
    for p in path[:-1]:
        v = v[p]
    v[path[-1]] = new


def subtle_variants(x):
    if isinstance(x, str):
        out = [("trailing-space", x + " "), ("leading-space", " " + x), ("trailing-newline", x + "\n")]
        if x.swapcase() != x:
            out.append(("letter-case", x.swapcase()))
        if x == "":
            out.append(("empty-vs-null", None))
        return out
    if isinstance(x, bool):
        return [("bool-vs-int", int(x))]
    if isinstance(x, int):
        return [("int-vs-float", float(x)), ("int-vs-string", str(x))]
    if isinstance(x, float):
        return [("float-vs-string", str(x))]
    if x is None:
        return [("null-vs-empty", ""), ("null-vs-string", "null")]
    return []


def mutate_scalar(x, rnd):
    if isinstance(x, bool):
        return not x
    if isinstance(x, (int, float)):
        return x + 1
    if isinstance(x, str):
        return x + "_m"
    return "was_null"


def run(tier: str) -> int:
    rep = core.Report(PROP, tier)
    rnd = core.rng(PROP)
    pipegen.setup()
    try:
        flags = idgen.translate()
    except Exception as exc:
        rep.add_broken(f"translator C04/C05 failed: {exc!r}")
        flags = None
    rep.coverage["flags"] = flags
    core.prove(rep, PROP, thorough=(tier == "thorough"))
    n_cases = 60 if tier == "quick" else 600
    stats = {"configs": 0, "mutants": 0, "by_operator": {}, "distinct_uuid_checks": 0, "identical_node_pairs": 0}
    samples = []
    for i in range(n_cases):
        nodes = copy.deepcopy(FIXED_CONFIGS[i]) if i < len(FIXED_CONFIGS) else idgen.gen_config(rnd, with_sweep=0.8)
        stats["configs"] += 1
        base = idgen.real_ids(nodes)
        stats["distinct_uuid_checks"] += 1
        stats["identical_node_pairs"] += sum(1 for a in range(len(nodes)) for b in range(a + 1, len(nodes)) if nodes[a] == nodes[b])
        if len(set(base["uuids"])) != len(base["uuids"]):
            rep.add_violation("node-uuids-not-distinct", "two nodes of one pipeline have the same UUID", {"nodes": nodes, "uuids": base["uuids"]})
        meaning = [idgen.to_j(idgen.resolve_doc(n.get("parameters") or {})) for n in nodes]
        for op, mutant, idx in mutations(nodes, rnd):
            if op.startswith("parameter-value") and [idgen.to_j(idgen.resolve_doc(n.get("parameters") or {})) for n in mutant] == meaning:
                # e.g. "model:M:degree=2" -> "model:M:degree=2 ": the shorthand denotes the same descriptor, not a semantic change
                stats["same_meaning_skipped"] = stats.get("same_meaning_skipped", 0) + 1
                continue
            stats["mutants"] += 1
            stats["by_operator"][op] = stats["by_operator"].get(op, 0) + 1
            try:
                got = idgen.real_ids(mutant)
            except Exception as exc:
                continue          # the mutation made the configuration unloadable: nothing to compare
            pub = {"nodes": nodes, "mutant": mutant, "operator": op, "node": idx}
            for k in ("semantic_id", "config_id"):
                if got[k] == base[k]:
                    rep.add_violation(f"mutation-keeps-{k}:{op.split(':')[0]}:{op.split(':')[1] if ':' in op else ''}",
                                      f"a change of {op} at node {idx} leaves {k} unchanged", dict(pub, **{k: base[k]}))
            if idx is not None and len(got["uuids"]) == len(base["uuids"]):
                if got["uuids"][idx] == base["uuids"][idx] and got["semids"][idx] == base["semids"][idx]:
                    rep.add_violation(f"mutation-keeps-node-identity:{op.split(':')[0]}",
                                      f"a change of {op} at node {idx} leaves both its UUID and its node semantic id unchanged", pub)
        if len(samples) < 3 and i % 17 == 0:
            samples.append({"nodes": nodes, "operators": sorted({op for op, _, _ in mutations(nodes, rnd)})})
    rep.coverage.update({
        "evaluations": stats["mutants"] + stats["configs"],
        "distinct_nontrivial": stats["mutants"],
        "rule": "random configurations (80% with a parameter sweep); every single-point mutation: processor of node i, every parameter leaf at every "
                "depth, wrapped processor / expression / each variable domain field / mode / broadcast / collection of a sweep, insert / delete / swap "
                "of nodes; non-trivial = a mutant that loads",
        "samples": samples,
        "generator_distribution": stats,
        "search": "same mutation operators",
    })
    rep.assumptions += [
        "'IDs differ' follows from 'pre-image trees differ' by collision resistance of SHA-256/UUIDv5 and injectivity of the JSON rendering (trusted)",
        "decimal rendering of naturals is injective (hypothesis hnum of nodeCanon_distinct_positions)",
    ]
    return rep.finish()


def replay(path: str) -> int:
    case = json.loads(open(path).read())
    print(json.dumps(case, indent=1, default=str)[:4000])
    c = case.get("case", {})
    if "nodes" in c and "mutant" in c:
        a, b = idgen.real_ids(c["nodes"]), idgen.real_ids(c["mutant"])
        for k in ("semantic_id", "config_id", "uuids", "semids"):
            print(k, a[k], b[k])
    return 0
