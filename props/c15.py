"""C15 — every queued job's future completes once, with that job's own result.

translate  : probe of the worker's failure path (does a job whose pipeline raises get a status message that completes
             its Future?)                                                                   -> Generated/C15.lean
prove      : Properties/C15.lean over the protocol model Model/JobQueue.lean: conservation invariant by induction over
             any event history; done_once, done_own_result, quiescent_all_done, no_cross_talk
correspond : event histories of real master/worker runs (transport instrumented by a logging subclass in the
             harness) replayed in the Lean model: every real event must be enabled and the final futures equal
oracle     : (real code only) batches of distinct jobs x 1..4 workers x thread switch intervals x enqueue timing x
             a failing job at every position: each Future completes, with the result of running its own pipeline
             directly plus a job_id annotation; a failing job's Future completes exceptionally.
"""
from __future__ import annotations

import copy
import json
import queue
import sys
import threading
import time

from vlib import core, rt
from props import pipegen

PROP = "C15"


# ---------------------------------------------------------------------------------------------
# instrumented transport and fast queue (harness side only)
# ---------------------------------------------------------------------------------------------

def make_transport(events: list):
    pipegen.setup()
    from semantiva.execution.transport.in_memory import InMemorySemantivaTransport, InMemorySubscription

    lock = threading.Lock()

    class LoggingSubscription(InMemorySubscription):
        def __init__(self, queues, pattern, who):
            super().__init__(queues, pattern)
            self._who = who

        def __iter__(self):
            for msg in super().__iter__():
                jid = (msg.metadata or {}).get("job_id")
                if jid is None:
                    try:
                        jid = msg.context.get_value("job_id")
                    except Exception:
                        jid = None
                with lock:
                    events.append(("take" if self._pattern.endswith(".cfg") else "collect", jid, threading.current_thread().name))
                yield msg

    class LoggingTransport(InMemorySemantivaTransport):
        def publish(self, channel, data, context, metadata=None, require_ack=False):
            kind = "publish" if channel.endswith(".cfg") else "status"
            jid = channel.split(".")[1]
            failed = bool((metadata or {}).get("error") is not None)
            with lock:
                events.append((kind, jid, threading.current_thread().name, failed))
            return super().publish(channel, data, context, metadata=metadata, require_ack=require_ack)

        def subscribe(self, channel, *, callback=None):
            return LoggingSubscription(self._queues, channel, threading.current_thread().name)

    return LoggingTransport()


class FastQueue(queue.Queue):
    """The orchestrator's FIFO with its 0.2 s polling timeout shortened (the harness' clock, not the protocol)."""

    def get(self, block=True, timeout=None):
        return super().get(block=block, timeout=None if timeout is None else min(timeout, 0.002))


def quiet_logger():
    from semantiva.logger import Logger
    lg = Logger()
    try:
        lg.set_verbose_level("CRITICAL")
    except Exception:
        pass
    return lg


# ---------------------------------------------------------------------------------------------
# jobs
# ---------------------------------------------------------------------------------------------

def gen_jobs(rnd, n, fail_at=None):
    jobs = []
    for k in range(n):
        kind = rnd.choice(["source", "source", "data", "empty-coll", "ctx-only-params", "source", "data", "empty-coll", "ctx-only-params", "no-nodes", "ctx-collection"])
        ctx = {"a": f"ctx{k}", "tag": k}
        data = None
        if kind == "source":
            nodes = [{"processor": "TSource", "parameters": {"v": f"job{k}"}}, {"processor": "TOp1"},
                     {"processor": "TProbe", "context_key": f"p{k % 3}"}]
        elif kind == "data":
            data = ("TData", ["init", k])
            nodes = [{"processor": "TOp2", "parameters": {"a": k}}, {"processor": "TOpW"}]
        elif kind == "ctx-collection":
            # a collection of elements, each with its own context (ContextCollectionType), through sliced nodes
            data = ("TColl", [["el", k, j] for j in range(3)])
            nodes = [{"processor": "slice:TOp0:TColl"}, {"processor": "slice:TProbe:TColl", "context_key": "probed"}]
            ctx = {"tag": k, "__collection__": {"global": {"shared": f"g{k}"}, "items": [{"item": f"i{k}_{j}"} for j in range(3)]}}
        elif kind == "no-nodes":
            # boundary of the pipeline length: zero nodes is a valid pipeline, the payload comes back unchanged
            data = ("TData", ["untouched", k])
            nodes = []
        elif kind == "empty-coll":
            data = ("TColl", [])
            nodes = [{"processor": "TMerge"}, {"processor": "TOp1Def", "parameters": {"a": f"m{k}"}}]
        else:
            nodes = [{"processor": "TSourceDef"}, {"processor": "TOp2"}, {"processor": "rename:a:a2"}]
            ctx["b"] = f"b{k}"
        if fail_at == k:
            how = rnd.choice(["proc", "proc", "kw-only-exception", "unknown-parameter", "unresolved-parameter", "type-mismatch",
                              "empty-message", "empty-message", "multi-line-message"])
            if how == "proc":
                nodes.insert(rnd.randrange(min(1, len(nodes)), len(nodes) + 1), {"processor": "TFail"})
            elif how == "kw-only-exception":
                nodes.insert(rnd.randrange(min(1, len(nodes)), len(nodes) + 1), {"processor": "TFailKw"})
            elif how == "empty-message":
                nodes.insert(rnd.randrange(min(1, len(nodes)), len(nodes) + 1), {"processor": "TFailEmpty"})
            elif how == "multi-line-message":
                nodes.insert(rnd.randrange(min(1, len(nodes)), len(nodes) + 1),
                             {"processor": "TFailMsg", "parameters": {"msg": rnd.choice(["\nsecond line only", "first\nsecond", " ", "\n"])}})
            elif how == "unknown-parameter":
                nodes.append({"processor": "TOp0", "parameters": {"bogus": 1}})
            elif how == "unresolved-parameter":
                nodes.append({"processor": "TOp1", "parameters": {}})
                ctx.pop("a", None)
            else:
                nodes.append({"processor": "TMerge"} if kind != "empty-coll" else {"processor": "TMerge"})
                nodes.append({"processor": "TMerge"})
        job = {"nodes": nodes, "ctx": ctx, "data": data, "fails": fail_at == k, "kind": kind}
        # a payload whose context already carries a `job_id` key: a literal of the caller's, or the id of the job enqueued just
        # before (what a caller gets who chains jobs or fans one context out to several): the annotation is this job's id all the same
        r = rnd.random()
        if r < 0.12:
            ctx["job_id"] = rnd.choice(["user-42", "00000000-0000-0000-0000-000000000000", 7])
            job["kind"] = kind + "+own-job-id-key"
        elif r < 0.24 and k > 0:
            job["ctx_job_id_of_previous"] = True
            job["kind"] = kind + "+previous-job-id-key"
        jobs.append(job)
    return jobs


def make_ctx(spec):
    """A job's context: a plain ContextType, or a ContextCollectionType (global part + one context per element)."""
    from semantiva.context_processors import ContextType
    from semantiva.context_processors.context_types import ContextCollectionType
    spec = copy.deepcopy(spec)
    coll = spec.pop("__collection__", None)
    if coll is None:
        return ContextType(spec)
    return ContextCollectionType(global_context=dict(spec, **coll["global"]), context_list=[ContextType(dict(x)) for x in coll["items"]])


def ctx_view(c):
    """Canonical view of a result context, type included."""
    from semantiva.context_processors.context_types import ContextCollectionType
    base = pipegen.ctx_view(c)
    if isinstance(c, ContextCollectionType):
        # the job-id annotation of a collection context may live in the global part or in every element: it is reported once
        items = [[kv for kv in pipegen.ctx_view(x) if kv[0] != "job_id"] for x in c]
        d = c.to_dict()
        glob = d.get("global", d) if isinstance(d, dict) else {}
        glob_view = sorted([k, pipegen.enc(v)] for k, v in glob.items() if k != "job_id") if isinstance(glob, dict) else repr(glob)
        out = [["__global__", json.dumps(glob_view, sort_keys=True, default=str)], ["__type__", "ContextCollectionType"],
               ["__items__", json.dumps(items, sort_keys=True, default=str)]]
        try:
            jid = c.get_value("job_id")
        except Exception:  # noqa: BLE001
            jid = None
        if isinstance(jid, (list, tuple)):
            jid = jid[0] if jid and all(x == jid[0] for x in jid) else (json.dumps(list(jid), default=str) if jid else None)
        if jid is not None:
            out.append(["job_id", pipegen.enc(jid)])
        return sorted(out)
    return base


def make_data(spec):
    from props import components as C
    if spec is None:
        return None
    if spec[0] == "TData":
        return C.TData(copy.deepcopy(spec[1]))
    return C.TColl.from_list([C.TData(x) for x in spec[1]])


def direct(job):
    """The job's pipeline run directly on the job's payload: (data view, context view) or ('error', type name)."""
    pipegen.setup()
    from semantiva.pipeline import Pipeline, Payload
    from semantiva.context_processors import ContextType
    from semantiva.data_types import NoDataType
    d = make_data(job["data"])
    try:
        out = Pipeline(copy.deepcopy(job["nodes"])).process(Payload(d if d is not None else NoDataType(), make_ctx(job["ctx"])))
        return ("ok", pipegen.data_view(out.data), ctx_view(out.context))
    except Exception as exc:  # noqa: BLE001
        return ("error", type(exc).__name__, str(exc))


# ---------------------------------------------------------------------------------------------
# one batch through the real master / workers
# ---------------------------------------------------------------------------------------------

def run_batch(jobs, n_workers, switch, delays, fast=True, grace=6.0, prequeue=False):
    pipegen.setup()
    from semantiva.execution.job_queue.queue_orchestrator import QueueSemantivaOrchestrator
    from semantiva.execution.job_queue.worker import worker_loop
    from semantiva.execution.executor.executor import SequentialSemantivaExecutor
    from semantiva.context_processors import ContextType
    events: list = []
    transport = make_transport(events)
    stop = threading.Event()
    lg = quiet_logger()
    orch = QueueSemantivaOrchestrator(transport, stop_event=stop, logger=lg)
    if fast:
        orch.job_queue = FastQueue()
    old_switch = sys.getswitchinterval()
    sys.setswitchinterval(switch)
    threads = [threading.Thread(target=orch.run_forever, name="master", daemon=True)]
    for w in range(n_workers):
        threads.append(threading.Thread(target=worker_loop, name=f"worker{w}", daemon=True,
                                        args=(w, transport, SequentialSemantivaExecutor(), stop), kwargs={"logger": lg, "poll_interval": 0.001}))
    futures = []
    try:
        if not prequeue:
            for t in threads:
                t.start()
        for job, delay in zip(jobs, delays):
            if delay:
                time.sleep(delay)
            ctx = copy.deepcopy(job["ctx"])
            if job.get("ctx_job_id_of_previous") and futures:
                ctx["job_id"] = next((jid for jid, f in list(orch.pending_futures.items()) if f is futures[-1]), "finished-job-id")
            fut = orch.enqueue(copy.deepcopy(job["nodes"]), data=make_data(job["data"]), context=make_ctx(ctx),
                               return_future=True)
            futures.append(fut)
        if prequeue:
            # a burst: the whole batch is waiting in the master's queue when the master and the workers start
            for t in threads:
                t.start()
        # wait for quiescence: every future done, or nothing left anywhere for `grace` seconds
        deadline = time.time() + 60
        idle_since = None
        while time.time() < deadline:
            if all(f.done() for f in futures):
                break
            busy = (not orch.job_queue.empty()) or any(len(q) for q, _ in list(transport._queues.values()))
            with_status = len(events)
            if busy:
                idle_since = None
            else:
                if idle_since is None:
                    idle_since = (time.time(), with_status)
                elif idle_since[1] != with_status:
                    idle_since = (time.time(), with_status)
                elif time.time() - idle_since[0] > grace:
                    # nothing queued and no transport event for `grace` seconds although Futures are pending: a job is
                    # lost or its Future will never complete (a loaded machine may just be slow, hence the long grace)
                    break
            time.sleep(0.002)
    finally:
        stop.set()
        orch.running = False
        for t in threads:
            t.join(timeout=5)
        sys.setswitchinterval(old_switch)
    results = []
    for f in futures:
        if not f.done():
            results.append(("pending",))
        elif f.exception() is not None:
            results.append(("exception", type(f.exception()).__name__, str(f.exception())))
        else:
            data, ctx = f.result()
            results.append(("ok", pipegen.data_view(data), ctx_view(ctx)))
    return results, events, [t.name for t in threads if t.is_alive()]


# ---------------------------------------------------------------------------------------------
# deterministic exploration: the real master / workers under the line-level scheduler
# ---------------------------------------------------------------------------------------------

def scheduled_scenario(jobs, n_workers, master_iters=14, worker_iters=10):
    """make_bodies() for vlib.sched: thread 0 = master, 1.. = workers; loops end after a fixed number of iterations
    (CountingEvent), whose `is_set` calls are voluntary yield points."""
    pipegen.setup()
    from semantiva.execution.job_queue.queue_orchestrator import QueueSemantivaOrchestrator
    from semantiva.execution.job_queue.worker import worker_loop
    from semantiva.execution.executor.executor import SequentialSemantivaExecutor
    from semantiva.execution.transport.in_memory import InMemorySemantivaTransport
    from semantiva.context_processors import ContextType
    from props.yieldpoint import CountingEvent

    def make():
        transport = InMemorySemantivaTransport()
        lg = quiet_logger()
        mstop = CountingEvent(master_iters)
        orch = QueueSemantivaOrchestrator(transport, stop_event=mstop, logger=lg)
        orch.job_queue = FastQueue()
        futures = [orch.enqueue(copy.deepcopy(j["nodes"]), data=make_data(j["data"]), context=ContextType(copy.deepcopy(j["ctx"])), return_future=True)
                   for j in jobs]
        bodies = [orch.run_forever]
        for w in range(n_workers):
            ev = CountingEvent(worker_iters)
            bodies.append(lambda w=w, ev=ev: worker_loop(w, transport, SequentialSemantivaExecutor(), ev, logger=lg, poll_interval=0.0))

        def finish(ex):
            results = []
            for f in futures:
                if not f.done():
                    results.append(("pending",))
                elif f.exception() is not None:
                    results.append(("exception", type(f.exception()).__name__, str(f.exception())))
                else:
                    data, ctx = f.result()
                    results.append(("ok", pipegen.data_view(data), pipegen.ctx_view(ctx)))
            return {"results": results, "errors": {t: repr(e) for t, e in ex.errors.items()}, "timed_out": ex.timed_out}
        return bodies, finish
    return make


def explore_schedules(rep, rnd, stats, max_runs):
    """One preemption at every scheduling point inside the transport's publish / subscription code, for small batches."""
    from vlib import sched
    import semantiva.execution.transport.in_memory as M
    from props import yieldpoint
    files = {M.__file__, yieldpoint.__file__}
    yields = frozenset({"is_set"})
    runs = 0
    for n_jobs, n_workers, fail in ((1, 1, None), (2, 1, None), (2, 2, 1), (2, 2, None)):
        if runs >= max_runs:
            break
        jobs = [{"nodes": [{"processor": "TSourceDef", "parameters": {"v": f"job{k}"}}] + ([{"processor": "TFail"}] if fail == k else []),
                 "ctx": {"tag": k}, "data": None, "fails": fail == k, "kind": "source"} for k in range(n_jobs)]
        make = scheduled_scenario(jobs, n_workers)
        bodies, finish = make()
        base = sched.Execution(files, bodies, [], yield_names=yields).run()
        obs = finish(base)
        runs += 1
        stats["scheduled_runs"] = stats.get("scheduled_runs", 0) + 1
        pub = {"jobs": [{"nodes": j["nodes"], "ctx": j["ctx"]} for j in jobs], "workers": n_workers}
        problems = list(judge(jobs, obs["results"]))
        if base.timed_out or obs["errors"]:
            rep.notes.append(f"scheduled scenario {n_jobs}x{n_workers}: default schedule did not finish cleanly ({obs['errors']}, timed_out={base.timed_out})")
            continue
        for sig, what, det in problems:
            rep.add_violation(sig + ":scheduled", what + " (default round-robin schedule)", dict(pub, schedule=[], finding=det))
        # candidates: deviate once where the running thread is inside publish() / the subscription iterator
        cands = []
        for k in range(len(base.trace)):
            fn = base.where_at[k][0]
            if fn in ("publish", "__iter__", "subscribe", "<start>") or k < 3:
                for alt in base.enabled_at[k]:
                    if alt != base.trace[k]:
                        cands.append(base.trace[:k] + [alt])
        rnd.shuffle(cands)
        stats["schedule_candidates"] = stats.get("schedule_candidates", 0) + len(cands)
        for prefix in cands:
            if runs >= max_runs:
                break
            bodies, finish = make()
            ex = sched.Execution(files, bodies, prefix, yield_names=yields).run()
            obs = finish(ex)
            runs += 1
            stats["scheduled_runs"] += 1
            if ex.timed_out:
                stats["scheduled_timeouts"] = stats.get("scheduled_timeouts", 0) + 1
                continue
            for sig, what, det in judge(jobs, obs["results"]):
                rep.add_violation(sig + ":scheduled", what + " (under a schedule with one preemption inside the transport)",
                                  dict(pub, schedule=prefix, preempted_at=list(ex.where_at[len(prefix) - 1]) if len(prefix) <= len(ex.where_at) else None,
                                       finding=det))
    return runs


def yaml_path_jobs(rep, rnd, stats):
    """Jobs given as a path to a YAML pipeline file; the file is rewritten between jobs (one at a time): every Future must
    hold the result of the pipeline the file contained when the job ran."""
    import yaml
    pipegen.setup()
    from semantiva.execution.job_queue.queue_orchestrator import QueueSemantivaOrchestrator
    from semantiva.execution.job_queue.worker import worker_loop
    from semantiva.execution.executor.executor import SequentialSemantivaExecutor
    from semantiva.execution.transport.in_memory import InMemorySemantivaTransport
    from semantiva.context_processors import ContextType
    transport = InMemorySemantivaTransport()
    stop = threading.Event()
    lg = quiet_logger()
    orch = QueueSemantivaOrchestrator(transport, stop_event=stop, logger=lg)
    orch.job_queue = FastQueue()
    threads = [threading.Thread(target=orch.run_forever, daemon=True),
               threading.Thread(target=worker_loop, daemon=True, args=(0, transport, SequentialSemantivaExecutor(), stop),
                                kwargs={"logger": lg, "poll_interval": 0.001})]
    for t in threads:
        t.start()
    try:
        with rt.tempdir() as d:
            path = d / "current_job.yaml"
            jobs, results = [], []
            for k in range(4):
                job = {"nodes": [{"processor": "TSource", "parameters": {"v": f"file-version-{k}"}}, {"processor": "TOp1", "parameters": {"a": k}}],
                       "ctx": {"tag": k}, "data": None, "fails": False, "kind": "yaml-path"}
                path.write_text(yaml.safe_dump({"extensions": ["props.components"], "pipeline": {"nodes": job["nodes"]}}, sort_keys=False))
                fut = orch.enqueue(str(path), context=ContextType(copy.deepcopy(job["ctx"])), return_future=True)
                try:
                    data, ctx = fut.result(timeout=60)
                    results.append(("ok", pipegen.data_view(data), pipegen.ctx_view(ctx)))
                except Exception as exc:  # noqa: BLE001
                    results.append(("pending",) if isinstance(exc, TimeoutError) else ("exception", type(exc).__name__, str(exc)))
                jobs.append(job)
                stats["yaml_path_jobs"] = stats.get("yaml_path_jobs", 0) + 1
            for sig, what, det in judge(jobs, results):
                rep.add_violation(sig + ":yaml-path", what + " (pipeline given as a YAML file path, file rewritten between jobs)",
                                  {"jobs": [j["nodes"] for j in jobs], "finding": det})
    finally:
        stop.set()
        orch.running = False
        for t in threads:
            t.join(timeout=5)
        pipegen._READY = False          # the YAML loader applies a registry profile: register the harness components again
        pipegen.setup()


def judge(jobs, results):
    """Yield (signature, what, detail)."""
    seen_ids = {}
    for k, (job, res) in enumerate(zip(jobs, results)):
        want = direct(job)
        where = {"job": k, "kind": job["kind"], "pipeline": job["nodes"], "context": job["ctx"], "data": job["data"]}
        if res[0] == "pending":
            if want[0] == "error":
                yield ("failing-job-future-never-completes", "the Future of a job whose pipeline raises is never completed", dict(where, direct=want))
            else:
                yield (f"future-never-completes:{job['kind']}", "the Future of a job is never completed", dict(where, direct=want))
            continue
        if want[0] == "error":
            if res[0] != "exception":
                yield ("failing-job-completes-normally", "a job whose pipeline raises completes its Future with a result", dict(where, got=res, direct=want))
            continue
        if res[0] == "exception":
            yield (f"job-fails-but-direct-run-succeeds:{job['kind']}", "the Future completes exceptionally although running the pipeline directly on the payload succeeds",
                   dict(where, got=res, direct=want))
            continue
        _, data, ctx = res
        ctxd = {k2: v for k2, v in ctx}
        jid = ctxd.pop("job_id", None)
        if jid is None:
            yield ("no-job-id", "the result context carries no job_id annotation", dict(where, got=res))
        elif jid in seen_ids:
            yield ("duplicate-job-id", f"jobs {seen_ids[jid]} and {k} completed with the same job id", dict(where, job_id=jid))
        seen_ids[jid] = k
        want_ctx = [kv for kv in want[2] if kv[0] != "job_id"]      # a job_id key of the caller's is replaced by the annotation
        if data != want[1] or sorted([k2, v] for k2, v in ctxd.items()) != want_ctx:
            other = next((j for j, jb in enumerate(jobs) if j != k and direct(jb)[:2] == ("ok", data)), None)
            yield ("cross-talk" if other is not None else f"result-differs-from-direct:{job['kind']}",
                   f"the Future of job {k} completed with {'the result of job %d' % other if other is not None else 'a result other than that of running its pipeline directly'}",
                   dict(where, got=res, direct=want))


# ---------------------------------------------------------------------------------------------

def probe_reports_failure() -> bool:
    jobs = gen_jobs(core.rng("C15-probe"), 2, fail_at=0)
    results, events, _ = run_batch(jobs, 1, 0.005, [0, 0])
    return results[0][0] == "exception" and results[1][0] == "ok"


def translate():
    rf = probe_reports_failure()
    body = "namespace SemantivaModel.Generated.C15\n\n/-- a job whose pipeline raises gets a status message that completes its Future (probe) -/\n"
    body += f"def reportsFailure : Bool := {core.lean_bool(rf)}\n\nend SemantivaModel.Generated.C15\n"
    core.write_generated("C15", body, ["semantiva/execution/job_queue/worker.py, queue_orchestrator.py (failure path probed with a two-job batch)"])
    return rf


def model_replay(drv, jobs, events, results, reports_failure):
    """Feed the real event history to the Lean model; returns a list of disagreements."""
    ids = []
    for e in events:
        if e[0] == "publish" and e[1] not in ids:
            ids.append(e[1])
    # enqueue order == publish order (the master's FIFO), job k is the k-th published id
    idx = {jid: k for k, jid in enumerate(ids)}
    workers = {}
    evs = [["enqueue", k, k] for k in range(len(ids))]
    # enqueues happen before their publish; the model only needs each enqueue before its publish, so put them first
    for e in events:
        kind, jid = e[0], e[1]
        if jid not in idx:
            return [f"event for an unknown job id {jid}: {e}"]
        k = idx[jid]
        w = workers.setdefault(e[2], len(workers))
        if kind == "publish":
            evs.append(["publish", k])
        elif kind == "take":
            evs.append(["take", w, k])
        elif kind == "status":
            evs.append(["finish", w, k])
        elif kind == "collect":
            evs.append(["collect", k])
    fails = [bool(j["fails"]) for j in jobs[:len(ids)]]
    ans = drv.run([{"m": "c15.replay", "id": 0, "reportsFailure": True, "fails": fails, "events": evs}])[0]
    if "err" in ans:
        return [f"driver: {ans['err']}"]
    out = []
    m = ans["ok"]
    if m.get("stuckAt") is not None:
        out.append(f"real event #{m['stuckAt']} {evs[m['stuckAt']]} is not enabled in the model")
        return out
    real_done = sorted([k, r[0] == "ok"] for k, r in enumerate(results[:len(ids)]) if r[0] != "pending")
    if sorted(m["done"]) != real_done:
        out.append(f"completed futures differ: model {sorted(m['done'])}, real {real_done}")
    return out


def run(tier: str) -> int:
    rep = core.Report(PROP, tier)
    rnd = core.rng(PROP)
    pipegen.setup()
    try:
        rf = translate()
    except Exception as exc:
        rep.add_broken(f"translator C15 failed: {exc!r}")
        rf = None
    rep.coverage["reports_failure"] = rf
    core.prove(rep, PROP, thorough=(tier == "thorough"))
    drv = None
    try:
        drv = core.Driver()
    except Exception as exc:
        rep.add_broken(f"correspondence C15: model driver unavailable ({exc!r})")
    n_batches = 36 if tier == "quick" else 300
    max_jobs = 14 if tier == "quick" else 40
    stats = {"batches": 0, "jobs": 0, "workers": {}, "switch": {}, "failing_jobs": 0, "events": 0, "replayed": 0, "kinds": {}, "real_queue_batches": 0}
    mism = []
    samples = []
    bursts = [17, 33, 40] if tier == "quick" else [16, 17, 18, 31, 32, 33, 34, 40, 40, 64, 65]
    for b in range(n_batches + len(bursts)):
        burst = b >= n_batches
        n = bursts[b - n_batches] if burst else (rnd.randrange(1, max_jobs + 1) if b % 7 != 6 else rnd.randrange(1, 6))
        fail_at = rnd.randrange(n) if b % 2 == 1 else None
        jobs = gen_jobs(rnd, n, fail_at)
        nw = 1 + b % 4
        switch = rnd.choice([1e-6, 1e-5, 1e-4, 5e-3])
        delays = [0 if burst else rnd.choice([0, 0, 0, 0.0005, 0.002]) for _ in jobs]
        fast = b % 7 != 6
        stats["bursts"] = stats.get("bursts", 0) + (1 if burst else 0)
        # once hanging Futures have been demonstrated, further batches need not wait long for quiescence
        results, events, alive = run_batch(jobs, nw, switch, delays, fast=fast, grace=(6.0 if len(rep.violations) < 2 else 0.8), prequeue=burst)
        stats["batches"] += 1
        stats["jobs"] += n
        stats["workers"][nw] = stats["workers"].get(nw, 0) + 1
        stats["switch"][str(switch)] = stats["switch"].get(str(switch), 0) + 1
        stats["failing_jobs"] += 1 if fail_at is not None else 0
        stats["events"] += len(events)
        stats["real_queue_batches"] += 0 if fast else 1
        for j in jobs:
            stats["kinds"][j["kind"]] = stats["kinds"].get(j["kind"], 0) + 1
        pub = {"workers": nw, "switch_interval": switch, "jobs": [{"nodes": j["nodes"], "ctx": j["ctx"], "data": j["data"]} for j in jobs],
               "fail_at": fail_at, "delays": delays}
        for sig, what, det in judge(jobs, results):
            rep.add_violation(sig, what, dict(pub, finding=det))
        if alive:
            rep.notes.append(f"threads still alive after stop: {alive}")
        if drv is not None:
            diffs = model_replay(drv, jobs, events, results, rf)
            stats["replayed"] += 1
            for dmsg in diffs:
                mism.append({"batch": b, "difference": dmsg, "events": [list(e) for e in events[:60]]})
        if len(samples) < 2 and b % 5 == 0:
            samples.append({"jobs": n, "workers": nw, "events": [list(e) for e in events[:12]], "results": [r[0] for r in results]})
    try:
        yaml_path_jobs(rep, rnd, stats)
    except Exception as exc:  # noqa: BLE001
        rep.notes.append(f"yaml-path scenario failed: {exc!r}")
    try:
        explore_schedules(rep, rnd, stats, 160 if tier == "quick" else 1500)
    except Exception as exc:  # noqa: BLE001
        rep.notes.append(f"deterministic exploration failed: {exc!r}")
    if mism:
        rep.add_broken(f"correspondence C15: real event histories do not replay in the protocol model ({len(mism)} differences), first "
                       + json.dumps(mism[0], default=str)[:800])
        rep.coverage["first_disagreements"] = mism[:3]
    rep.coverage.update({
        "evaluations": stats["jobs"],
        "distinct_nontrivial": stats["batches"],
        "rule": f"batches of 1..{max_jobs} distinct jobs (term pipelines with job-specific parameters and context; sources, initial data, an empty "
                "collection as data, context-resolved parameters) x 1..4 workers (round robin) x thread switch interval in {1e-6,1e-5,1e-4,5e-3} x random "
                "enqueue delays; every second batch has a failing job at a random position; one batch in seven keeps the orchestrator's own 0.2 s queue polling",
        "samples": samples,
        "traces_validated_against_impl": stats["replayed"],
        "generator_distribution": stats,
        "search": "same generator",
    })
    rep.assumptions += [
        "interleavings are those the OS scheduler produces under the chosen switch intervals (sampled, not enumerated); the theorem covers every history of the model",
        "the harness shortens the master's queue polling timeout (FastQueue) and the worker poll interval; event order is logged by a subclass of the in-memory transport",
        "job ids are uuid4: distinct (model precondition `fresh`)",
    ]
    return rep.finish()


def replay(path: str) -> int:
    case = json.loads(open(path).read())
    print(json.dumps(case, indent=1, default=str)[:5000])
    return 0
