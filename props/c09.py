"""C09 — a run-space launch equals its independent runs and is linked by stable IDs.

translate  : lexical shape of the launch loop of cli._run (start before the try, loop in try, end in finally,
             completed counted after process, 0-based enumerate, handlers swallow); probe whether inspection
             hashes the parsed run-space configuration                                   -> Generated/C09.lean
prove      : Properties/C09.lean (launch_wellformed + corollaries, inspect_eq_trace, specPre_key_order,
             specTree_injective, inputsTree_injective) + Tie/C09.lean (shape.good, inspectUsesParsed)
correspond : launch skeleton of real `semantiva run` launches vs the Lean loop model with the extracted shape;
             spec / inputs / launch ids recomputed from the Lean pre-images (hashed here) vs the real ones
oracle     : (real code only) run i of a launch vs a standalone run with run i's context (trace content, sink output);
             pipeline_start foreign keys, index, context; counts and exit code on a failing run at every index;
             inspect id == trace id; cosmetic rewrites keep the id, plan-changing mutations change it; idempotent
             launch ids; inputs id vs file content.
"""
from __future__ import annotations

import ast
import copy
import hashlib
import json
import re
from dataclasses import asdict
from pathlib import Path

import yaml

from vlib import core, rt
from props import pipegen, idgen, c10

PROP = "C09"
CLI = core.REPO / "semantiva" / "cli" / "__init__.py"

# ---------------------------------------------------------------------------------------------
# translator
# ---------------------------------------------------------------------------------------------

def extract_launch_shape(src: str):
    shape = dict(startBeforeLoop=False, loopInTry=False, endInFinally=False, countAfterProcess=False, zeroBased=False,
                 handlersSwallow=False)
    tree = ast.parse(src)
    fn = next((n for n in ast.walk(tree) if isinstance(n, ast.FunctionDef) and n.name == "_run"), None)
    if fn is None:
        return shape, ["_run not found"]
    notes = []

    def calls(node, name):
        return [n for n in ast.walk(node) if isinstance(n, ast.Call) and getattr(n.func, "attr", getattr(n.func, "id", None)) == name]

    loop_try = None
    the_loop = None
    for t in [n for n in ast.walk(fn) if isinstance(n, ast.Try)]:
        loops = [s for s in t.body if isinstance(s, ast.For) and calls(s, "process")]
        if loops:
            loop_try, the_loop = t, loops[0]
    if loop_try is None:
        loops = [n for n in ast.walk(fn) if isinstance(n, ast.For) and calls(n, "process")]
        if not loops:
            return shape, ["no loop calling pipeline.process in _run"]
        the_loop = loops[0]
        notes.append("the run loop is not the body of a try")
    else:
        shape["loopInTry"] = True
        shape["endInFinally"] = any(calls(s, "emit_end") for s in loop_try.finalbody)
        hs = loop_try.handlers
        names = []
        for h in hs:
            t = h.type
            names += ([getattr(e, "id", "?") for e in t.elts] if isinstance(t, ast.Tuple) else [getattr(t, "id", "BaseException") if t is not None else "BaseException"])
        swallow = bool(hs) and all(not any(isinstance(s, ast.Raise) for s in ast.walk(h)) for h in hs) and "Exception" in names
        sets_exit = all(any(isinstance(s, ast.Assign) and any(getattr(tg, "id", None) == "exit_code" for tg in s.targets) for s in ast.walk(h)) for h in hs)
        shape["handlersSwallow"] = swallow and sets_exit
    starts = calls(fn, "emit_start")
    if starts and loop_try is not None:
        shape["startBeforeLoop"] = all(c.lineno < loop_try.lineno for c in starts)
    elif starts:
        shape["startBeforeLoop"] = all(c.lineno < the_loop.lineno for c in starts)
    # runs_completed += 1 after the process call, at loop-body level
    proc_stmt_idx = next((i for i, s in enumerate(the_loop.body) if calls(s, "process")), None)
    inc_idx = [i for i, s in enumerate(the_loop.body) if isinstance(s, ast.AugAssign) and getattr(s.target, "id", None) == "runs_completed"
               and isinstance(s.op, ast.Add)]
    shape["countAfterProcess"] = proc_stmt_idx is not None and len(inc_idx) == 1 and inc_idx[0] > proc_stmt_idx
    it = the_loop.iter
    if isinstance(it, ast.Call) and getattr(it.func, "id", None) == "enumerate" and len(it.args) == 1 and not it.keywords \
            and isinstance(the_loop.target, ast.Tuple) and isinstance(the_loop.target.elts[0], ast.Name):
        idx = the_loop.target.elts[0].id
        # "run_space_index": idx (the loop variable itself, no arithmetic)
        vals = [v for d in ast.walk(the_loop) if isinstance(d, ast.Dict) for k, v in zip(d.keys, d.values)
                if isinstance(k, ast.Constant) and k.value == "run_space_index"]
        shape["zeroBased"] = bool(vals) and all(isinstance(v, ast.Name) and v.id == idx for v in vals)
    return shape, notes


def probe_inspect_uses_parsed() -> bool:
    """Does inspection hash the parsed run-space configuration (defaults applied), as the runtime does?"""
    pipegen.setup()
    from semantiva.inspection import build
    from semantiva.configurations.load_pipeline_from_yaml import parse_pipeline_config
    from semantiva.trace.runtime.run_space_identity import RunSpaceIdentityService
    cfg = {"extensions": ["props.components"], "pipeline": {"nodes": [{"processor": "TSourceDef"}]},
           "run_space": {"blocks": [{"mode": "BY_POSITION", "context": {"q": [1, 2]}}]}}
    parsed = parse_pipeline_config(copy.deepcopy(cfg))
    want = RunSpaceIdentityService().compute(asdict(parsed.run_space)).spec_id
    got = (build(copy.deepcopy(cfg))["identity"].get("run_space") or {}).get("spec_id")
    return got == want


def translate():
    shape, notes = extract_launch_shape(CLI.read_text())
    uses = probe_inspect_uses_parsed()
    b = core.lean_bool
    body = "import SemantivaModel.Model.Launch\nnamespace SemantivaModel.Generated.C09\nopen SemantivaModel.Launch\n\n"
    body += "/-- " + ("; ".join(notes) or "lexical structure of the launch loop in cli._run").replace("-/", "- /") + " -/\n"
    body += "def shape : LaunchShape :=\n  { " + ",\n    ".join(f"{k} := {b(v)}" for k, v in shape.items()) + " }\n\n"
    body += "/-- inspection computes the run-space spec id from the parsed configuration (probe) -/\n"
    body += f"def inspectUsesParsed : Bool := {b(uses)}\n\nend SemantivaModel.Generated.C09\n"
    core.write_generated("C09", body, ["semantiva/cli/__init__.py (_run: try/finally structure of the launch loop)",
                                       "semantiva/inspection/builder.py (_compute_run_space_spec_id: probed)"])
    return shape, uses, notes


# ---------------------------------------------------------------------------------------------
# generator
# ---------------------------------------------------------------------------------------------

VALUES = ["s1", "µm", 7, 0, 2.5, "°C é", "x y", None]      # non-ASCII text: the spec id is defined over UTF-8 bytes


# strings with line structure: RSCF v1 normalises CRLF / CR to LF and nothing else (a trailing line break, form feeds, NEL and the
# Unicode line/paragraph separators are content)
LINES = ["two\nlines", "tail\n", "crlf\r\nx", "cr\rx", "ff\x0cx", "vt\x0bx", "ls\u2028x", "ps\u2029", "nel\x85x", "\n", "fs\x1cx"]


def gen_pair(rnd, d: Path, fail_at=None):
    """(pipeline nodes, run_space block, cli context dict, files written)."""
    sink = str(d / "sink.txt")
    nodes = [{"processor": "TSource"}]
    nodes.append(rnd.choice([{"processor": "TOp1"}, {"processor": "TOp2"}, {"processor": "TOpW"}]))
    nodes.append({"processor": "TFailIf"})
    if rnd.random() < 0.7:
        nodes.append({"processor": "TProbe", "context_key": rnd.choice(["p1", "b"])})
    if rnd.random() < 0.4:
        nodes.append({"processor": "rename:a:a2"})
    if rnd.random() < 0.6:
        nodes.append({"processor": "TSink", "parameters": {"path": sink}})
    n = rnd.randrange(1, 5)
    bad = ["fine%d" % i for i in range(n)]
    if fail_at is not None and fail_at < n:
        bad[fail_at] = "boom"
    block1 = {"mode": "by_position", "context": {"v": [rnd.choice(VALUES[:5]) for _ in range(n)], "bad": bad}}
    if rnd.random() < 0.3:
        block1["context"]["v"] = [rnd.choice(LINES + VALUES[:5]) for _ in range(n)]
    blocks = [block1]
    cli_ctx = {}
    files = {}
    r = rnd.random()
    if r < 0.25:
        block1["context"]["a"] = [rnd.choice(["A1", "A2", 3]) for _ in range(n)]
    elif r < 0.45:
        m = rnd.randrange(1, 3)
        blocks.append({"mode": rnd.choice(["by_position", "combinatorial"]), "context": {"a": [f"a{j}" for j in range(m)]}})
    elif r < 0.8:
        m = rnd.randrange(1, 3)
        rows = [{"a": f"fa{j}", "extra": j} for j in range(m)]
        fmt = rnd.choice(["json", "csv"])
        name = f"inputs.{fmt}"
        if fmt == "json":
            files[name] = json.dumps(rows)
        else:
            files[name] = "a,extra\n" + "".join(f"{row['a']},{row['extra']}\n" for row in rows)
        src = {"format": fmt, "path": name}
        if rnd.random() < 0.5:
            src["select"] = ["a"]
        blocks.append({"mode": "by_position", "source": src})
    else:
        cli_ctx["a"] = "cliA"
    if rnd.random() < 0.3:
        block1["context"]["unité"] = [rnd.choice(["µ", "Å", "plain"]) for _ in range(n)]      # an extra, unused key
    rs = {"blocks": blocks}
    if len(blocks) > 1 and rnd.random() < 0.3:
        rs["combine"] = "combinatorial"
    if rnd.random() < 0.2:
        rs["max_runs"] = 50
    return nodes, rs, cli_ctx, files


def write_config(d: Path, nodes, rs, trace_out: Path, detail="all", name="cfg.yaml", dump=None, nested=False):
    cfg = {"extensions": ["props.components"], "trace": {"driver": "jsonl", "output_path": str(trace_out), "options": {"detail": detail}},
           "pipeline": {"nodes": nodes}}
    if nested:
        cfg["pipeline"]["run_space"] = rs
    else:
        cfg["run_space"] = rs
    text = yaml.safe_dump(cfg, **(dump or {"sort_keys": False}))
    (d / name).write_text(text)
    return d / name


def launch(d: Path, cfg_path: Path, trace_out: Path, cli_ctx, extra_args=()):
    argv = ["run", str(cfg_path)]
    for k, v in cli_ctx.items():
        argv += ["--context", f"{k}={v}"]
    argv += list(extra_args)
    code, so, se = rt.cli(argv, cwd=d)
    files = rt.read_trace_files(trace_out) if trace_out.exists() else {}
    return code, files, se


def inspect_spec_id(d: Path, cfg_path: Path):
    code, so, se = rt.cli(["inspect", str(cfg_path)], cwd=d)
    m = re.search(r"Run-Space Config ID:\s*(\S+)", so)
    return (m.group(1) if m else None), code


def plan_of(rs, base_dir: Path):
    pipegen.setup()
    from semantiva.configurations.load_pipeline_from_yaml import _parse_run_space_block
    from semantiva.execution.run_space import expand_run_space
    runs, meta = expand_run_space(_parse_run_space_block(copy.deepcopy(rs)), cwd=base_dir)
    return runs


# ---------------------------------------------------------------------------------------------
# the harness' own parse of a run_space block (for the model's RSCfg)
# ---------------------------------------------------------------------------------------------

def to_j_utf8(v):
    """Like idgen.to_j, but scalars are rendered as RSCF v1 renders them (ensure_ascii=False)."""
    if isinstance(v, dict):
        return {"o": [[str(k), to_j_utf8(x)] for k, x in v.items()]}
    if isinstance(v, (list, tuple)):
        return {"a": [to_j_utf8(x) for x in v]}
    if isinstance(v, str):
        v = v.replace("\r\n", "\n").replace("\r", "\n")        # "normalize \n" (run_space_lifecycle.rst)
    return {"t": json.dumps(v, ensure_ascii=False)}


def parse_rs(rs):
    blocks = []
    for b in rs.get("blocks") or []:
        src = b.get("source")
        blocks.append({"mode": str(b.get("mode", "")).lower(),
                       "context": [[str(k), to_j_utf8(list(v))] for k, v in (b.get("context") or {}).items()],
                       "source": None if src is None else {
                           "format": str(src.get("format", "")).lower(), "path": src["path"],
                           "select": None if src.get("select") is None else list(src["select"]),
                           "rename": [[str(k), to_j_utf8(str(v))] for k, v in (src.get("rename") or {}).items()],
                           "mode": str(src.get("mode", "by_position")).lower()}})
    return {"combine": str(rs.get("combine", "combinatorial")).lower(), "maxRuns": int(rs.get("max_runs", 1000)),
            "dryRun": bool(rs.get("dry_run", False)), "blocks": blocks}


def sha(prefix_and_payload: str) -> str:
    return hashlib.sha256(prefix_and_payload.encode("utf-8")).hexdigest()


# ---------------------------------------------------------------------------------------------
# skeleton of a launch trace
# ---------------------------------------------------------------------------------------------

def ordered(files: dict):
    """Records of a launch in emission order: within a file in file order; SER lines carry no seq, so runs are
    placed by the seq of their pipeline_start."""
    chunks = []
    for name in sorted(files):
        cur = None
        for r in files[name]:
            t = r.get("record_type")
            if t == "pipeline_start":
                cur = [r]
                chunks.append((r.get("seq", 0), cur))
            elif t in ("ser", "pipeline_end") and cur is not None:
                cur.append(r)
                if t == "pipeline_end":
                    cur = None
            else:
                chunks.append((r.get("seq", 0), [r]))
    chunks.sort(key=lambda c: c[0])
    return [r for _, c in chunks for r in c]


def skeleton(recs):
    """[['rsStart', n] | ['run', index, ok] | ['rsEnd', planned, completed, failed]] in stream order."""
    out = []
    open_run = None
    for r in recs:
        t = r.get("record_type")
        if t == "run_space_start":
            out.append(["rsStart", r.get("run_space_planned_run_count", r.get("run_space_total_runs"))])
        elif t == "pipeline_start":
            open_run = r.get("run_space_index")
        elif t == "pipeline_end":
            out.append(["run", open_run, (r.get("summary") or {}).get("status") == "ok"])
            open_run = None
        elif t == "run_space_end":
            s = r.get("summary") or {}
            out.append(["rsEnd", s.get("planned_runs"), s.get("completed_runs"), s.get("status") in ("failed", "interrupted")])
    return out


def split_runs(recs):
    runs, cur = [], None
    for r in recs:
        t = r.get("record_type")
        if t == "pipeline_start":
            cur = [r]
        elif t in ("ser", "pipeline_end") and cur is not None:
            cur.append(r)
            if t == "pipeline_end":
                runs.append(cur)
                cur = None
    return runs


def norm_run(recs):
    out = []
    for r in recs:
        n = c10.normalise(r)
        for k in list(n):
            if k.startswith("run_space_"):
                n.pop(k)
        out.append(n)
    return out


def standalone(nodes, ctx, detail, d: Path, tag):
    """A run outside any launch with fresh objects, through the same YAML door (so parameters are parsed alike)."""
    pipegen.setup()
    from semantiva.pipeline import Pipeline, Payload
    from semantiva.context_processors import ContextType
    from semantiva.data_types import NoDataType
    from semantiva.trace.drivers.jsonl import JsonlTraceDriver
    target = d / f"standalone_{tag}.jsonl"
    pipe = Pipeline(copy.deepcopy(nodes), trace=JsonlTraceDriver(str(target), detail=detail))
    exc = None
    try:
        pipe.process(Payload(NoDataType(), ContextType(copy.deepcopy(ctx))) if ctx else None)
    except BaseException as e:  # noqa: BLE001
        exc = e
    recs = rt.read_trace(target) if target.exists() else []
    return recs, exc


# ---------------------------------------------------------------------------------------------
# cosmetic rewrites / mutations of a run_space block
# ---------------------------------------------------------------------------------------------

def shuffle_keys(v, rnd):
    if isinstance(v, dict):
        ks = list(v)
        rnd.shuffle(ks)
        return {k: shuffle_keys(v[k], rnd) for k in ks}
    if isinstance(v, list):
        return [shuffle_keys(x, rnd) for x in v]
    return v


def cosmetic_variants(rs, rnd):
    """(label, run_space object that parses to the same configuration, yaml dump options)."""
    out = []
    a = shuffle_keys(copy.deepcopy(rs), rnd)
    out.append(("key-order", a, {"sort_keys": False}))
    out.append(("flow-style", a, {"sort_keys": False, "default_flow_style": True}))
    b = copy.deepcopy(rs)
    b.setdefault("combine", "combinatorial")
    b.setdefault("max_runs", 1000)
    b.setdefault("dry_run", False)
    for blk in b["blocks"]:
        blk.setdefault("context", {})
        if blk.get("source"):
            blk["source"].setdefault("mode", "by_position")
            blk["source"].setdefault("rename", {})
    out.append(("defaults-spelled-out", b, {"sort_keys": False}))
    c = copy.deepcopy(rs)
    for blk in c["blocks"]:
        blk["mode"] = blk["mode"].upper()
    out.append(("mode-upper-case", c, {"sort_keys": True, "indent": 6}))
    return out


def mutations(rs, rnd):
    out = []
    blocks = rs["blocks"]
    bi = rnd.randrange(len(blocks))
    ctx = blocks[bi].get("context") or {}
    if ctx:
        k = rnd.choice(sorted(ctx))
        m = copy.deepcopy(rs)
        m["blocks"][bi]["context"][k][0] = "MUT"
        out.append(("value-changed", m))
        if len(ctx[k]) > 1 and ctx[k][0] != ctx[k][-1]:
            m = copy.deepcopy(rs)
            vals = m["blocks"][bi]["context"][k]
            vals[0], vals[-1] = vals[-1], vals[0]
            out.append(("values-reordered", m))
        m = copy.deepcopy(rs)
        for kk in m["blocks"][bi]["context"]:
            m["blocks"][bi]["context"][kk] = m["blocks"][bi]["context"][kk] + [m["blocks"][bi]["context"][kk][0]]
        out.append(("run-added", m))
    if len(blocks) > 1:
        m = copy.deepcopy(rs)
        m["blocks"].reverse()
        out.append(("blocks-swapped", m))
    m = copy.deepcopy(rs)
    m["blocks"].append({"mode": "by_position", "context": {"zz_new": [1, 2]}})
    out.append(("block-added", m))
    return out


# ---------------------------------------------------------------------------------------------
# run
# ---------------------------------------------------------------------------------------------

def run(tier: str) -> int:
    rep = core.Report(PROP, tier)
    rnd = core.rng(PROP)
    pipegen.setup()
    try:
        shape, uses_parsed, notes = translate()
    except Exception as exc:
        rep.add_broken(f"translator C09 failed: {exc!r}")
        shape, uses_parsed, notes = None, None, []
    rep.coverage["shape"] = shape
    rep.coverage["inspect_uses_parsed"] = uses_parsed
    rep.notes += notes
    core.prove(rep, PROP, thorough=(tier == "thorough"))
    drv = None
    try:
        drv = core.Driver()
    except Exception as exc:
        rep.add_broken(f"correspondence C09: model driver unavailable ({exc!r})")
    n_cases = 40 if tier == "quick" else 400
    stats = {"launches": 0, "runs_compared": 0, "failing_launches": 0, "file_output": 0, "dir_output": 0, "with_source": 0,
             "launch_id": {"explicit": 0, "idempotency": 0, "generated": 0}, "cosmetic": 0, "mutations": 0, "model_ids": 0,
             "planned_runs": {}, "nested_block": 0}
    mism = []
    samples = []
    for i in range(n_cases):
        with rt.tempdir() as d:
            fail_at = None if i % 3 == 0 else rnd.randrange(0, 4)
            nodes, rs, cli_ctx, files = gen_pair(rnd, d, fail_at)
            for name, text in files.items():
                (d / name).write_text(text)
            to_file = i % 2 == 0
            stats["file_output" if to_file else "dir_output"] += 1
            stats["with_source"] += 1 if files else 0
            trace_out = d / ("trace.jsonl" if to_file else "tracedir")
            detail = rnd.choice(["hash", "all", "repr"])
            nested = (i % 7 == 3)
            stats["nested_block"] += 1 if nested else 0
            cfg_path = write_config(d, nodes, rs, trace_out, detail=detail, nested=nested)
            mode = ["explicit", "idempotency", "generated"][i % 3]
            stats["launch_id"][mode] += 1
            attempt = rnd.choice([1, 1, 2, 5])
            extra = ["--run-space-attempt", str(attempt)]
            if mode == "explicit":
                requested_id = rnd.choice(["launch-{n}", "nightly sweep #{n}", "exp:2026-10-01T02:00:00Z+{n}", "team/alice@cluster-{n}", "läuf-{n}", "L{n}"]) \
                    .format(n=f"{i}-{rnd.randrange(10**6)}")
                extra += ["--run-space-launch-id", requested_id]
            elif mode == "idempotency":
                extra += ["--run-space-idempotency-key", f"key-{i}"]
            plan = plan_of(rs, d)
            stats["planned_runs"][len(plan)] = stats["planned_runs"].get(len(plan), 0) + 1
            contexts = [dict(cli_ctx, **r) for r in plan]
            pub = {"nodes": nodes, "run_space": rs, "cli_context": cli_ctx, "files": files, "output": "file" if to_file else "directory",
                   "launch_id_mode": mode, "attempt": attempt, "detail": detail, "nested_run_space": nested}
            code, tfiles, se = launch(d, cfg_path, trace_out, cli_ctx, extra)
            stats["launches"] += 1
            recs = ordered(tfiles)
            sk = skeleton(recs)
            sink_after_launch = (d / "sink.txt").read_text() if (d / "sink.txt").exists() else ""
            if (d / "sink.txt").exists():
                (d / "sink.txt").unlink()
            # ---- standalone runs give the documented outcomes ---------------------------------------------
            outcomes, standalone_recs, sink_expected = [], [], ""
            for k, ctx in enumerate(contexts):
                srecs, exc = standalone(nodes, ctx, detail, d, k)
                outcomes.append(exc is None)
                standalone_recs.append(srecs)
                if exc is not None:
                    break
            if (d / "sink.txt").exists():
                sink_expected = (d / "sink.txt").read_text()
            failed = not all(outcomes)
            stats["failing_launches"] += 1 if failed else 0
            full_outcomes = outcomes + [True] * (len(contexts) - len(outcomes))
            want = [["rsStart", len(contexts)]] + [["run", k, ok] for k, ok in enumerate(outcomes)] + \
                   [["rsEnd", len(contexts), sum(1 for o in outcomes if o), failed]]
            if sk != want:
                rep.add_violation(f"launch-skeleton:{'failing' if failed else 'ok'}:{'file' if to_file else 'directory'}",
                                  "the launch trace is not run_space_start, the planned runs in order up to the first failure, run_space_end with truthful counts",
                                  dict(pub, observed=sk, documented=want, exit_code=code, stderr=se[-300:]))
            if to_file and len(tfiles) == 1:
                # one file: a reader sees the lines in file order — the launch's records must be bracketed *there* too
                lines = next(iter(tfiles.values()))
                sk_file = skeleton(lines)
                if sk_file != want and sk == want:
                    rep.add_violation("launch-skeleton:file-order",
                                      "in single-file output the lines are not in emission order (run_space_start first, run_space_end last, runs in between)",
                                      dict(pub, file_order=sk_file, documented=want))
                seqs = [r.get("seq") for r in lines if isinstance(r.get("seq"), int)]
                if seqs != sorted(seqs):
                    rep.add_violation("launch-skeleton:file-order", "sequence numbers do not increase along the lines of the single trace file",
                                      dict(pub, seqs=seqs))
            if (code == 0) != (not failed):
                rep.add_violation("exit-code", "the exit code does not say whether a run failed", dict(pub, exit_code=code, outcomes=outcomes))
            if drv is not None and shape is not None:
                ans = drv.run([{"m": "c09.launch", "id": 0, "shape": shape, "outcomes": full_outcomes}])[0]
                if "err" in ans:
                    rep.add_broken(f"correspondence C09: driver error {ans['err']}")
                    drv = None
                elif ans["ok"]["events"] != sk:
                    mism.append({"case": pub, "model": ans["ok"]["events"], "real": sk})
            # ---- foreign keys on every record ------------------------------------------------------------
            rs_start = next((r for r in recs if r.get("record_type") == "run_space_start"), None)
            rs_end = next((r for r in recs if r.get("record_type") == "run_space_end"), None)
            launch_id = rs_start.get("run_space_launch_id") if rs_start else None
            if mode == "explicit" and rs_start and launch_id != requested_id:
                rep.add_violation("explicit-launch-id-not-verbatim", "the launch is recorded under another id than the one given with --run-space-launch-id",
                                  dict(pub, requested=requested_id, recorded=launch_id))
            runs = split_runs(recs)
            for k, rr in enumerate(runs):
                ps = rr[0]
                bad = []
                if ps.get("run_space_launch_id") != launch_id:
                    bad.append("launch id")
                if ps.get("run_space_attempt") != attempt:
                    bad.append("attempt")
                if ps.get("run_space_index") != k:
                    bad.append("index")
                if k < len(contexts) and ps.get("run_space_context") != json.loads(json.dumps(contexts[k])):
                    bad.append("context")
                if bad:
                    rep.add_violation(f"pipeline-start-fk:{'+'.join(bad)}", f"pipeline_start of run {k} does not carry the launch's {bad}",
                                      dict(pub, run=k, record={x: ps.get(x) for x in ps if x.startswith("run_space")}, planned_context=contexts[k] if k < len(contexts) else None,
                                           launch_id=launch_id))
                # ---- run k == standalone run with context k ------------------------------------------------
                if k < len(standalone_recs):
                    stats["runs_compared"] += 1
                    a, b = norm_run(rr), norm_run(standalone_recs[k])
                    if a != b:
                        where = "[record count]"
                        if len(a) == len(b):
                            where = next((c10.diff_path(x, y, x.get("record_type", "?")) for x, y in zip(a, b) if c10.diff_path(x, y)), "?")
                        rep.add_violation(f"run-differs-from-standalone:{str(where).split('[')[0]}",
                                          f"run {k} of the launch differs from a standalone run with the same context at {where}",
                                          dict(pub, run=k, context=contexts[k], launch_records=a[:4], standalone_records=b[:4]))
            if sink_after_launch != sink_expected:
                rep.add_violation("sink-output-differs", "the sink output of the launch is not the concatenation of the standalone runs' outputs",
                                  dict(pub, launch=sink_after_launch, standalone=sink_expected))
            if rs_start and rs_end and (rs_end.get("run_space_launch_id") != launch_id or rs_end.get("run_space_attempt") != attempt
                                        or rs_start.get("run_space_attempt") != attempt):
                rep.add_violation("bracket-fk", "run_space_start / run_space_end disagree on launch id or attempt", dict(pub, start=rs_start, end=rs_end))
            # ---- identities -----------------------------------------------------------------------------
            if rs_start:
                spec_id = rs_start.get("run_space_spec_id")
                insp, icode = inspect_spec_id(d, cfg_path)
                if insp != spec_id:
                    rep.add_violation(f"inspect-vs-trace-spec-id:{'nested' if nested else 'top-level'}",
                                      "the run-space spec id printed by `semantiva inspect` differs from the one in run_space_start",
                                      dict(pub, inspect=insp, trace=spec_id))
                if drv is not None:
                    ans = drv.run([{"m": "c09.specPre", "id": 0, "cfg": parse_rs(rs), "raw": to_j_utf8(rs)}])[0]
                    if "err" in ans:
                        rep.add_broken(f"correspondence C09: driver error {ans['err']}")
                        drv = None
                    else:
                        stats["model_ids"] += 1
                        if sha(ans["ok"]["specPre"]) != spec_id:
                            mism.append({"case": pub, "field": "spec_id", "model": sha(ans["ok"]["specPre"]), "real": spec_id, "pre": ans["ok"]["specPre"]})
                        fps = rs_start.get("run_space_input_fingerprints") or []
                        inputs_id = rs_start.get("run_space_inputs_id")
                        if files:
                            want_fps = []
                            for bi, blk in enumerate(rs["blocks"]):
                                if blk.get("source"):
                                    p = (d / blk["source"]["path"]).resolve()
                                    want_fps.append({"role": f"block[{bi}].source", "uri": p.as_uri(), "sha256": hashlib.sha256(p.read_bytes()).hexdigest(),
                                                     "size": p.stat().st_size})
                            a2 = drv.run([{"m": "c09.inputsPre", "id": 0, "specId": spec_id, "fps": want_fps}])[0]
                            if "err" in a2 or sha(a2["ok"]["inputsPre"]) != inputs_id:
                                mism.append({"case": pub, "field": "inputs_id", "model": a2, "real": inputs_id, "fingerprints": fps})
                        elif inputs_id is not None:
                            rep.add_violation("inputs-id-without-files", "an inputs id is reported although no file is referenced", dict(pub, inputs_id=inputs_id))
                        if mode == "idempotency":
                            a3 = drv.run([{"m": "c09.launchPre", "id": 0, "basis": inputs_id or spec_id, "key": f"key-{i}"}])[0]
                            if "err" in a3 or sha(a3["ok"]["launchPre"]) != launch_id:
                                mism.append({"case": pub, "field": "launch_id", "model": a3, "real": launch_id})
                # ---- launch ids: second launch -----------------------------------------------------------------
                trace2 = d / ("trace2.jsonl" if to_file else "tracedir2")
                cfg2 = write_config(d, nodes, rs, trace2, detail=detail, name="cfg2.yaml", nested=nested)
                code2, tf2, _ = launch(d, cfg2, trace2, cli_ctx, extra)
                recs2 = ordered(tf2)
                st2 = next((r for r in recs2 if r.get("record_type") == "run_space_start"), None)
                sk2 = skeleton(recs2)
                if sk2 != want:
                    rep.add_violation(f"second-launch-skeleton:{mode}",
                                      "a second launch of the same configuration in the same process (same launch id option) is not bracketed / ordered like the first",
                                      dict(pub, observed=sk2, documented=want))
                if (d / "sink.txt").exists():
                    (d / "sink.txt").unlink()
                if st2:
                    if st2.get("run_space_spec_id") != spec_id:
                        rep.add_violation("spec-id-not-reproducible", "a second launch of the same configuration reports a different spec id",
                                          dict(pub, first=spec_id, second=st2.get("run_space_spec_id")))
                    same = st2.get("run_space_launch_id") == launch_id
                    if mode in ("explicit", "idempotency") and not same:
                        rep.add_violation(f"launch-id-not-reproducible:{mode}", "a second launch with the same launch id option reports a different launch id",
                                          dict(pub, first=launch_id, second=st2.get("run_space_launch_id")))
                    if mode == "generated" and same:
                        rep.add_violation("generated-launch-id-repeats", "two launches without launch id options share a launch id", dict(pub, id=launch_id))
                # ---- inputs id vs file content -------------------------------------------------------------------
                if files:
                    name = next(iter(files))
                    (d / name).write_text(files[name])                 # same content rewritten
                    trace3 = d / "trace3.jsonl"
                    cfg3 = write_config(d, nodes, rs, trace3, detail=detail, name="cfg3.yaml", nested=nested)
                    _, tf3, _ = launch(d, cfg3, trace3, cli_ctx, extra)
                    st3 = next((r for f in tf3 for r in tf3[f] if r.get("record_type") == "run_space_start"), None)
                    if st3 and st3.get("run_space_inputs_id") != rs_start.get("run_space_inputs_id"):
                        rep.add_violation("inputs-id-changes-without-content-change", "rewriting a referenced file with identical content changes the inputs id",
                                          dict(pub, before=rs_start.get("run_space_inputs_id"), after=st3.get("run_space_inputs_id")))
                    changed = files[name].replace("fa0", "fb0")
                    (d / name).write_text(changed)
                    trace4 = d / "trace4.jsonl"
                    cfg4 = write_config(d, nodes, rs, trace4, detail=detail, name="cfg4.yaml", nested=nested)
                    _, tf4, _ = launch(d, cfg4, trace4, cli_ctx, extra)
                    st4 = next((r for f in tf4 for r in tf4[f] if r.get("record_type") == "run_space_start"), None)
                    if st4:
                        if st4.get("run_space_inputs_id") == rs_start.get("run_space_inputs_id"):
                            rep.add_violation("inputs-id-ignores-content", "changing a referenced file's content leaves the inputs id unchanged",
                                              dict(pub, inputs_id=st4.get("run_space_inputs_id"), changed_file=name))
                        if st4.get("run_space_spec_id") != spec_id:
                            rep.add_violation("spec-id-depends-on-file-content", "changing a referenced file's content changes the spec id", dict(pub, changed_file=name))
                        if mode == "idempotency" and st4.get("run_space_launch_id") == launch_id:
                            rep.add_violation("idempotent-launch-id-ignores-inputs", "the launch id from an idempotency key is unchanged although the inputs changed", dict(pub))
                    (d / name).write_text(files[name])
                    for p in (d / "sink.txt",):
                        if p.exists():
                            p.unlink()
                # ---- cosmetic rewrites and mutations (inspect path and runtime identity service) --------------
                for label, rs2, dump in cosmetic_variants(rs, rnd):
                    stats["cosmetic"] += 1
                    p2 = write_config(d, nodes, rs2, d / "unused.jsonl", name="cos.yaml", dump=dump)
                    i2, _ = inspect_spec_id(d, p2)
                    t2 = runtime_spec_id(yaml.safe_load(p2.read_text())["run_space"], d)
                    if i2 != spec_id or t2 != spec_id:
                        rep.add_violation(f"cosmetic-edit-changes-spec-id:{label}:{'inspect' if i2 != spec_id else 'runtime'}",
                                          f"a cosmetic edit of the run_space block ({label}) changes the spec id",
                                          dict(pub, rewritten=p2.read_text(), original_id=spec_id, inspect_id=i2, runtime_id=t2))
                for label, rs3 in mutations(rs, rnd):
                    stats["mutations"] += 1
                    try:
                        plan3 = plan_of(rs3, d)
                    except Exception:
                        continue
                    if plan3 == plan:
                        continue
                    t3 = runtime_spec_id(rs3, d)
                    p3 = write_config(d, nodes, rs3, d / "unused.jsonl", name="mut.yaml")
                    i3, _ = inspect_spec_id(d, p3)
                    if t3 == spec_id or i3 == spec_id:
                        rep.add_violation(f"mutation-keeps-spec-id:{label}", f"a different plan ({label}) has the same spec id",
                                          dict(pub, mutated=rs3, spec_id=spec_id))
            if len(samples) < 3 and i % 13 == 0:
                samples.append({"run_space": rs, "nodes": [n["processor"] for n in nodes], "skeleton": sk, "exit": code})
    if mism:
        rep.add_broken(f"correspondence C09: the launch model / identifier pre-images differ from the real launch on {len(mism)} points, first "
                       + json.dumps(mism[0], default=str)[:800])
        rep.coverage["first_disagreements"] = mism[:3]
    rep.coverage.update({
        "evaluations": stats["launches"] + stats["runs_compared"] + stats["cosmetic"] + stats["mutations"],
        "distinct_nontrivial": stats["launches"],
        "rule": "generated (pipeline, run_space) pairs: 1..4 planned runs per first block, optional second block (context or csv/json source), failing run "
                "at a random index in two thirds of the cases, trace to a file / a directory alternately, launch id options explicit / idempotency key / "
                "generated in turn, attempts in {1,2,5}; each launched through `semantiva run` in-process, every run compared with a standalone run, "
                "a second launch for id reproducibility, file content rewritten / changed, 4 cosmetic rewrites and up to 5 plan-changing mutations",
        "samples": samples,
        "traces_validated_against_impl": stats["launches"],
        "generator_distribution": stats,
        "search": "same generator",
    })
    rep.assumptions += [
        "SHA-256 is outside the model: the model produces pre-image strings that the harness hashes",
        "the plan of a run_space block is taken from the real expand_run_space (property C08 decides it)",
        "a cosmetic edit is a YAML text whose parsed run-space configuration is equal: key order, flow style, defaults spelled out, case of mode words",
    ]
    return rep.finish()


def runtime_spec_id(rs, base_dir):
    from semantiva.configurations.load_pipeline_from_yaml import _parse_run_space_block
    from semantiva.trace.runtime.run_space_identity import RunSpaceIdentityService
    return RunSpaceIdentityService().compute(asdict(_parse_run_space_block(copy.deepcopy(rs))), base_dir=base_dir).spec_id


def replay(path: str) -> int:
    case = json.loads(open(path).read())
    print(json.dumps(case, indent=1, default=str)[:5000])
    return 0
