"""A stop event that ends a polling loop after a fixed number of iterations and whose `is_set` is a voluntary
yield point of the deterministic scheduler (C15): the file is traced, so every call is a scheduling point."""
from __future__ import annotations


class CountingEvent:
    def __init__(self, iterations: int):
        self.left = iterations
        self.forced = False

    def is_set(self) -> bool:
        self.left -= 1
        return self.forced or self.left < 0

    def set(self) -> None:
        self.forced = True
