"""C18 — repeated execution leaves no per-run residue in the process.

translate  : two probes — does a second execution of the same configuration register component classes again?
             does the in-memory transport keep a finished job's channels?                  -> Generated/C18.lean
prove      : Properties/C18.lean (cached_bounded, uncached_linear, channels_*) + Tie/C18.lean (conditional on the flags)
correspond : size of the real component registry after 1, N1, N2 runs vs runs of the Lean model with the probed flag and
             the set of class names one execution generates
oracle     : (real code only) for generated pipelines and the four ways of repeating a run (one Pipeline object, fresh
             objects, a run-space launch, a queue worker), after a warm-up run: every process-wide registry and the
             population of gc-tracked objects, sampled at increasing run counts, must not grow with the count.
             Growth is attributed (classes registered since warm-up and what only they reach; messages retained by a
             transport; anything else) so that findings already recorded do not hide a new leak.
"""
from __future__ import annotations

import collections
import copy
import gc
import json
import logging
import sys
import threading

import yaml

from vlib import core, rt
from props import pipegen, c15

PROP = "C18"


# ---------------------------------------------------------------------------------------------
# process-wide state
# ---------------------------------------------------------------------------------------------

def registries():
    """name -> size of every process-wide registry the harness knows."""
    from semantiva.core.semantiva_component import get_component_registry
    from semantiva.registry.processor_registry import ProcessorRegistry
    out = {"component-registry": sum(len(v) for v in get_component_registry().values()),
           "processor-registry": len(ProcessorRegistry.all_processors()),
           "registered-modules": len(ProcessorRegistry.registered_modules()),
           "module-history": len(ProcessorRegistry.module_history()),
           "sys.modules": len(sys.modules),
           "threads": threading.active_count(),
           "logging-handlers": len(logging.getLogger().handlers) + sum(len(getattr(l, "handlers", [])) for l in logging.Logger.manager.loggerDict.values()),
           "loggers": len(logging.Logger.manager.loggerDict)}
    try:
        from semantiva.registry import name_resolver_registry as nrr
        for attr in dir(nrr):
            v = getattr(nrr, attr)
            if attr.startswith("_") and isinstance(v, (list, dict, set)) and not attr.startswith("__"):
                out[f"name-resolvers.{attr}"] = len(v)
    except Exception:
        pass
    return out


def component_classes():
    from semantiva.core.semantiva_component import get_component_registry
    return [c for v in get_component_registry().values() for c in v]


def collect():
    for _ in range(4):
        if gc.collect() == 0:
            break


def snapshot():
    """Freeze everything alive now (gc.freeze): afterwards gc.get_objects() lists exactly the objects created since."""
    import weakref
    collect()
    gc.freeze()
    return {"reg": registries(), "classes": weakref.WeakSet(component_classes())}


def attribute_growth(base, transports):
    """gc-tracked objects created since `base` and still alive, split into: reachable only from classes registered since
    then, retained by one of the given transports, and the rest (by type name)."""
    collect()
    objs = gc.get_objects()
    new = {id(o): o for o in objs}
    new_classes = [c for c in component_classes() if c not in base["classes"]]

    def closure(roots):
        seen = set()
        stack = list(roots)
        while stack:
            o = stack.pop()
            i = id(o)
            if i in seen or i not in new:
                continue
            seen.add(i)
            stack.extend(gc.get_referents(o))
        return seen
    by_classes = closure(new_classes)
    tr_roots = []
    for t in transports:
        q = getattr(t, "_queues", None)
        if isinstance(q, dict):
            tr_roots.append(q)
            tr_roots.extend(q.values())
            for v in q.values():
                tr_roots.extend(v)
                if isinstance(v, tuple) and v and hasattr(v[0], "__iter__"):
                    tr_roots.extend(list(v[0]))
    by_transport = closure(tr_roots) - by_classes
    # weak references to the new classes (held by their bases' subclass lists and ABC caches) and the callbacks of
    # those weak references belong to the classes too
    import weakref
    extra = set()
    for i, o in new.items():
        if i in by_classes or i in by_transport:
            continue
        if isinstance(o, weakref.ReferenceType):
            try:
                t = o()
            except Exception:
                t = None
            if t is not None and (id(t) in by_classes or id(getattr(t, "__self__", None)) in by_classes):
                extra.add(i)
                cb = getattr(o, "__callback__", None)
                if cb is not None and id(cb) in new:
                    extra.add(id(cb))
    for i, o in new.items():
        if i in by_classes or i in by_transport or i in extra:
            continue
        if type(o).__name__ == "builtin_function_or_method" and id(getattr(o, "__self__", None)) in (extra | by_classes):
            extra.add(i)
    by_classes = by_classes | extra
    rest = [o for i, o in new.items() if i not in by_classes and i not in by_transport]
    # the harness' own frames / locals are new objects too: drop what belongs to this module's machinery
    rest_types = collections.Counter(type(o).__name__ for o in rest)
    del objs
    return {"total": len(new), "by_classes": len(by_classes), "by_transport": len(by_transport), "rest": len(rest), "rest_types": dict(rest_types.most_common(8)),
            "new_classes": len(new_classes)}


# ---------------------------------------------------------------------------------------------
# the four ways of repeating a run
# ---------------------------------------------------------------------------------------------

def make_runner(mode, nodes, ctx0, d):
    """Returns (run_k(k) -> None running k more executions, transports to inspect, closer)."""
    pipegen.setup()
    from semantiva.pipeline import Pipeline, Payload
    from semantiva.context_processors import ContextType
    from semantiva.data_types import NoDataType
    def guarded(fn):
        try:
            fn()
        except Exception:          # a failing configuration is repeated just like a succeeding one
            pass
    if mode == "reused":
        pipe = Pipeline(copy.deepcopy(nodes))

        def run_k(k):
            for _ in range(k):
                guarded(lambda: pipe.process(Payload(NoDataType(), ContextType(copy.deepcopy(ctx0)))))
        return run_k, [pipe.transport], lambda: None
    if mode == "fresh":
        def run_k(k):
            for _ in range(k):
                guarded(lambda: Pipeline(copy.deepcopy(nodes)).process(Payload(NoDataType(), ContextType(copy.deepcopy(ctx0)))))
        return run_k, [], lambda: None
    if mode == "fresh-captured":
        # every run under its own captured stdout (a per-job console log, a notebook cell, a test harness' capture)
        import contextlib
        import io

        def run_k(k):
            for _ in range(k):
                with contextlib.redirect_stdout(io.StringIO()):
                    guarded(lambda: Pipeline(copy.deepcopy(nodes)).process(Payload(NoDataType(), ContextType(copy.deepcopy(ctx0)))))
        return run_k, [], lambda: None
    if mode in ("fresh-traced", "reused-traced"):
        from semantiva.trace.drivers.jsonl import JsonlTraceDriver
        counter = [0]

        def driver():
            counter[0] += 1
            return JsonlTraceDriver(str(d / f"trace_{mode}_{counter[0] % 7}.jsonl"), detail="hash")
        if mode == "reused-traced":
            pipe = Pipeline(copy.deepcopy(nodes), trace=driver())

            def run_k(k):
                for _ in range(k):
                    guarded(lambda: pipe.process(Payload(NoDataType(), ContextType(copy.deepcopy(ctx0)))))
            return run_k, [pipe.transport], lambda: None

        def run_k(k):
            for _ in range(k):
                guarded(lambda: Pipeline(copy.deepcopy(nodes), trace=driver()).process(Payload(NoDataType(), ContextType(copy.deepcopy(ctx0)))))
        return run_k, [], lambda: None
    if mode == "run-space-api":
        # what `semantiva run` does for a run_space block, kept observable: one Pipeline object, run metadata with the
        # 0-based index and the run's context before every run
        pipe = Pipeline(copy.deepcopy(nodes))
        idx = [0]

        def run_k(k):
            for _ in range(k):
                ctx = dict(copy.deepcopy(ctx0), rs_i=idx[0])
                pipe.set_run_metadata({"trace_context": None, "run_space_index": idx[0], "run_space_context": dict(ctx)})
                idx[0] += 1
                guarded(lambda: pipe.process(Payload(NoDataType(), ContextType(ctx))))
        return run_k, [pipe.transport], lambda: None
    if mode == "run-space":
        def run_k(k):
            cfg = {"extensions": ["props.components"], "pipeline": {"nodes": nodes},
                   "run_space": {"max_runs": 100000, "blocks": [{"mode": "by_position", "context": {"rs_i": list(range(k))}}]}}
            (d / "rs.yaml").write_text(yaml.safe_dump(cfg, sort_keys=False))
            args = ["run", str(d / "rs.yaml"), "-q"]
            for kk, v in ctx0.items():
                args += ["--context", f"{kk}={json.dumps(v)}"]
            code, so, se = rt.cli(args, cwd=d)
            if code != 0:
                raise RuntimeError(f"launch failed: {se[-300:]}")
        return run_k, [], lambda: None
    if mode == "queue":
        from semantiva.execution.job_queue.queue_orchestrator import QueueSemantivaOrchestrator
        from semantiva.execution.job_queue.worker import worker_loop
        from semantiva.execution.executor.executor import SequentialSemantivaExecutor
        from semantiva.execution.transport.in_memory import InMemorySemantivaTransport
        transport = InMemorySemantivaTransport()
        stop = threading.Event()
        lg = c15.quiet_logger()
        orch = QueueSemantivaOrchestrator(transport, stop_event=stop, logger=lg)
        orch.job_queue = c15.FastQueue()
        threads = [threading.Thread(target=orch.run_forever, daemon=True),
                   threading.Thread(target=worker_loop, daemon=True, args=(0, transport, SequentialSemantivaExecutor(), stop),
                                    kwargs={"logger": lg, "poll_interval": 0.001})]
        for t in threads:
            t.start()

        def run_k(k):
            futs = [orch.enqueue(copy.deepcopy(nodes), context=ContextType(copy.deepcopy(ctx0)), return_future=True) for _ in range(k)]
            for f in futs:
                try:
                    f.result(timeout=60)
                except Exception as exc:
                    if isinstance(exc, TimeoutError):
                        raise
            del futs, f
        run_k.extra_registries = lambda: {"queue.pending_futures": len(orch.pending_futures), "queue.job_queue": orch.job_queue.qsize()}

        def close():
            stop.set()
            orch.running = False
            for t in threads:
                t.join(timeout=5)
        return run_k, [transport], close
    raise ValueError(mode)


def measure(mode, nodes, ctx0, counts, d):
    run_k, transports, close = make_runner(mode, nodes, ctx0, d)
    try:
        run_k(2)                                   # warm-up
        base = snapshot()
        base["reg"].update(getattr(run_k, "extra_registries", lambda: {})())
        base_n = len(gc.get_objects())
        done, samples = 0, []
        for n in counts:
            run_k(n - done)
            done = n
            collect()
            reg = registries()
            reg.update(getattr(run_k, "extra_registries", lambda: {})())
            att = attribute_growth(base, transports)
            chans = sum(len(getattr(t, "_queues", {})) for t in transports)
            msgs = sum(len(q[0]) for t in transports for q in getattr(t, "_queues", {}).values())
            samples.append({"runs": n, "registries": {k: reg[k] - base["reg"].get(k, 0) for k in reg}, "objects": att, "transport_channels": chans,
                            "transport_messages": msgs})
        return samples
    finally:
        gc.unfreeze()
        close()


def explained(mode, runs_a, size_a, dn, growth, per_run):
    """Is `growth` over `dn` runs what 'every execution registers its generated classes again' predicts?  A run-space
    launch also builds the inspection and the Pipeline once: a per-launch constant inferred from the first sample."""
    if per_run is None:
        return False
    if mode != "run-space":
        return growth == dn * per_run
    per_launch = size_a - runs_a * per_run
    return 0 <= per_launch <= 4 * max(per_run, 1) and growth == dn * per_run + per_launch


def judge(mode, samples, generated_per_run=None, nodes_per_run=None):
    """Yield (signature, what, detail) for growth between the first and the last sample.  Growth that is exactly what
    a recorded mechanism predicts carries that mechanism's signature; any other amount gets a signature of its own."""
    a, b = samples[0], samples[-1]
    dn = b["runs"] - a["runs"]
    for name in b["registries"]:
        g = b["registries"][name] - a["registries"].get(name, 0)
        if g >= max(2, dn // 4) and name != "threads":
            sig = f"registry-growth:{name}"
            if name == "component-registry":
                sig += ":every-generated-class-registered-again" if explained(mode, a["runs"], a["registries"][name], dn, g, generated_per_run) \
                    else f":{g / dn:.2f}-per-run-with-{generated_per_run}-generated-classes"
            yield (sig, f"the process-wide registry '{name}' grows with the number of runs ({mode}: +{g} over {dn} runs)",
                   {"mode": mode, "generated_classes_per_run": generated_per_run, "samples": [{"runs": s["runs"], name: s["registries"][name]} for s in samples]})
    msgs = b["transport_messages"] - a["transport_messages"]
    for part, label in (("by_classes", "generated-classes"), ("by_transport", "transport-retained"), ("rest", "unattributed")):
        g = b["objects"][part] - a["objects"][part]
        if g >= max(4, dn // 2):
            sig = f"live-objects-growth:{label}"
            if part == "rest":
                top = sorted(b["objects"]["rest_types"], key=lambda t: -b["objects"]["rest_types"][t])[:2]
                sig += ":" + "+".join(top)
            if part == "by_classes" and not explained(mode, a["runs"], a["objects"]["new_classes"], dn,
                                                       b["objects"]["new_classes"] - a["objects"]["new_classes"], generated_per_run):
                sig += ":unexpected-class-count"
            if part == "by_transport":
                if mode in ("reused", "reused-traced", "run-space-api", "run-space") and nodes_per_run is not None and msgs == dn * nodes_per_run:
                    sig += ":one-unconsumed-message-per-node"
                elif mode == "queue" and msgs == 0:
                    sig += ":empty-channels-of-finished-jobs"
                else:
                    sig += f":{msgs / dn:.2f}-messages-per-run"
            yield (sig, f"the population of gc-tracked objects grows with the number of runs ({mode}: +{g} {label} over {dn} runs)",
                   {"mode": mode, "queued_messages_growth": msgs,
                    "samples": [{"runs": s["runs"], **{k: s["objects"][k] for k in ("total", "by_classes", "by_transport", "rest", "rest_types", "new_classes")}} for s in samples]})
    g = b["transport_channels"] - a["transport_channels"]
    if g >= max(2, dn // 4):
        sig = f"transport-channels-growth:{mode}" + (":two-channels-per-job" if mode == "queue" and g == 2 * dn else f":{g / dn:.2f}-per-run")
        yield (sig, f"the transport keeps channels of finished work ({mode}: +{g} over {dn} runs)",
               {"mode": mode, "samples": [{"runs": s["runs"], "channels": s["transport_channels"]} for s in samples]})


# ---------------------------------------------------------------------------------------------
# translator
# ---------------------------------------------------------------------------------------------

PROBE_NODES = [{"processor": "TSourceDef"}, {"processor": "TOp0"}, {"processor": "TProbe", "context_key": "p"}, {"processor": "rename:p:q"}]


def probe_flags():
    pipegen.setup()
    with rt.tempdir() as d:
        s = measure("fresh", PROBE_NODES, {}, [1, 3], d)
        caches = s[-1]["registries"]["component-registry"] == s[0]["registries"]["component-registry"]
        q = measure("queue", PROBE_NODES, {}, [1, 4], d)
        reclaims = q[-1]["transport_channels"] <= q[0]["transport_channels"]
    return caches, reclaims


def translate():
    caches, reclaims = probe_flags()
    b = core.lean_bool
    body = "namespace SemantivaModel.Generated.C18\n\n/-- a second execution of the same configuration registers no component class (probe) -/\n"
    body += f"def cachesGenerated : Bool := {b(caches)}\n/-- the in-memory transport drops the channels of a finished job (probe) -/\n"
    body += f"def reclaimsChannels : Bool := {b(reclaims)}\n\nend SemantivaModel.Generated.C18\n"
    core.write_generated("C18", body, ["semantiva/core/semantiva_component.py, semantiva/pipeline/nodes/_pipeline_node_factory.py (probed: registry size after repeated runs)",
                                       "semantiva/execution/transport/in_memory.py (probed: channels after queued jobs)"])
    return caches, reclaims


def generated_names(nodes, ctx0):
    """Names of the component classes one execution registers (a failing configuration still constructs all its nodes)."""
    from semantiva.pipeline import Pipeline, Payload
    from semantiva.context_processors import ContextType
    from semantiva.data_types import NoDataType

    def once():
        try:
            Pipeline(copy.deepcopy(nodes)).process(Payload(NoDataType(), ContextType(copy.deepcopy(ctx0))))
        except Exception:
            pass
    once()
    collect()
    before = {id(c) for c in component_classes()}
    keep = []
    try:
        p = Pipeline(copy.deepcopy(nodes))
        keep.append(p)
        p.process(Payload(NoDataType(), ContextType(copy.deepcopy(ctx0))))
    except Exception:
        pass
    return [c.__name__ for c in component_classes() if id(c) not in before]


def run(tier: str) -> int:
    rep = core.Report(PROP, tier)
    rnd = core.rng(PROP)
    pipegen.setup()
    try:
        caches, reclaims = translate()
    except Exception as exc:
        rep.add_broken(f"translator C18 failed: {exc!r}")
        caches, reclaims = None, None
    rep.coverage["flags"] = {"cachesGenerated": caches, "reclaimsChannels": reclaims}
    core.prove(rep, PROP, thorough=(tier == "thorough"))
    drv = None
    try:
        drv = core.Driver()
    except Exception as exc:
        rep.add_broken(f"correspondence C18: model driver unavailable ({exc!r})")
    counts = [50, 150] if tier == "quick" else [50, 150, 450]
    n_pipes = 3 if tier == "quick" else 10
    stats = {"pipelines": 0, "measurements": 0, "modes": {}, "runs": 0}
    mism, samples_out = [], []
    tried = 0
    # one pipeline made of derived (generated-per-construction) processors: a swept source, a swept operation, a swept probe and a slicer
    swept = [{"processor": "TSource", "derive": {"parameter_sweep": {"parameters": {"v": "(t,)"}, "variables": {"t": [1, 2]}, "collection": "TColl"}}},
             {"processor": "TMerge"},
             {"processor": "TOp1", "derive": {"parameter_sweep": {"parameters": {"a": "(s, u)"}, "variables": {"s": [3], "u": {"from_context": "us"}},
                                                                  "collection": "TColl", "mode": "by_position", "broadcast": True}}},
             {"processor": "slice:TOp0:TColl"},
             {"processor": "TMerge"},
             {"processor": "TProbeP", "derive": {"parameter_sweep": {"parameters": {"a": "(w,)"}, "variables": {"w": {"lo": 0.0, "hi": 1.0, "steps": 2}}}},
              "context_key": "probed"}]
    queue_of_cases = [(swept, {"us": [7, 8]})]
    while stats["pipelines"] < n_pipes + 1 and tried < 200:
        tried += 1
        if queue_of_cases:
            nodes, ctx0 = queue_of_cases.pop()
            stats["swept_pipeline"] = pipegen.run_real(nodes, ctx0)["outcome"]
        else:
            nodes, ctx0, _ = pipegen.gen_pipeline(rnd, max_len=5, p_misfit=0.0)
            ctx0 = {k: v for k, v in ctx0.items() if isinstance(v, (str, int)) and v != ""}
        if pipegen.run_real(nodes, ctx0)["outcome"] != "ok":
            continue
        if any(n["processor"] in ("TSink", "TPayloadSink") and "path" not in (n.get("parameters") or {}) for n in nodes):
            continue
        stats["pipelines"] += 1
        variants = [(nodes, False)]
        if stats["pipelines"] % 2 == 1:
            variants.append((nodes + [{"processor": "TFail"}] if pipegen.run_real(nodes + [{"processor": "TFail"}], ctx0)["cls"] == ("proc", "proc")
                             else [{"processor": "TSourceDef"}, {"processor": "TFail"}], True))
        with rt.tempdir() as d:
            for (nodes, failing), mode in [(v, m) for v in variants for m in ("reused", "fresh", "fresh-captured", "fresh-traced", "reused-traced", "run-space-api", "run-space", "queue")]:
                if failing and mode == "run-space":
                    continue          # a launch stops at its first failing run: nothing is repeated
                stats["failing_variants"] = stats.get("failing_variants", 0) + (1 if failing else 0)
                try:
                    s = measure(mode, nodes, ctx0, counts, d)
                except Exception as exc:  # noqa: BLE001
                    rep.notes.append(f"{mode}: measurement failed on {nodes}: {exc!r}")
                    continue
                stats["measurements"] += 1
                stats["modes"][mode] = stats["modes"].get(mode, 0) + 1
                stats["runs"] += counts[-1] + 2
                gen = generated_names(nodes, ctx0)
                for sig, what, det in judge(mode, s, generated_per_run=len(gen), nodes_per_run=len(nodes) - (1 if failing else 0)):
                    rep.add_violation(sig, what, {"nodes": nodes, "initial_context": ctx0, "finding": det})
                if len(samples_out) < 4:
                    samples_out.append({"mode": mode, "nodes": [n["processor"] for n in nodes], "samples": s})
                # ---- correspondence: registry size vs the model --------------------------------------------
                if drv is not None and caches is not None and mode == "fresh":
                    g = gen
                    ans = drv.run([{"m": "c18.runs", "id": 0, "caches": caches, "generated": g, "registry": [], "counts": [c + 2 for c in counts]}])[0]
                    if "err" in ans:
                        rep.add_broken(f"correspondence C18: driver error {ans['err']}")
                        drv = None
                    else:
                        want = [x - ans["ok"]["sizes"][0] for x in ans["ok"]["sizes"]]
                        got = [x["registries"]["component-registry"] - s[0]["registries"]["component-registry"] for x in s]
                        if want != got:
                            mism.append({"nodes": nodes, "generated": g, "model_growth": want, "real_growth": got})
    if mism:
        rep.add_broken(f"correspondence C18: registry growth differs from the model on {len(mism)} pipelines, first " + json.dumps(mism[0], default=str)[:600])
        rep.coverage["first_disagreements"] = mism[:3]
    rep.coverage.update({
        "evaluations": stats["runs"],
        "distinct_nontrivial": stats["measurements"],
        "rule": f"{n_pipes} succeeding pipelines from the C01 generator x four ways of repeating (one Pipeline object, fresh objects, a run-space launch through "
                f"the CLI, a queue worker) x run counts {counts} after a 2-run warm-up; sizes of 9 process-wide registries and the gc-tracked population "
                "(attributed to newly registered classes / transport-retained messages / rest) sampled at each count",
        "samples": samples_out,
        "traces_validated_against_impl": stats["measurements"],
        "generator_distribution": stats,
        "search": "same generator",
    })
    rep.assumptions += [
        "growth is judged between the first and the last sample: at least one registry entry per 4 runs, or one gc-tracked object per 2 runs",
        "objects are attributed by reachability (gc.get_referents) from classes registered since the warm-up and from the transports' queues",
    ]
    return rep.finish()


def replay(path: str) -> int:
    case = json.loads(open(path).read())
    print(json.dumps(case, indent=1, default=str)[:5000])
    return 0
