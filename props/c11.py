"""C11 — sweep expressions are confined to the safe grammar and their own variables.

translate  : behavioural extraction of the visitor's policy table (kinds let through, call targets,
             per (kind, field) child rule) by single-position probes of the real `_SafeVisitor`,
             plus the AST grammar of the running interpreter  -> Generated/C11.lean
prove      : Properties/C11.lean (generic, any depth) + Tie/C11.lean (`Policy.total Generated.policy`)
correspond : real visitor vs Lean `accepts` on spine-enumerated trees to depth 3 (thorough: all)
oracle     : (real code only) an expression accepted by `ExpressionEvaluator.compile` that is not
             confined; a rejection that is not ExpressionError; evaluation during compile; an
             accepted expression whose evaluation consults builtins.
"""
from __future__ import annotations

import ast
import builtins
import itertools
import json
import re

import warnings

from vlib import core

warnings.filterwarnings("ignore", category=SyntaxWarning)

PROP = "C11"
NAMES = ["x", "y"]

SPEC_KINDS = ["Expression", "Module", "Expr", "Load", "BinOp", "UnaryOp", "BoolOp", "Compare", "IfExp", "Call",
              "Name", "Constant", "Tuple", "Add", "Sub", "Mult", "Div", "FloorDiv", "Mod", "Pow", "USub", "UAdd",
              "And", "Or", "Eq", "NotEq", "Lt", "LtE", "Gt", "GtE"]
CARRIER_KINDS = ["keyword"]
SPEC_FUNCS = ["abs", "min", "max", "round", "float", "int", "str", "bool"]


class _Poison(ast.AST):
    """A node kind no whitelist contains."""
    _fields = ()


# ---------------------------------------------------------------------------------------------
# Grammar of the running interpreter
# ---------------------------------------------------------------------------------------------

_NON_AST_TYPES = {"identifier", "int", "string", "constant"}


def grammar():
    """kind -> [(field, type, quant)] with quant in {'', '?', '*'}; type family -> [concrete kinds]."""
    fields, families = {}, {}
    skip = {"Num", "Str", "Bytes", "NameConstant", "Ellipsis", "Index", "ExtSlice", "Suite", "AugLoad", "AugStore",
            "Param", "slice"}
    for name in sorted(dir(ast)):
        cls = getattr(ast, name)
        if not (isinstance(cls, type) and issubclass(cls, ast.AST)) or cls is ast.AST:
            continue
        if cls.__module__ != "ast" or name in skip:
            continue
        concrete_subs = [c for c in cls.__subclasses__() if c.__module__ == "ast" and c.__name__ not in skip]
        if concrete_subs:          # abstract sum type (expr, stmt, operator, ...)
            continue
        doc = (cls.__doc__ or "").strip()
        m = re.match(rf"{name}\((.*)\)\s*$", doc, re.S)
        flds = []
        if m:
            for part in [p.strip() for p in m.group(1).split(",") if p.strip()]:
                typ, fname = part.split()
                quant = ""
                if typ[-1] in "*?":
                    quant, typ = typ[-1], typ[:-1]
                flds.append((fname, typ, quant))
        if [f for f, _, _ in flds] != list(cls._fields):
            flds = [(f, "expr", "") for f in cls._fields]   # docstring unusable: treat every field as a child slot
        fields[name] = flds
        base = cls.__mro__[1]
        fam = name if base is ast.AST else base.__name__
        families.setdefault(fam, []).append(name)
    return fields, families


def ast_fields(fields, kind):
    return [(f, t, q) for (f, t, q) in fields.get(kind, []) if t not in _NON_AST_TYPES]


def reachable_kinds(fields, families, root="Expression"):
    seen, todo = [], [root]
    while todo:
        k = todo.pop()
        if k in seen or k not in fields:
            continue
        seen.append(k)
        for (_, t, _) in ast_fields(fields, k):
            for kk in families.get(t, []) or [t]:
                todo.append(kk)
    return sorted(seen)


# ---------------------------------------------------------------------------------------------
# Building trees (as real ast objects) and converting them
# ---------------------------------------------------------------------------------------------

class Builder:
    def __init__(self):
        self.fields, self.families = grammar()
        self.kinds = reachable_kinds(self.fields, self.families)

    def members(self, typ):
        ms = self.families.get(typ) or ([typ] if typ in self.fields else [])
        return [m for m in ms if m in self.fields]

    def minimal(self, kind, depth=0):
        """Smallest instance of `kind`: list/optional fields empty, required fields benign."""
        if kind == "_Poison":
            return _Poison()
        cls = getattr(ast, kind)
        kw = {}
        for (f, t, q) in self.fields[kind]:
            if t == "identifier":
                kw[f] = None if q == "?" else ("x" if kind == "Name" else "k")
            elif t == "int":
                kw[f] = None if q == "?" else (-1 if f == "conversion" else 0)
            elif t == "string":
                kw[f] = None
            elif t == "constant":
                kw[f] = 1
            elif q == "*":
                kw[f] = []
            elif q == "?":
                kw[f] = None
            else:
                kw[f] = self.benign(t, depth + 1)
        return cls(**kw)

    def benign(self, typ, depth=0):
        if typ == "expr":
            return ast.Constant(value=1)
        if typ == "expr_context":
            return ast.Load()
        if typ == "operator":
            return ast.Add()
        if typ == "unaryop":
            return ast.USub()
        if typ == "boolop":
            return ast.And()
        if typ == "cmpop":
            return ast.Lt()
        ms = self.members(typ)
        if not ms or depth > 4:
            return _Poison()
        return self.minimal(ms[0], depth)

    def with_child(self, kind, field, child):
        node = self.minimal(kind)
        for (f, t, q) in self.fields[kind]:
            if f == field:
                setattr(node, f, [child] if q == "*" else child)
        # keep a Call a direct call unless the probed field is func itself
        if kind == "Call" and field != "func":
            node.func = ast.Name(id="abs", ctx=ast.Load())
        return node


def to_json(node):
    """ast object -> ["Kind", ident|None, [[field, [children]], ...]] (AST-valued fields only)."""
    kind = type(node).__name__
    ident = node.id if isinstance(node, ast.Name) else None
    fs = []
    for f in node._fields:
        v = getattr(node, f, None)
        if isinstance(v, ast.AST):
            fs.append([f, [to_json(v)]])
        elif isinstance(v, list):
            cs = [to_json(c) for c in v if isinstance(c, ast.AST)]
            if cs or any(isinstance(c, ast.AST) for c in v) or v == []:
                # an empty AST-list field still exists in the tree
                fs.append([f, cs])
    return [kind, ident, fs]


def confined_py(j, names):
    """Python mirror of Lean `confined` (cross-checked against the driver on every case)."""
    kind, ident, fs = j
    if kind == "Name":
        return ident in names
    if kind == "Call":
        for f, cs in fs:
            if f == "func":
                if not (len(cs) == 1 and cs[0][0] == "Name" and cs[0][1] in SPEC_FUNCS):
                    return False
            elif not all(confined_py(c, names) for c in cs):
                return False
        return True
    if kind not in SPEC_KINDS and kind not in CARRIER_KINDS:
        return False
    return all(confined_py(c, names) for _, cs in fs for c in cs)


# ---------------------------------------------------------------------------------------------
# The real code
# ---------------------------------------------------------------------------------------------

def real():
    import importlib
    import semantiva.utils.safe_eval as se
    importlib.reload(se)
    return se


def visitor_accepts(se, tree, names=NAMES):
    """Run the real visitor on an ast object. Returns (accepted, error-class-name)."""
    try:
        se._SafeVisitor(set(names)).visit(tree)
        return True, None
    except se.ExpressionError:
        return False, "ExpressionError"
    except RecursionError:
        raise
    except Exception as exc:  # any other exception type is itself reportable
        return False, type(exc).__name__


def wrap(node):
    return ast.Expression(body=node)


# ---------------------------------------------------------------------------------------------
# translate: behavioural extraction of the policy
# ---------------------------------------------------------------------------------------------

def extract_policy(se, B: Builder):
    """Probe the real visitor one position at a time."""
    acc = lambda t: visitor_accepts(se, t)[0]
    kinds, rules = set(), {}
    problems = []
    if not acc(wrap(ast.Constant(value=1))):
        problems.append("visitor rejects the constant expression `1`")
    kinds.add("Expression")
    # hosts: path builders that place a node of a given type family under the root
    host_for = {"expr": lambda n: wrap(n)}
    classified_types = set()
    todo = ["Expression"]
    accepted_in = {}

    def place(kind_path, node):
        return kind_path(node)

    # breadth-first over accepted kinds
    queue = [("Expression", lambda n: n)]  # (kind, embed: instance -> root)
    embed_of = {"Expression": (lambda inst: inst)}
    visited_kinds = set()
    while queue:
        H, embedH = queue.pop(0)
        if H in visited_kinds:
            continue
        visited_kinds.add(H)
        if H == "Name":
            continue
        for (f, t, q) in ast_fields(B.fields, H):
            if H == "Call" and f == "func":
                continue
            poisoned = embedH(B.with_child(H, f, _Poison()))
            rule = "ignored" if acc(poisoned) else "visited"
            rules[(H, f)] = rule
            if rule != "visited":
                continue
            for K in B.members(t):
                inst = B.minimal(K)
                if K == "Call":
                    inst.func = ast.Name(id="abs", ctx=ast.Load())
                    inst.args = [ast.Constant(value=1)]
                root = embedH(B.with_child(H, f, inst))
                if acc(root):
                    if K not in kinds:
                        kinds.add(K)
                        queue.append((K, (lambda inst2, H=H, f=f, embedH=embedH: embedH(B.with_child(H, f, inst2)))))
    # names
    name_ok = acc(wrap(ast.Name(id="x", ctx=ast.Load())))
    name_bad = acc(wrap(ast.Name(id="zz_undeclared", ctx=ast.Load())))
    name_checked = name_ok and not name_bad
    if name_ok:
        kinds.add("Name")
    else:
        kinds.discard("Name")
    # call targets
    universe = sorted(set(dir(builtins)) | set(se.ExpressionEvaluator().env) | set(getattr(se._SafeVisitor, "_ALLOWED_FUNCS", ()))
                      | {"x", "zz_undeclared", "os", "sys", "np", "numpy", "math"})
    funcs = []
    for fn in universe:
        call = ast.Call(func=ast.Name(id=fn, ctx=ast.Load()), args=[ast.Constant(value=1)], keywords=[])
        if acc(wrap(call)):
            funcs.append(fn)
    if funcs:
        kinds.add("Call")
    else:
        kinds.discard("Call")
    return {"kinds": sorted(kinds), "funcs": funcs, "rules": sorted([k, f, r] for (k, f), r in rules.items()),
            "nameChecked": bool(name_checked)}, problems


def policy_total_py(policy, B: Builder):
    holes = []
    for k in policy["kinds"]:
        if k not in SPEC_KINDS and k not in CARRIER_KINDS:
            holes.append([k, "<kind>"])
    for f in policy["funcs"]:
        if f not in SPEC_FUNCS:
            holes.append(["Call", f"<func {f}>"])
    if not policy["nameChecked"]:
        holes.append(["Name", "<unchecked>"])
    rules = {(k, f): r for k, f, r in policy["rules"]}
    for k in policy["kinds"]:
        for (f, t, q) in ast_fields(B.fields, k):
            if (k == "Call" and f == "func") or k == "Name":
                continue
            if rules.get((k, f), "ignored") == "ignored":
                holes.append([k, f])
    return holes


def translate(B: Builder, se):
    policy, problems = extract_policy(se, B)
    gram = [[k, [f for (f, t, q) in ast_fields(B.fields, k)]] for k in B.kinds]
    L = core
    body = "import SemantivaModel.Model.SafeEval\nnamespace SemantivaModel.Generated.C11\nopen SemantivaModel.SafeEval\n\n"
    body += "def grammar : Grammar :=\n  " + L.lean_list(f"({L.lean_str(k)}, {L.lean_strs(fs)})" for k, fs in gram) + "\n\n"
    body += "def policy : Policy :=\n  { kinds := " + L.lean_strs(policy["kinds"]) + ",\n"
    body += "    funcs := " + L.lean_strs(policy["funcs"]) + ",\n"
    body += "    rules := " + L.lean_list(f"(({L.lean_str(k)}, {L.lean_str(f)}), .{r})" for k, f, r in policy["rules"]) + ",\n"
    body += "    nameChecked := " + L.lean_bool(policy["nameChecked"]) + " }\n\nend SemantivaModel.Generated.C11\n"
    core.write_generated("C11", body, ["semantiva/utils/safe_eval.py (behavioural probes of _SafeVisitor)", "python ast grammar"])
    return policy, gram, problems


# ---------------------------------------------------------------------------------------------
# Enumeration of trees
# ---------------------------------------------------------------------------------------------

def leaves(B: Builder):
    out = []
    for k in B.kinds:
        if k in ("Expression", "Module", "Interactive", "FunctionType"):
            continue
        out.append(lambda k=k: B.minimal(k))
    out.append(lambda: ast.Name(id="y", ctx=ast.Load()))
    out.append(lambda: ast.Name(id="zz_undeclared", ctx=ast.Load()))
    out.append(lambda: ast.Name(id="abs", ctx=ast.Load()))
    out.append(lambda: ast.Name(id="__import__", ctx=ast.Load()))
    for fn in ("abs", "max", "int", "eval", "__import__", "getattr", "x", "open"):
        out.append(lambda fn=fn: ast.Call(func=ast.Name(id=fn, ctx=ast.Load()), args=[ast.Constant(value=1)], keywords=[]))
    out.append(lambda: ast.Call(func=ast.Attribute(value=ast.Name(id="x", ctx=ast.Load()), attr="real", ctx=ast.Load()), args=[], keywords=[]))
    out.append(lambda: ast.Call(func=ast.Lambda(args=ast.arguments(posonlyargs=[], args=[], kwonlyargs=[], kw_defaults=[], defaults=[]), body=ast.Constant(value=1)), args=[], keywords=[]))
    for v in (None, True, 1.5, "s", b"b", ..., 2j):
        out.append(lambda v=v: ast.Constant(value=v))
    out.append(lambda: _Poison())
    return out


def positions(B: Builder):
    """(kind, field, type) for every AST child position of every reachable kind (and `Call.func`)."""
    out = []
    for k in B.kinds:
        for (f, t, q) in ast_fields(B.fields, k):
            out.append((k, f, t, q))
    return out


def type_ok(B: Builder, node, t):
    """Keep trees grammatically typed (an `operator` slot gets an operator, ...) except for poison."""
    if isinstance(node, _Poison):
        return True
    k = type(node).__name__
    return k in B.members(t)


def spine_trees(B: Builder, depth: int, rnd, limit: int | None):
    """Trees in which one child position per level is non-minimal. Exhaustive when limit is None."""
    lv = leaves(B)
    pos = positions(B)

    def place(k, f, q, child):
        node = B.minimal(k)
        setattr(node, f, [child] if q == "*" else child)
        if k == "Call" and f != "func":
            node.func = ast.Name(id="max", ctx=ast.Load())
        return node

    if limit is None:
        def gen(d):
            if d == 0:
                for mk in lv:
                    yield mk()
                return
            for (k, f, t, q) in pos:
                if k in ("Expression",):
                    continue
                for child in gen(d - 1):
                    if type_ok(B, child, t):
                        yield place(k, f, q, child)
        for d in range(depth):
            for t in gen(d):
                yield t
    else:
        for _ in range(limit):
            d = rnd.choice([1, 2, 2, 2]) if depth >= 3 else rnd.randrange(depth)
            node = rnd.choice(lv)()
            for _ in range(d):
                for _try in range(20):
                    (k, f, t, q) = rnd.choice(pos)
                    if k != "Expression" and type_ok(B, node, t):
                        node = place(k, f, q, node)
                        break
            yield node


# hosts for the escape-idiom corpus: every argument / keyword / operand position
HOSTS = ["{}", "abs({})", "max(1, {})", "max({}, 1)", "max(1, key={})", "max(1, default={})", "max(*{})", "max(**{})",
         "round(1.5, ndigits={})", "1 + {}", "{} + 1", "{} * x", "x ** {}", "-{}", "+{}", "{} if 1 else 2",
         "1 if {} else 2", "1 if 1 else {}", "1 < {}", "{} < 1", "0 < {} < 2", "1 and {}", "{} or 1", "({}, 1)",
         "(1, {})", "int({})", "str(({}, 2))", "min(max({}, 1), 2)", "abs(-({}))", "float(x if {} else y)"]
IDIOMS = ["__import__('os').system('true')", "().__class__.__bases__[0].__subclasses__()", "(lambda: 0)()",
          "lambda: 0", "[z for z in (1,)]", "{z for z in (1,)}", "{z: z for z in (1,)}", "(z for z in (1,))",
          "open('/etc/passwd')", "getattr(int, 'real')", "x.__class__", "x.real", "x[0]", "x[0:1]", "(w := 1)",
          "f'{x}'", "eval('1')", "exec('1')", "globals()", "locals()", "abs.__self__", "__builtins__", "[1, 2]",
          "{1: 2}", "{1, 2}", "not x", "~x", "x is y", "x in (1,)", "x @ y", "x << 1", "x | 1", "x & 1", "x ^ 1",
          "x >> 1", "await x", "(yield)", "*x", "compile('1','','eval')", "type(x)", "vars()", "dir()", "print(1)",
          "__import__", "os", "breakpoint()", "input()", "x.__init__.__globals__", "[].append(1)", "''.join(('a',))",
          "str.format('{0.__class__}', x)", "len(x)", "sorted(x)", "open(x)", "sum(x)", "len", "id(x)"]


def corpus():
    for h in HOSTS:
        for i in IDIOMS:
            try:
                src = h.format(i)
                ast.parse(src, mode="eval")
            except SyntaxError:
                continue
            yield src


# ---------------------------------------------------------------------------------------------
# Oracle helpers (real code only)
# ---------------------------------------------------------------------------------------------

class _SpyBuiltins(dict):
    def __init__(self):
        super().__init__()
        self.touched = []

    def __getitem__(self, k):
        self.touched.append(k)
        return getattr(builtins, k)

    def __contains__(self, k):
        return True


def compile_real(se, src, names=NAMES):
    """(accepted, errclass, fn, spy_calls_during_compile)"""
    calls = []

    def spy(*a, **k):
        calls.append(a)
        return 0

    ev = se.ExpressionEvaluator()
    for name in list(ev.env):
        orig = ev.env[name]
        ev.env[name] = (lambda *a, _o=orig, **k: (calls.append(1), _o(*a, **k))[1])
    try:
        fn = ev.compile(src, set(names))
        return True, None, (fn, ev), len(calls)
    except se.ExpressionError:
        return False, "ExpressionError", None, len(calls)
    except RecursionError:
        raise
    except Exception as exc:
        return False, type(exc).__name__, None, len(calls)


def eval_touches_builtins(fn_ev):
    fn, ev = fn_ev
    spy = _SpyBuiltins()
    ev.env["__builtins__"] = spy
    try:
        fn(x=3, y=2)
    except Exception:
        pass
    finally:
        ev.env.pop("__builtins__", None)
    return list(spy.touched)


# ---------------------------------------------------------------------------------------------
# The check
# ---------------------------------------------------------------------------------------------

def run(tier: str) -> int:
    rep = core.Report(PROP, tier)
    rnd = core.rng(PROP)
    B = Builder()
    try:
        se = real()
    except Exception as exc:
        rep.add_broken(f"import semantiva.utils.safe_eval failed: {exc!r}")
        return rep.finish()
    try:
        policy, gram, problems = translate(B, se)
    except Exception as exc:
        rep.add_broken(f"translator C11 could not extract a policy from _SafeVisitor: {exc!r}")
        policy, gram, problems = None, None, []
    for p in problems:
        rep.add_broken("translator C11: " + p)
    core.prove(rep, PROP, thorough=(tier == "thorough"))

    stats = {"trees": 0, "accepted_real": 0, "accepted_model": 0, "unconfined": 0, "by_root_kind": {},
             "compiled_via_public_api": 0, "corpus": 0, "evaluated": 0, "depth_bound": 3}
    samples = []
    holes = policy_total_py(policy, B) if policy else []
    rep.coverage["policy"] = policy
    rep.coverage["policy_holes"] = holes

    # ---- trees: real visitor vs model, and the oracle on public compile() ---------------------
    limit = None if tier == "thorough" else 20000
    trees = []
    seen = set()
    expr_kinds = set(B.members("expr"))
    for t in spine_trees(B, 3, rnd, limit):
        if not (isinstance(t, _Poison) or type(t).__name__ in expr_kinds):
            continue      # operator/keyword/comprehension-rooted trees only occur as children
        root = wrap(t)
        j = to_json(root)
        key = json.dumps(j)
        if key in seen:
            continue
        seen.add(key)
        trees.append((root, j))
    # biased search: every hole of the policy gets its own witnesses (escape idioms in that position)
    hole_trees = []
    for (k, f) in holes:
        if f.startswith("<"):
            continue
        for mk in leaves(B):
            child = mk()
            try:
                node = B.with_child(k, f, child)
                if k == "Call":
                    node.func = ast.Name(id="max", ctx=ast.Load())
                    node.args = [ast.Constant(value=1)]
                if k == "keyword":
                    node = ast.Call(func=ast.Name(id="max", ctx=ast.Load()), args=[ast.Constant(value=1)], keywords=[node])
                root = wrap(node)
                hole_trees.append((root, to_json(root)))
            except Exception:
                pass
    trees = hole_trees + trees

    reqs = []
    if policy is not None:
        reqs.append({"m": "c11.setup", "id": "setup", "policy": policy, "grammar": gram})
    for i, (root, j) in enumerate(trees):
        reqs.append({"m": "c11.accepts", "id": i, "names": NAMES, "tree": j})
    model = None
    if policy is not None:
        try:
            ans = core.Driver().run(reqs)
            if "err" in ans[0]:
                raise RuntimeError(ans[0]["err"])
            setup = ans[0]["ok"]
            model = ans[1:]
            if setup["total"] != (not holes):
                rep.add_broken(f"translator/driver disagree on Policy.total: lean={setup['total']} python holes={holes}")
        except Exception as exc:
            rep.add_broken(f"correspondence C11: model driver unavailable ({exc!r})")

    disagreements = []
    for i, (root, j) in enumerate(trees):
        stats["trees"] += 1
        rk = j[2][0][1][0][0] if j[2] and j[2][0][1] else "?"
        stats["by_root_kind"][rk] = stats["by_root_kind"].get(rk, 0) + 1
        acc, err = visitor_accepts(se, root)
        conf = confined_py(j, NAMES)
        if not conf:
            stats["unconfined"] += 1
        if acc:
            stats["accepted_real"] += 1
        if model is not None:
            m = model[i]
            if "err" in m:
                rep.add_broken(f"correspondence C11: driver error {m['err']}")
                model = None
            else:
                if m["ok"]["accepts"]:
                    stats["accepted_model"] += 1
                if m["ok"]["confined"] != conf:
                    rep.add_broken("correspondence C11: Lean `confined` and its Python mirror differ on " + json.dumps(j))
                if m["ok"]["accepts"] != acc:
                    disagreements.append(j)
        src = None
        try:
            src = ast.unparse(root)
            back = ast.parse(src, mode="eval")
            if ast.dump(back) != ast.dump(root):
                src = None
        except Exception:
            src = None
        if src is not None:
            stats["compiled_via_public_api"] += 1
            acc2, err2, fn, ncalls = compile_real(se, src)
            check_public(rep, se, src, j, acc2, err2, fn, ncalls, stats)
        else:
            if acc and not conf:
                rep.add_violation(signature_of(se, root), "the visitor accepts a tree containing an element outside the safe grammar",
                                  {"tree": j, "names": NAMES, "how": "_SafeVisitor(names).visit(tree) on a hand-built AST"})
        if len(samples) < 6 and i % 997 == 0:
            samples.append({"tree": j, "source": src, "real_accepts": acc, "confined": conf})
    if disagreements:
        rep.add_broken(f"correspondence C11: real visitor and Lean `accepts Generated.policy` differ on {len(disagreements)} trees, first: "
                       + json.dumps(disagreements[0]))
        rep.coverage["first_disagreements"] = disagreements[:5]

    # ---- escape-idiom corpus through the public API ---------------------------------------------
    first_pass = {}
    for src in corpus():
        stats["corpus"] += 1
        tree = ast.parse(src, mode="eval")
        j = to_json(tree)
        acc2, err2, fn, ncalls = compile_real(se, src)
        first_pass[src] = (acc2, err2)
        check_public(rep, se, src, j, acc2, err2, fn, ncalls, stats)
    # ---- the same corpus after other evaluators were used: evaluators built with extra functions (every builtin the corpus
    # calls), and sweep factories; the verdict of a default evaluator is a function of the text and the declared names only
    called = set()
    for src in first_pass:
        for n in ast.walk(ast.parse(src, mode="eval")):
            if isinstance(n, ast.Call) and isinstance(n.func, ast.Name) and hasattr(builtins, n.func.id):
                called.add(n.func.id)
    extras = {name: getattr(builtins, name) for name in sorted(called)}
    for maker in (lambda: se.ExpressionEvaluator(allowed_funcs=dict(extras)), lambda: se.ExpressionEvaluator(dict(extras)),
                  lambda: se.ExpressionEvaluator(allowed_funcs={})):
        try:
            other = maker()
            for text in ("x * 2", "abs(x) + y", "len(x)", "max(x, y)"):
                try:
                    other.compile(text, {"x", "y"})
                except Exception:  # noqa: BLE001  (not judged here: what an evaluator with extra functions accepts)
                    pass
        except Exception:  # noqa: BLE001
            pass
    stats["history_corpus"] = 0
    for src, (acc1, err1) in first_pass.items():
        acc2, err2, fn, ncalls = compile_real(se, src)
        stats["history_corpus"] += 1
        if (acc2, err2) != (acc1, err1):
            rep.add_violation("verdict-depends-on-history:other-evaluator-with-extra-functions",
                              "a default evaluator gives another verdict on the same text after an evaluator built with extra functions was used",
                              {"source": src, "declared": NAMES, "before": [acc1, err1], "after": [acc2, err2], "extra_functions": sorted(extras)})
    # accepted expressions must evaluate without builtins, and validation precedes evaluation
    for src in ["abs(x) + max(x, y) * 2", "round(x / y, 2) if x > y else int(y)", "(x, str(y), bool(x), float(1))",
                "min(x, y) // 2 % 3 ** 2", "-x and +y or 0", "x <= y != 2 >= 1 == 1"]:
        acc2, err2, fn, ncalls = compile_real(se, src)
        if not acc2:
            rep.add_violation("rejects-documented-grammar:" + src, "an expression over the documented grammar is rejected",
                              {"source": src, "error": err2})
        else:
            check_public(rep, se, src, to_json(ast.parse(src, mode="eval")), acc2, err2, fn, ncalls, stats)
    # ---- history: the verdict depends on the text and the declared names of *this* call only --------------------
    hist_texts = ["x + y", "max(x, y) * t", "abs(x) if y > 0 else t", "x + id_like", "str(x) + str(y)", "(x, y, t)", "min(x, t) - y"]
    for src in hist_texts:
        used = sorted({n.id for n in ast.walk(ast.parse(src, mode="eval")) if isinstance(n, ast.Name)} - set(getattr(se._SafeVisitor, "_ALLOWED_FUNCS", ())))
        if len(used) < 2:
            continue
        for order in ("wide-then-narrow", "narrow-then-wide", "other-evaluator"):
            stats["history_cases"] = stats.get("history_cases", 0) + 1
            narrow = used[:-1]
            ev1, ev2 = se.ExpressionEvaluator(), se.ExpressionEvaluator()
            def verdict(ev, names):
                try:
                    ev.compile(src, set(names))
                    return "accepted"
                except se.ExpressionError:
                    return "rejected"
                except Exception as exc:  # noqa: BLE001
                    return "raises " + type(exc).__name__
            if order == "wide-then-narrow":
                first, second = verdict(ev1, used), verdict(ev1, narrow)
                want = ("accepted", "rejected")
            elif order == "narrow-then-wide":
                first, second = verdict(ev1, narrow), verdict(ev1, used)
                want = ("rejected", "accepted")
            else:
                first, second = verdict(ev1, used), verdict(ev2, narrow)
                want = ("accepted", "rejected")
            if (first, second) != want:
                rep.add_violation(f"verdict-depends-on-history:{order}",
                                  "the same expression text gets a verdict that depends on an earlier compile with other declared names",
                                  {"source": src, "declared_all": used, "declared_narrow": narrow, "order": order, "verdicts": [first, second], "documented": list(want)})
    # ---- declared names are compared as whole identifiers: a name that merely resembles the declared ones is undeclared ------
    name_sets = [["file_format", "n_iter"], ["path", "open_angle"], ["offset"], ["x", "y", "t"], ["alpha_1", "beta"], ["maximum", "absolute"],
                 ["eval_count", "exec_time", "import_rate"], ["getattr_", "len_x"]]
    allowed_funcs = set(getattr(se._SafeVisitor, "_ALLOWED_FUNCS", ()))
    stats["name_confusion_cases"] = 0
    for declared in name_sets:
        texts = [", ".join(sorted(declared)), "".join(declared), repr(sorted(declared)), repr(set(declared)), " ".join(declared), "|".join(declared)]
        cands = set()
        for text in texts:
            for a in range(len(text)):
                for b in range(a + 1, min(len(text), a + 14) + 1):
                    w = text[a:b]
                    if w.isidentifier() and not __import__("keyword").iskeyword(w):
                        cands.add(w)
        for d in declared:
            cands.update({d.upper(), d.capitalize(), d + "_", "_" + d, d + "1", d[:-1], d[1:]})
        cands = sorted(c for c in cands if c and c.isidentifier() and c not in declared and c not in allowed_funcs
                       and not __import__("keyword").iskeyword(c))
        first = declared[0]
        for cand in cands:
            for src in (cand, f"{first} + {cand}", f"str({cand})", f"max(({first},), key={cand})"):
                stats["name_confusion_cases"] += 1
                ev = se.ExpressionEvaluator()
                try:
                    ev.compile(src, set(declared))
                    verdict = "accepted"
                except se.ExpressionError:
                    verdict = "rejected"
                except Exception as exc:  # noqa: BLE001
                    verdict = "raises " + type(exc).__name__
                if verdict != "rejected":
                    rep.add_violation("undeclared-name-accepted:resembles-declared",
                                      f"an expression using the undeclared name {cand!r} is {verdict} when the declared variables are {sorted(declared)}",
                                      {"source": src, "declared": sorted(declared), "undeclared_name": cand, "verdict": verdict,
                                       "is_builtin": hasattr(builtins, cand)})
                    break
    # ---- through the sweep factory: the declared names of *every* expression of a node are the sweep variables, nothing else ------
    try:
        from props import pipegen
        pipegen.setup()
        from semantiva.pipeline.node_preprocess import preprocess_node_config
        stats["factory_expression_sets"] = 0
        for params, variables, bad in (
                ({"a": "(t,)", "b": "(a, t)"}, {"t": [1, 2]}, "a"),                 # a later expression names an earlier *target parameter*
                ({"b": "(t,)", "a": "(b, t)"}, {"t": [1, 2]}, "b"),
                ({"a": "(t, b)", "b": "(t,)"}, {"t": [1, 2]}, "b"),                 # ... or a later one
                ({"a": "(t,)", "b": "(format, t)"}, {"t": [1]}, "format"),          # a builtin's name
                ({"a": "(u,)", "b": "(t,)"}, {"t": [1]}, "u"),                      # a plain undeclared name
                ({"a": "(a,)", "b": "(t,)"}, {"t": [1]}, "a"),                      # the expression's own target
        ):
            stats["factory_expression_sets"] += 1
            spec = {"processor": "TOp2", "derive": {"parameter_sweep": {"parameters": dict(params), "variables": dict(variables), "collection": "TColl"}}}
            try:
                preprocess_node_config(spec)
                verdict = "accepted"
            except Exception as exc:  # noqa: BLE001
                verdict = "rejected"
            if verdict != "rejected":
                rep.add_violation("undeclared-name-accepted:sweep-factory",
                                  f"a sweep node whose expressions {params} use {bad!r}, which is not one of its variables {sorted(variables)}, is accepted",
                                  {"node": spec, "undeclared_name": bad})
        for params, variables in (({"a": "(t,)", "b": "(t, s)"}, {"t": [1, 2], "s": [3]}), ({"a": "(a, b)", "b": "(b,)"}, {"a": [1], "b": [2]})):
            stats["factory_expression_sets"] += 1
            spec = {"processor": "TOp2", "derive": {"parameter_sweep": {"parameters": dict(params), "variables": dict(variables), "collection": "TColl"}}}
            try:
                preprocess_node_config(spec)
            except Exception as exc:  # noqa: BLE001
                rep.add_violation("rejects-documented-grammar:sweep-factory", f"a sweep node over declared variables only is rejected: {exc!r}", {"node": spec})
    except ImportError as exc:
        rep.notes.append(f"sweep-factory oracle skipped: {exc!r}")
    # rejected expression whose first operand would have an observable effect if evaluated early
    for src in ["abs(1) + zz_undeclared", "max(abs(1), (lambda: 0)())", "abs(1).real"]:
        acc2, err2, fn, ncalls = compile_real(se, src)
        if ncalls:
            rep.add_violation("evaluates-before-validation", "compile() evaluates (part of) an expression it then rejects",
                              {"source": src, "calls_seen_during_compile": ncalls})

    rep.coverage.update({
        "evaluations": stats["trees"] + stats["corpus"],
        "distinct_nontrivial": stats["unconfined"],
        "rule": "spine trees to depth 3 over every node kind reachable from ast.Expression in the running interpreter "
                "(one non-minimal child position per level; quick: 20000 sampled, thorough: all) plus the escape-idiom corpus "
                "in every host position; distinct by JSON form; non-trivial = not confined (must be rejected)",
        "exhaustive": tier == "thorough",
        "samples": samples,
        "traces_validated_against_impl": stats["trees"],
        "generator_distribution": stats,
        "search": "policy holes (kind, field) instantiated with every leaf/escape idiom in that position; spine trees; idiom corpus",
    })
    rep.assumptions += [
        "the visitor treats a node the same way at every depth (validated to depth 3 by the correspondence run; the theorem then covers any depth)",
        "ast.parse returns trees that are well-formed for the interpreter's grammar (Generated.grammar is read from the ast module itself)",
        "CPython's eval consults only globals/locals/builtins mappings for names (builtins access observed with a spy mapping)",
    ]
    return rep.finish()


def signature_of(se, root):
    """Failure class of an accepted-but-unconfined tree: the outermost child position the visitor lets
    something through in, although it rejects the same subtree when it is handed it directly."""
    def standalone_rejected(node):
        return not visitor_accepts(se, node)[0]

    def walk(node):
        kind = type(node).__name__
        for f in node._fields:
            v = getattr(node, f, None)
            cs = [v] if isinstance(v, ast.AST) else [c for c in v if isinstance(c, ast.AST)] if isinstance(v, list) else []
            for c in cs:
                if confined_py(to_json(c), NAMES) or (kind == "Call" and f == "func"):
                    continue
                if standalone_rejected(c):
                    return f"unvisited-position:{kind}.{f}"
                r = walk(c)
                if r:
                    return r
        if kind == "Call":
            fn = node.func
            if not (isinstance(fn, ast.Name) and fn.id in SPEC_FUNCS):
                return "accepts-call-target:" + (fn.id if isinstance(fn, ast.Name) else type(fn).__name__)
        if kind == "Name":
            return "accepts-undeclared-name"
        if kind not in SPEC_KINDS and kind not in CARRIER_KINDS:
            return f"accepts-unlisted-element:{kind}"
        return None
    return walk(root) or "accepts-unconfined"


def check_public(rep, se, src, j, acc, err, fn, ncalls, stats):
    conf = confined_py(j, NAMES)
    if ncalls:
        rep.add_violation("evaluates-before-validation", "compile() evaluates the expression (whitelisted function called during compile)",
                          {"source": src, "calls_seen_during_compile": ncalls})
    if acc and not conf:
        rep.add_violation(signature_of(se, ast.parse(src, mode="eval")), "ExpressionEvaluator.compile accepts an expression containing an element outside the safe grammar",
                          {"source": src, "names": NAMES, "tree": j})
    if not acc and not conf and err != "ExpressionError":
        rep.add_violation(f"rejects-with-{err}", f"an expression outside the safe grammar is rejected with {err} instead of the expression error", {"source": src})
    if acc and conf:
        stats["evaluated"] += 1
        touched = eval_touches_builtins(fn)
        if touched:
            rep.add_violation("evaluation-reaches-builtins", "evaluating an accepted expression looks names up in builtins",
                              {"source": src, "builtins_read": touched})


def replay(path: str) -> int:
    case = json.loads(open(path).read())
    se = real()
    c = case.get("case", {})
    print(json.dumps(case, indent=1)[:2000])
    if "source" in c:
        acc, err, fn, n = compile_real(se, c["source"], c.get("names", NAMES))
        j = to_json(ast.parse(c["source"], mode="eval"))
        print(f"real code: compile({c['source']!r}) accepted={acc} error={err}; confined={confined_py(j, NAMES)}")
        return 1 if (acc and not confined_py(j, NAMES)) else 0
    return 0
