"""C10 — tracing is purely observational and traces are reproducible.

translate  : the lifecycle shape of execute() (shared with C06) and a probe: does a traced run leave
             the Pipeline object's cached canonical spec unchanged?          -> Generated/C06, C10
prove      : Properties/C10.lean (trace_observational, reuse_reproducible) + Tie/C10.lean
oracle     : (real code only) for generated pipelines (succeeding and failing) and every detail level: the
             result / exception with trace=None equals the one with a JSONL driver attached; two runs of the
             same configuration and payload (fresh objects, the same object, after other executions) give
             JSONL equal after removing run id, timestamps, durations, sequence numbers.
"""
from __future__ import annotations

import copy
import json

import os
import subprocess
import sys
import textwrap

from vlib import core, rt
from props import pipegen, tracegen, idgen

_CHILD = textwrap.dedent('''
    import json, sys, logging
    logging.disable(logging.CRITICAL)
    sys.path.insert(0, "/verif")
    from props import pipegen, tracegen, c10
    case = json.load(open(sys.argv[1]))
    t = tracegen.traced_run(case["nodes"], case["ctx"], detail=case["detail"])
    print("RECS " + json.dumps([c10.normalise(r) for r in t["records"]], sort_keys=True, default=str))
''')


def fresh_process_records(nodes, ctx0, detail, d):
    (d / "child.py").write_text(_CHILD)
    (d / "case.json").write_text(json.dumps({"nodes": nodes, "ctx": ctx0, "detail": detail}))
    try:
        p = subprocess.run([sys.executable, str(d / "child.py"), str(d / "case.json")], capture_output=True, text=True, timeout=600,
                           env=dict(os.environ, PYTHONHASHSEED="random"), cwd="/")
    except subprocess.TimeoutExpired:
        return None
    line = next((l for l in p.stdout.splitlines() if l.startswith("RECS ")), None)
    return None if line is None else json.loads(line[5:])

PROP = "C10"
VOLATILE_TOP = {"run_id", "timestamp", "seq"}


def normalise(rec):
    r = copy.deepcopy(rec)
    for k in VOLATILE_TOP:
        r.pop(k, None)
    if isinstance(r.get("identity"), dict):
        r["identity"].pop("run_id", None)
    if isinstance(r.get("timing"), dict):
        for k in ("started_at", "finished_at", "wall_ms", "cpu_ms"):
            r["timing"].pop(k, None)
    return r


def diff_path(a, b, path=""):
    if type(a) is not type(b):
        return path or "/"
    if isinstance(a, dict):
        for k in sorted(set(a) | set(b)):
            if k not in a or k not in b:
                return f"{path}/{k}"
            d = diff_path(a[k], b[k], f"{path}/{k}")
            if d:
                return d
        return None
    if isinstance(a, list):
        if len(a) != len(b):
            return path + "[len]"
        for i, (x, y) in enumerate(zip(a, b)):
            d = diff_path(x, y, f"{path}[{i}]")
            if d:
                return d
        return None
    return None if a == b else path


def probe_copies_spec():
    pipegen.setup()
    from semantiva.pipeline import Pipeline, Payload
    from semantiva.context_processors import ContextType
    from semantiva.data_types import NoDataType
    from semantiva.trace.drivers.jsonl import JsonlTraceDriver
    nodes = [{"processor": "TSource", "derive": {"parameter_sweep": {"parameters": {"v": "x"}, "variables": {"x": [1, 2]}, "collection": "TColl"}}}]
    with rt.tempdir() as d:
        pipe = Pipeline(copy.deepcopy(nodes), trace=JsonlTraceDriver(str(d / "t.jsonl")))
        before = json.dumps(pipe.canonical_spec, sort_keys=True, default=str)
        pipe.process(Payload(NoDataType(), ContextType({})))
        after = json.dumps(pipe.canonical_spec, sort_keys=True, default=str)
    return before == after


def translate():
    shape, notes = tracegen.translate_shape()
    copies = probe_copies_spec()
    body = "namespace SemantivaModel.Generated.C10\n\n/-- a traced run leaves the Pipeline object's cached canonical spec unchanged (probe) -/\n"
    body += f"def copiesSpec : Bool := {core.lean_bool(copies)}\n\nend SemantivaModel.Generated.C10\n"
    core.write_generated("C10", body, ["semantiva/execution/orchestrator/orchestrator.py (probe: canonical_spec of a Pipeline before/after a traced run)"])
    return shape, copies


def outcome_view(res):
    if res["outcome"] == "ok":
        return {"outcome": "ok", "data": res["data"], "ctx": res["ctx"]}
    return {"outcome": res["outcome"], "type": type(res["exc"]).__name__, "message": str(res["exc"]), "started": res["started"]}


def run(tier: str) -> int:
    rep = core.Report(PROP, tier)
    rnd = core.rng(PROP)
    pipegen.setup()
    try:
        shape, copies = translate()
    except Exception as exc:
        rep.add_broken(f"translator C10 failed: {exc!r}")
        shape, copies = None, None
    rep.coverage["shape"] = shape
    rep.coverage["copies_spec"] = copies
    core.prove(rep, PROP, thorough=(tier == "thorough"))
    n_cases = 150 if tier == "quick" else 1500
    n_fresh = 6 if tier == "quick" else 60
    stats = {"pipelines": 0, "observational_runs": 0, "by_detail": {}, "failing": 0, "repro_fresh": 0, "repro_same_object": 0, "repro_after_history": 0,
             "with_sweep": 0}
    samples = []
    history_pool = []
    for i in range(n_cases):
        if i % 3 == 0:
            nodes = idgen.gen_config(rnd, with_sweep=0.9)
            ctx0 = {"seq_x": [1, 2], "seq_y": [3, 1], "seq_t": [4, 5], "a": "A", "v": "V"}
        else:
            nodes, ctx0, _ = pipegen.gen_pipeline(rnd, max_len=5, p_misfit=0.1)
        has_sweep = any("derive" in n for n in nodes)
        stats["with_sweep"] += 1 if has_sweep else 0
        history_pool.append((nodes, ctx0))
        stats["pipelines"] += 1
        plain = pipegen.run_real(nodes, ctx0)
        pv = outcome_view(plain)
        if pv["outcome"] != "ok":
            stats["failing"] += 1
        pub = {"nodes": nodes, "initial_context": ctx0}
        detail = rnd.choice(tracegen.DETAILS)
        stats["by_detail"][detail] = stats["by_detail"].get(detail, 0) + 1
        t1 = tracegen.traced_run(nodes, ctx0, detail=detail)
        stats["observational_runs"] += 1
        tv = outcome_view(t1["res"])
        if tv != pv:
            what = "outcome" if tv["outcome"] != pv["outcome"] else next((k for k in pv if pv.get(k) != tv.get(k)), "?")
            rep.add_violation(f"tracing-changes-{what}", f"with a trace driver attached (detail={detail}) the run's {what} differs from the untraced run",
                              dict(pub, detail=detail, untraced=pv, traced=tv))
            continue
        # ---- reproducibility: fresh object -----------------------------------------------------------
        t2 = tracegen.traced_run(nodes, ctx0, detail=detail)
        stats["repro_fresh"] += 1
        compare_traces(rep, pub, t1["records"], t2["records"], "fresh-objects", detail, has_sweep)
        # ---- after other executions in the process ------------------------------------------------------
        if i % 4 == 0 and len(history_pool) > 3:
            for other, octx in rnd.sample(history_pool, 3):
                tracegen.traced_run(other, octx, detail=rnd.choice(tracegen.DETAILS))
                pipegen.run_real(other, octx)
            t3 = tracegen.traced_run(nodes, ctx0, detail=detail)
            stats["repro_after_history"] += 1
            compare_traces(rep, pub, t1["records"], t3["records"], "after-history", detail, has_sweep)
        # ---- after sibling configurations (same shape, a different sweep / parameter at the same position) --------
        if has_sweep and i % 2 == 0:
            from props import c05
            sibs = [m for (_, m, _) in c05.mutations(nodes, rnd)]
            rnd.shuffle(sibs)
            for sib in sibs[:4]:
                try:
                    tracegen.traced_run(sib, ctx0, detail=detail)
                except Exception:
                    pass
            t4 = tracegen.traced_run(nodes, ctx0, detail=detail)
            stats["repro_after_siblings"] = stats.get("repro_after_siblings", 0) + 1
            compare_traces(rep, pub, t1["records"], t4["records"], "after-sibling-configurations", detail, has_sweep)
            # ---- a fresh interpreter ---------------------------------------------------------------------------
            if stats.get("repro_fresh_process", 0) < n_fresh:
                with rt.tempdir() as d:
                    fr = fresh_process_records(nodes, ctx0, detail, d)
                if fr is not None:
                    stats["repro_fresh_process"] = stats.get("repro_fresh_process", 0) + 1
                    compare_traces(rep, pub, json.loads(json.dumps(t4["records"], default=str)), fr, "fresh-process-vs-after-history", detail, has_sweep,
                                   already_normalised_b=True)
        # ---- the same Pipeline object twice --------------------------------------------------------------
        if plain["outcome"] != "constructError":
            ra, rb = same_object_twice(nodes, ctx0, detail)
            if ra is not None:
                stats["repro_same_object"] += 1
                compare_traces(rep, pub, ra, rb, "same-object", detail, has_sweep)
        if len(samples) < 4 and i % 37 == 0:
            samples.append({"nodes": nodes, "detail": detail, "outcome": pv["outcome"], "records": [r.get("record_type") for r in t1["records"]]})
    # ---- a class derived from a concrete processor, traced after its parent was: same records as in a fresh interpreter ------
    for parent, child, ctx0 in (("TOnlyHereParent", "TOnlyHereChild", {}), ("TOp1Def", "TOp1DefSub", {}), ("TOp2", "TOp2Sub", {"a": "A", "b": "B"}),
                                ("TOp1", "TOp1Sub", {"a": "A"})):
        detail = "all"
        tracegen.traced_run([{"processor": "TSourceDef"}, {"processor": parent}], {"a": "A"}, detail=detail)
        nodes = [{"processor": "TSourceDef"}, {"processor": child}, {"processor": parent}]
        here = tracegen.traced_run(nodes, ctx0, detail=detail)
        with rt.tempdir() as d:
            fr = fresh_process_records(nodes, ctx0, detail, d)
        if fr is not None:
            stats["repro_fresh_process_derived"] = stats.get("repro_fresh_process_derived", 0) + 1
            compare_traces(rep, {"nodes": nodes, "initial_context": ctx0, "history": f"a traced run of {parent} earlier in the process"},
                           json.loads(json.dumps(here["records"], default=str)), fr, "fresh-process-vs-after-parent-class", detail, False,
                           already_normalised_b=True)
    # ---- shorthand processors whose generated classes share a name, the earlier pipeline still alive: same records as in a fresh interpreter
    keep_alive = []
    for y, x, ctx0 in (('template:"x{a}":tag', 'template:"y{b}_{a}":tag', {"a": 1, "b": 2}), ("rename:m_n:out1", "rename:m.n:out1", {"m.n": 1, "m_n": 2}),
                       ("delete:run_id", "delete:run.id", {"run.id": 1, "run_id": 2})):
        detail = "all"
        first = tracegen.traced_run([{"processor": "TSourceDef"}, {"processor": y}], ctx0, detail=detail)
        keep_alive.append(first["res"].get("pipeline"))
        nodes = [{"processor": "TSourceDef"}, {"processor": x}, {"processor": "TOp0"}]
        here = tracegen.traced_run(nodes, ctx0, detail=detail)
        with rt.tempdir() as d:
            fr = fresh_process_records(nodes, ctx0, detail, d)
        if fr is not None:
            stats["repro_fresh_process_shorthand_history"] = stats.get("repro_fresh_process_shorthand_history", 0) + 1
            compare_traces(rep, {"nodes": nodes, "initial_context": ctx0, "history": f"a pipeline with {y} ran earlier and is still alive"},
                           json.loads(json.dumps(here["records"], default=str)), fr, "fresh-process-vs-after-similar-shorthand", detail, False,
                           already_normalised_b=True)
    del keep_alive
    exotic_payloads(rep, stats)
    hostile_data(rep, stats)
    launch_outcomes(rep, stats)
    exotic_parameters(rep, stats)
    failing_nodes(rep, stats)
    rep.coverage.update({
        "evaluations": stats["observational_runs"] + stats["repro_fresh"] + stats["repro_same_object"] + stats["repro_after_history"],
        "distinct_nontrivial": stats["pipelines"],
        "rule": "pipelines from the C01 generator (succeeding and failing, 10% misfits) and sweep configurations from the C04 generator; each run "
                "untraced and traced with a random detail level, traced again with fresh objects, with the same Pipeline object, and (every 4th) "
                "after three other traced executions",
        "samples": samples,
        "traces_validated_against_impl": stats["observational_runs"],
        "generator_distribution": stats,
        "search": "same generator",
    })
    rep.assumptions += [
        "volatile fields removed before comparing: run_id, timestamp(s), seq, timing.{started_at,finished_at,wall_ms,cpu_ms}",
        "summaries of the harness' data types are content-based (TData.__repr__ shows the term)",
    ]
    return rep.finish()


def exotic_payloads(rep, stats):
    """Tracing reads (hashes, reprs, serialises) live payload objects: reading must not consume or change them."""
    pipegen.setup()
    from semantiva.pipeline import Pipeline, Payload
    from semantiva.context_processors import ContextType
    from semantiva.data_types import NoDataType
    from semantiva.trace.drivers.jsonl import JsonlTraceDriver
    from props.components import TData

    def gen3():
        yield from (1, 2, 3)
    makers = {
        "list-iterator": lambda: iter([1, 2, 3]),
        "generator": gen3,
        "map-object": lambda: map(int, ["1", "2", "3"]),
        "zip-object": lambda: zip([1, 2], [3, 4]),
        "reversed": lambda: reversed([1, 2, 3]),
        "dict-view": lambda: {"a": 1, "b": 2}.keys(),
        "set": lambda: {3, 1, 2},
        "range": lambda: range(3),
        "bytes": lambda: b"abc",
    }
    for kind, mk in makers.items():
        for where in ("context", "data"):
            def payload():
                if where == "context":
                    return [{"processor": "TSourceDef"}, {"processor": "TOpConsume"}], Payload(NoDataType(), ContextType({"chunks": mk()}))
                return [{"processor": "TOpDrain"}], Payload(TData(mk()), ContextType({}))

            def outcome(trace):
                nodes, pl = payload()
                try:
                    pipe = Pipeline(nodes, trace=trace) if trace is not None else Pipeline(nodes)
                    out = pipe.process(pl)
                    return ("ok", json.dumps(pipegen.enc(out.data.data), default=str, sort_keys=True))
                except BaseException as exc:  # noqa: BLE001
                    return ("raises", type(exc).__name__, str(exc)[:120])
            plain = outcome(None)
            for detail in tracegen.DETAILS:
                with rt.tempdir() as d:
                    traced = outcome(JsonlTraceDriver(str(d / "t.jsonl"), detail=detail))
                stats["exotic_payload_runs"] = stats.get("exotic_payload_runs", 0) + 1
                if traced != plain:
                    rep.add_violation(f"tracing-changes-result:{kind}:{where}:{detail}",
                                      f"with a trace driver attached (detail={detail}) a run whose {where} carries a {kind} returns something else than the untraced run",
                                      {"kind": kind, "where": where, "detail": detail, "untraced": plain, "traced": traced})


def hostile_data(rep, stats):
    """Data objects whose special methods raise or lie (len() of a 0-d array, repr of a proxy, a negative __len__): tracing
    inspects the live data; whatever it calls must not change what the run returns or raises."""
    pipegen.setup()
    from semantiva.pipeline import Pipeline, Payload
    from semantiva.context_processors import ContextType
    from semantiva.trace.drivers.jsonl import JsonlTraceDriver
    from props.components import HOSTILE, TData
    for kind in HOSTILE:
        for where in ("input", "output", "middle"):
            def payload():
                if where == "input":
                    return [{"processor": "TOp0"}], Payload(HOSTILE[kind](["h-in"]), ContextType({"k": 1}))
                if where == "output":
                    return [{"processor": "TOpMakeHostile", "parameters": {"kind": kind}}], Payload(TData(["plain"]), ContextType({"k": 1}))
                return ([{"processor": "TOp0"}, {"processor": "TOpMakeHostile", "parameters": {"kind": kind}}, {"processor": "TOp0"},
                         {"processor": "TProbe", "context_key": "seen"}], Payload(TData(["plain"]), ContextType({})))

            def outcome(trace):
                nodes, pl = payload()
                try:
                    pipe = Pipeline(nodes, trace=trace) if trace is not None else Pipeline(nodes)
                    out = pipe.process(pl)
                    return ("ok", type(out.data).__name__, json.dumps(pipegen.enc(out.data.data), default=str, sort_keys=True),
                            sorted(out.context.to_dict()))
                except BaseException as exc:  # noqa: BLE001
                    return ("raises", type(exc).__name__, str(exc)[:120])
            plain = outcome(None)
            for detail in tracegen.DETAILS:
                with rt.tempdir() as d:
                    traced = outcome(JsonlTraceDriver(str(d / "t.jsonl"), detail=detail))
                stats["hostile_data_runs"] = stats.get("hostile_data_runs", 0) + 1
                if traced != plain:
                    rep.add_violation(f"tracing-changes-result:hostile-data:{kind}:{where}:{detail}",
                                      f"with a trace driver attached (detail={detail}) a run whose {where} data is an object whose {kind} "
                                      "returns or raises something else than the untraced run",
                                      {"kind": kind, "where": where, "detail": detail, "untraced": plain, "traced": traced})


def launch_outcomes(rep, stats):
    """A run-space launch through the CLI, untraced and traced (single file / directory x detail levels): the exit status and
    what the runs wrote must be the same — the driver is shared by all runs of a launch and by the launch's own lifecycle records."""
    import yaml
    for variant in ("all-succeed", "second-run-fails", "one-run"):
        outcomes = {}
        for how in ["untraced"] + [f"{mode}:{detail}" for mode in ("file", "dir") for detail in tracegen.DETAILS]:
            with rt.tempdir() as d:
                sink = str(d / "sink.txt")
                vs = ["r0", "r1", "r2"] if variant != "one-run" else ["r0"]
                bad = ["fine"] * len(vs)
                if variant == "second-run-fails":
                    bad[1] = "boom"
                cfg = {"extensions": ["props.components"],
                       "pipeline": {"nodes": [{"processor": "TSource"}, {"processor": "TFailIf"}, {"processor": "TOp0"},
                                              {"processor": "TProbe", "context_key": "seen"}, {"processor": "TSink", "parameters": {"path": sink}}]},
                       "run_space": {"blocks": [{"mode": "by_position", "context": {"v": vs, "bad": bad}}]}}
                if how != "untraced":
                    mode, detail = how.split(":")
                    out = d / ("trace.jsonl" if mode == "file" else "trace_dir")
                    cfg["trace"] = {"driver": "jsonl", "output_path": str(out), "options": {"detail": detail}}
                (d / "cfg.yaml").write_text(yaml.safe_dump(cfg, sort_keys=False))
                code, so, se = rt.cli(["run", str(d / "cfg.yaml"), "-q"], cwd=d)
                written = (d / "sink.txt").read_text() if (d / "sink.txt").exists() else None
                outcomes[how] = (code, written, "uncaught" if "uncaught exception leaving" in se else "")
                stats["launch_outcome_runs"] = stats.get("launch_outcome_runs", 0) + 1
        base = outcomes["untraced"]
        for how, got in outcomes.items():
            if got != base:
                rep.add_violation(f"tracing-changes-launch:{variant}:{how.split(':')[0]}",
                                  f"a run-space launch ({variant}) traced as {how} ends differently from the untraced launch",
                                  {"variant": variant, "traced_as": how, "untraced": base, "traced": got})


EXOTIC_VALUES = {
    "nan": float("nan"), "inf": float("inf"), "-inf": float("-inf"), "lone-surrogate": "r\udce9sultat", "astral": "\U0001d6fc-\U0001f600",
    "huge-int": 10 ** 30, "bytes": b"ab\xff", "tuple": (1, 2), "set": {1}, "complex": 1 + 2j, "long-string": "x" * 5000,
    "date": __import__("datetime").date(2024, 1, 2), "datetime": __import__("datetime").datetime(2024, 1, 2, 3, 4, 5), "frozenset": frozenset({1}),
    "control-chars": "a\x00b\x1fc\n", "nested-nan": {"k": [float("nan")]}, "empty-string": "", "multi-line": "first line\nsecond line\n",
    # mappings whose keys cannot be ordered against each other, or are not strings at all
    "mixed-key-dict": {1: "a", "b": 2}, "none-key-dict": {None: 1, "a": 2}, "tuple-key-dict": {(1, 2): 3}, "int-key-dict": {2: "x", 10: "y"},
    "nested-mixed-keys": {"outer": [{1: "a", "b": 2}]}, "bool-int-keys": {True: "t", 2: "two"}, "float-str-keys": {1.5: "f", "s": 0},
}
try:
    import numpy as _np

    class _Elementwise:
        """A value whose == is element-wise (like arrays, series, symbolic expressions): the result has no truth value."""
        def __init__(self, xs):
            self.xs = list(xs)

        def __eq__(self, other):
            class _NoTruth(list):
                def __bool__(self):
                    raise ValueError("The truth value of an element-wise comparison is ambiguous")
            return _NoTruth([a == b for a, b in zip(self.xs, getattr(other, "xs", []))])

        __hash__ = None

        def __repr__(self):
            return f"Elementwise({self.xs!r})"

    EXOTIC_VALUES.update({"numpy-array": _np.array([1.0, 2.0, 3.0]), "numpy-empty-array": _np.array([]), "numpy-2d": _np.ones((2, 2)),
                          "numpy-scalar": _np.float64(2.5), "numpy-int": _np.int64(7), "elementwise-eq": _Elementwise([1, 2])})
except Exception:  # noqa: BLE001  (numpy is a dependency of semantiva; the values are simply left out if it is missing)
    pass
FAILING_NODES = ["TFail", "TFailEmpty", "TFailKeyObj", "TFailKw", "TFailKI"]


def exotic_parameters(rep, stats):
    """Unusual but legal parameter values (non-finite floats, lone surrogates, bytes, ...) in the node configuration and in
    the context: a traced run must return or raise exactly what the untraced run does, at every detail level."""
    pipegen.setup()
    from semantiva.pipeline import Pipeline, Payload
    from semantiva.context_processors import ContextType
    from semantiva.data_types import NoDataType
    from semantiva.trace.drivers.jsonl import JsonlTraceDriver

    def view(x):
        try:
            return json.dumps(pipegen.enc(x), sort_keys=True, default=repr)
        except Exception:
            return repr(x)
    for kind, val in EXOTIC_VALUES.items():
        for where in ("node-config", "context", "error-message", "sweep-values"):
            if where == "error-message" and not isinstance(val, str):
                continue
            def build():
                if where == "sweep-values":
                    return [{"processor": "TSource", "derive": {"parameter_sweep": {"parameters": {"v": "(t,)"}, "variables": {"t": [val, 1]},
                                                                                   "collection": "TColl"}}}, {"processor": "TMerge"}], {}
                if where == "node-config":
                    return [{"processor": "TSource", "parameters": {"v": val}}, {"processor": "TOp0"}], {}
                if where == "context":
                    return [{"processor": "TSourceDef"}, {"processor": "TOp1"}], {"a": val}
                return [{"processor": "TSourceDef"}, {"processor": "TFailMsg", "parameters": {"msg": val}}, {"processor": "TOp0"}], {}

            def outcome(trace):
                nodes, ctx = build()
                try:
                    pipe = Pipeline(nodes, trace=trace) if trace is not None else Pipeline(nodes)
                    out = pipe.process(Payload(NoDataType(), ContextType(dict(ctx))))
                    return ("ok", view(out.data.data))
                except BaseException as exc:  # noqa: BLE001
                    return ("raises", type(exc).__name__)
            plain = outcome(None)
            for detail in tracegen.DETAILS:
                for to_file in (True, False):
                    with rt.tempdir() as d:
                        target = d / ("t.jsonl" if to_file else "tdir")
                        traced = outcome(JsonlTraceDriver(str(target), detail=detail))
                    stats["exotic_parameter_runs"] = stats.get("exotic_parameter_runs", 0) + 1
                    if traced != plain:
                        rep.add_violation(f"tracing-changes-outcome:exotic-value:{kind}:{where}",
                                          f"with a trace driver attached (detail={detail}) a run with a {kind} value in the {where} does not return / raise what the untraced run does",
                                          {"kind": kind, "where": where, "detail": detail, "untraced": plain, "traced": traced, "value": repr(val)[:80]})


def failing_nodes(rep, stats):
    """A node failing with an exception that has no message, a non-JSON argument, a keyword-only constructor, or that is a
    BaseException: the traced run must raise exactly what the untraced run raises."""
    pipegen.setup()
    from semantiva.trace.drivers.jsonl import JsonlTraceDriver
    for proc in FAILING_NODES:
        for pos in (1, 2):
            nodes = [{"processor": "TSourceDef"}, {"processor": "TOp0"}, {"processor": "TOp0"}]
            nodes.insert(pos, {"processor": proc})
            plain = pipegen.run_real(nodes, {})
            pv = (plain["outcome"], type(plain["exc"]).__name__, repr(plain["exc"])[:200], plain["started"])
            for detail in tracegen.DETAILS:
                with rt.tempdir() as d:
                    traced = pipegen.run_real(nodes, {}, trace=JsonlTraceDriver(str(d / "t.jsonl"), detail=detail))
                tv = (traced["outcome"], type(traced["exc"]).__name__, repr(traced["exc"])[:200], traced["started"])
                stats["failing_node_runs"] = stats.get("failing_node_runs", 0) + 1
                if tv != pv:
                    rep.add_violation(f"tracing-changes-exception:{proc}",
                                      f"with a trace driver attached (detail={detail}) a run failing in {proc} raises something else than the untraced run",
                                      {"nodes": nodes, "detail": detail, "untraced": pv, "traced": tv})


def compare_traces(rep, pub, ra, rb, how, detail, has_sweep, already_normalised_b=False):
    na = [normalise(r) for r in ra]
    nb = rb if already_normalised_b else [normalise(r) for r in rb]
    if already_normalised_b:
        na = json.loads(json.dumps(na, sort_keys=True, default=str))
    if na == nb:
        return
    where = "[record count]"
    if len(na) == len(nb):
        for x, y in zip(na, nb):
            d = diff_path(x, y, x.get("record_type", "?"))
            if d:
                where = d
                break
    rep.add_violation(f"trace-not-reproducible:{how}:{where.split('[')[0]}:{'sweep' if has_sweep else 'plain'}",
                      f"two traced runs of the same configuration and payload ({how}, detail={detail}) differ at {where} after removing the volatile fields",
                      dict(pub, detail=detail, how=how, first=na[:3], second=nb[:3]))


def same_object_twice(nodes, ctx0, detail):
    pipegen.setup()
    from semantiva.pipeline import Pipeline, Payload
    from semantiva.context_processors import ContextType
    from semantiva.data_types import NoDataType
    from semantiva.trace.drivers.jsonl import JsonlTraceDriver
    out = []
    with rt.tempdir() as d:
        try:
            pipe = Pipeline(copy.deepcopy(nodes))
        except Exception:
            return None, None
        for k in range(2):
            target = d / f"run{k}.jsonl"
            pipe.trace = JsonlTraceDriver(str(target), detail=detail)
            try:
                pipe.process(Payload(NoDataType(), ContextType(copy.deepcopy(ctx0))))
            except BaseException:
                pass
            out.append(rt.read_trace(target) if target.exists() else [])
    return out[0], out[1]


def replay(path: str) -> int:
    case = json.loads(open(path).read())
    print(json.dumps(case, indent=1, default=str)[:4000])
    return 0
