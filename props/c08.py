"""C08 — run-space expansion yields exactly the documented ordered list of runs; cap enforced early.

prove      : Properties/C08.lean (sorted keys, product order/size/keys, aligned positions, planned
             total = materialised size, cap decided on the planned total, validation precedence)
correspond : real expand_run_space (dataclass door and YAML door) vs Lean `expand` on generated
             specs: ordered run list, or error class
oracle     : (real code only) a spec whose planned total exceeds max_runs must raise the max-runs
             error promptly (subprocess under an address-space limit and a time limit); specs the
             property says must be rejected are rejected.
No translator: the model is hand-written; the tie is the correspondence run.
"""
from __future__ import annotations

import csv
import io
import json
import os
import subprocess
import sys
import textwrap
import time

import yaml

from vlib import core, rt

PROP = "C08"
KEYS = ["a", "B", "c", "D", "_e", "Z", "aa", "Ab", "b", "é"]       # mixed case, underscore, non-ASCII: keys sort by code point
MODES = ["by_position", "combinatorial"]


def tok(v):
    return json.dumps(v, sort_keys=True)


def gen_values(rnd, n):
    pool = [0, 1, 2, -3, 1.5, 2.25, "x", "yy", True, False, None, [1, 2], {"k": 1}, "1", ""]
    return [rnd.choice(pool) for _ in range(n)]


CSV_CELLS = [("7", 7), ("-2", -2), ("1.5", 1.5), ("0.25", 0.25), ("true", True), ("False", False), ("word", "word"),
             ("x y", "x y"), ("1e3", "1e3"), ("3.", 3.0)]


def gen_source(rnd, d, idx, used_keys, case_id=0):
    fmt = rnd.choice(["csv", "json", "yaml", "ndjson"])
    ncols = rnd.randrange(1, 4)
    nrows = rnd.randrange(0, 5) if rnd.random() < 0.9 else 0
    names = []
    pool = [k for k in KEYS if k not in used_keys] or KEYS
    for _ in range(ncols):
        k = rnd.choice(pool) if rnd.random() < 0.9 else rnd.choice(KEYS)   # sometimes clashes with context
        if k not in names:
            names.append(k)
    mapping_shape = fmt in ("json", "yaml") and rnd.random() < 0.4
    cols = {}
    path = d / f"c{case_id}_src{idx}.{fmt}"
    if fmt == "csv":
        rows = [[rnd.choice(CSV_CELLS) for _ in names] for _ in range(nrows)]
        buf = io.StringIO()
        w = csv.writer(buf)
        w.writerow([(" " + n if rnd.random() < 0.2 else n) for n in names])
        for r in rows:
            w.writerow([c[0] for c in r])
        path.write_text(buf.getvalue())
        cols = {n: [r[i][1] for r in rows] for i, n in enumerate(names)}
    elif mapping_shape:
        payload = {}
        for n in names:
            if rnd.random() < 0.25:
                v = rnd.choice([5, "s", 2.5, True])
                payload[n] = v
                cols[n] = [v]
            else:
                ln = rnd.randrange(0, 4)
                payload[n] = gen_values(rnd, ln)
                cols[n] = list(payload[n])
        path.write_text(json.dumps(payload) if fmt == "json" else yaml.safe_dump(payload))
    else:
        rows = [{n: v for n, v in zip(names, gen_values(rnd, len(names)))} for _ in range(nrows)]
        if fmt == "json":
            path.write_text(json.dumps(rows))
        elif fmt == "yaml":
            path.write_text(yaml.safe_dump(rows))
        else:
            path.write_text("\n".join(json.dumps(r) for r in rows) + ("\n\n" if rows else ""))
        cols = {n: [r[n] for r in rows] for n in names} if rows else {}
    select = None
    if rnd.random() < 0.35 and names:
        select = [n for n in names if rnd.random() < 0.7]
        rnd.shuffle(select)
        if rnd.random() < 0.2:
            select.append("nope")          # missing column
    rename = {}
    if rnd.random() < 0.35 and names:
        for n in names:
            if rnd.random() < 0.5:
                rename[n] = rnd.choice(["r1", "r2", n + "_x"]) if rnd.random() < 0.85 else rnd.choice(names)
    if len(names) >= 2 and rnd.random() < 0.15:
        # a column renamed onto another column of the same source that is itself not renamed: a collision in either column order
        a, b = rnd.sample(names, 2)
        rename = {a: b}
        if select is not None and rnd.random() < 0.5:
            select = [a, b] if rnd.random() < 0.5 else [b, a]
    mode = rnd.choice(MODES) if rnd.random() < 0.7 else "by_position"
    # the YAML door leaves out defaults half of the time (source.mode defaults to by_position whatever the block's mode)
    return {"format": fmt, "path": path.name, "select": select, "rename": rename, "mode": mode, "_cols": cols,
            "_omit_defaults": rnd.random() < 0.5}


def directed_specs(d):
    """Specs that are part of every run, whatever the seed: each block / source mode pairing with a two-column, two-row source,
    through both doors, the source mode written out and left to its default."""
    (d / "dir_src.csv").write_text("B,c\n1,10\n2,20\n")
    cols = {"B": [1, 2], "c": [10, 20]}
    out = []
    for door in ("yaml", "dataclass"):
        for bmode, smode, omit, ctx in (("combinatorial", "by_position", True, {"a": [7, 8]}), ("combinatorial", "by_position", False, {"a": [7, 8]}),
                                        ("combinatorial", "combinatorial", False, {"a": [7, 8]}), ("by_position", "combinatorial", False, {"a": [1, 2, 3, 4]}),
                                        ("by_position", "by_position", True, {"a": [7, 8]}), ("by_position", "by_position", True, {}),
                                        ("combinatorial", "by_position", True, {})):
            src = {"format": "csv", "path": "dir_src.csv", "select": None, "rename": {}, "mode": smode, "_cols": {k: list(v) for k, v in cols.items()},
                   "_omit_defaults": omit}
            out.append({"blocks": [{"mode": bmode, "context": {k: list(v) for k, v in ctx.items()}, "source": src}], "combine": "combinatorial",
                        "max_runs": 1000, "_door": door})
    return out


def gen_spec(rnd, d, case_id=0):
    nblocks = rnd.choice([0, 1, 1, 2, 2, 3, 4])
    blocks = []
    used = []
    for bi in range(nblocks):
        mode = rnd.choice(MODES)
        nkeys = rnd.choice([0, 1, 2, 2, 3])
        ctx = {}
        base_len = rnd.randrange(0, 5) if rnd.random() < 0.15 else rnd.randrange(1, 4)
        pool = [k for k in KEYS if k not in used]
        for _ in range(nkeys):
            k = rnd.choice(pool) if (pool and rnd.random() < 0.93) else rnd.choice(KEYS)
            ln = base_len if (mode == "by_position" and rnd.random() < 0.88) else rnd.randrange(0, 4) if rnd.random() < 0.3 else rnd.randrange(1, 4)
            ctx[k] = gen_values(rnd, ln)
        # shuffle declaration order: sorted-key iteration must not depend on it
        items = list(ctx.items())
        rnd.shuffle(items)
        ctx = dict(items)
        src = gen_source(rnd, d, bi, list(ctx) + used, case_id) if rnd.random() < 0.35 else None
        if mode == "by_position" and src is not None and src["mode"] == "combinatorial" and ctx and rnd.random() < 0.8:
            # an aligned block whose source contributes the *product* of its columns: the context lists are as long as that product
            prod = 1
            for vs in src["_cols"].values():
                prod *= len(vs)
            if 0 < prod <= 30:
                ctx = {k: gen_values(rnd, prod) for k in ctx}
        used += list(ctx) + (list(src["_cols"]) if src else [])
        blocks.append({"mode": mode, "context": ctx, "source": src})
    return {"blocks": blocks, "combine": rnd.choice(MODES) if rnd.random() < 0.4 else "combinatorial", "max_runs": 1000}


def model_spec(spec):
    bs = []
    for b in spec["blocks"]:
        src = None
        if b["source"] is not None:
            s = b["source"]
            src = {"mode": s["mode"], "cols": [[k, [tok(v) for v in vs]] for k, vs in s["_cols"].items()],
                   "select": s["select"], "rename": [[a, c] for a, c in s["rename"].items()]}
        bs.append({"mode": b["mode"], "context": [[k, [tok(v) for v in vs]] for k, vs in b["context"].items()], "source": src})
    return {"blocks": bs, "combine": spec["combine"], "max_runs": spec["max_runs"]}


def yaml_text(spec):
    block = {"combine": spec["combine"], "max_runs": spec["max_runs"], "blocks": []}
    for b in spec["blocks"]:
        e = {"mode": b["mode"]}
        if b["context"]:
            e["context"] = b["context"]
        if b["source"] is not None:
            s = b["source"]
            se = {"format": s["format"], "path": s["path"]}
            if not (s.get("_omit_defaults") and s["mode"] == "by_position"):
                se["mode"] = s["mode"]
            if s["select"] is not None:
                se["select"] = s["select"]
            if s["rename"]:
                se["rename"] = s["rename"]
            e["source"] = se
        block["blocks"].append(e)
    return yaml.safe_dump({"extensions": ["semantiva-examples"], "run_space": block,
                           "pipeline": {"nodes": [{"processor": "FloatValueDataSourceWithDefault"}]}}, sort_keys=False)


def real_expand(spec, d, door):
    from semantiva.execution.run_space import expand_run_space
    from semantiva.configurations.schema import RunSpaceV1Config, RunBlock, RunSource
    from semantiva.exceptions.pipeline_exceptions import PipelineConfigurationError, RunSpaceMaxRunsExceededError
    try:
        if door == "yaml":
            from semantiva.configurations import load_pipeline_from_yaml
            (d / "cfg.yaml").write_text(yaml_text(spec))
            try:
                cfg = load_pipeline_from_yaml(str(d / "cfg.yaml")).run_space
            except ValueError as exc:
                return {"error": "config", "where": "parse", "msg": str(exc)[:120]}
        else:
            cfg = RunSpaceV1Config(combine=spec["combine"], max_runs=spec["max_runs"], blocks=[
                RunBlock(mode=b["mode"], context={k: list(v) for k, v in b["context"].items()},
                         source=None if b["source"] is None else RunSource(
                             format=b["source"]["format"], path=b["source"]["path"], select=b["source"]["select"],
                             rename=dict(b["source"]["rename"]), mode=b["source"]["mode"]))
                for b in spec["blocks"]])
        runs, meta = expand_run_space(cfg, cwd=d)
        return {"runs": [[[k, tok(v)] for k, v in r.items()] for r in runs], "meta": meta}
    except RunSpaceMaxRunsExceededError as exc:
        return {"error": "maxRuns", "actual": exc.actual_runs, "max": exc.max_runs}
    except PipelineConfigurationError as exc:
        return {"error": "config", "msg": str(exc)[:160]}


def model_class(m):
    if "runs" in m:
        return "ok"
    e = m["error"]
    return "maxRuns" if isinstance(e, list) else "config"


BIG_SPECS = [
    ("one-block-product", {"combine": "combinatorial", "max_runs": 10,
                           "blocks": [{"mode": "combinatorial", "context": {k: list(range(300)) for k in "abcde"}}]}),
    ("multi-block-product", {"combine": "combinatorial", "max_runs": 1000,
                             "blocks": [{"mode": "by_position", "context": {k: list(range(2000))}} for k in "abcd"]}),
    ("context-x-source", {"combine": "combinatorial", "max_runs": 50,
                          "blocks": [{"mode": "combinatorial", "context": {"a": list(range(500)), "b": list(range(500))},
                                      "source": {"format": "json", "path": "big.json", "mode": "combinatorial"}}]}),
    ("zero-blocks-cap-zero", {"combine": "combinatorial", "max_runs": 0, "blocks": []}),
    ("zero-blocks-cap-zero-by-position", {"combine": "by_position", "max_runs": 0, "blocks": []}),
]

_CHILD = textwrap.dedent('''
    import json, resource, sys, time, tracemalloc
    resource.setrlimit(resource.RLIMIT_AS, (int(sys.argv[2]), int(sys.argv[2])))
    from semantiva.execution.run_space import expand_run_space
    from semantiva.configurations.schema import RunSpaceV1Config, RunBlock, RunSource
    from semantiva.exceptions.pipeline_exceptions import RunSpaceMaxRunsExceededError
    spec = json.load(open(sys.argv[1]))
    cfg = RunSpaceV1Config(combine=spec["combine"], max_runs=spec["max_runs"], blocks=[
        RunBlock(mode=b["mode"], context=b.get("context", {}),
                 source=None if b.get("source") is None else RunSource(**b["source"])) for b in spec["blocks"]])
    t0 = time.time()
    tracemalloc.start()
    def peak():
        return tracemalloc.get_traced_memory()[1]
    try:
        runs, meta = expand_run_space(cfg, cwd=sys.argv[3])
        print(json.dumps({"outcome": "returned", "n": len(runs), "s": time.time() - t0, "peak": peak()}))
    except RunSpaceMaxRunsExceededError as exc:
        print(json.dumps({"outcome": "maxRuns", "actual": exc.actual_runs, "s": time.time() - t0, "peak": peak()}))
    except MemoryError:
        print(json.dumps({"outcome": "MemoryError", "s": time.time() - t0}))
    except Exception as exc:
        print(json.dumps({"outcome": type(exc).__name__, "msg": str(exc)[:200], "s": time.time() - t0, "peak": peak()}))
''')

SRC_LEN = 500          # big.json: two columns s1, s2 of this length


def block_size(b):
    # Arithmetic count of one (valid) block of a cap spec, independent of the code; None = mismatch inside the block.
    lens = [len(v) for v in b.get("context", {}).values()]
    src = b.get("source")
    if b["mode"] == "by_position":
        sizes = []
        if lens:
            if len(set(lens)) != 1:
                return None
            sizes.append(lens[0])
        if src:
            sizes.append(SRC_LEN if src.get("mode", "by_position") == "by_position" else SRC_LEN * SRC_LEN)
        if len(set(sizes)) > 1:
            return None
        return sizes[0] if sizes else 0
    n = 1
    for l in lens:
        n *= l
    if src:
        n *= SRC_LEN if src.get("mode", "by_position") == "by_position" else SRC_LEN * SRC_LEN
    return n


def planned_total(spec):
    # Arithmetic count of a cap spec: an int, or "config" when the documented rules reject it for a size mismatch.
    sizes = [block_size(b) for b in spec["blocks"]]
    if any(s is None for s in sizes):
        return "config"
    if not sizes:
        return 1
    if spec["combine"] == "combinatorial":
        t = 1
        for s in sizes:
            t *= s
        return t
    return sizes[0] if len(set(sizes)) == 1 else "config"


def input_values(spec):
    return sum(len(v) for b in spec["blocks"] for v in b.get("context", {}).values()) + 2 * SRC_LEN * sum(1 for b in spec["blocks"] if b.get("source"))


def gen_big_block(rnd, shape, names, size_class):
    # One block of a cap spec. shape: A product of context lists, B aligned long lists, C context x source product, D aligned with source.
    if shape == "A":
        k = rnd.randrange(2, 7) if size_class == "huge" else rnd.randrange(2, 4)
        v = rnd.choice([60, 100, 300]) if size_class == "huge" else {2: rnd.choice([200, 300]), 3: rnd.choice([40, 50])}[k]
        if size_class == "huge" and k < 5:
            v = 3000 if k <= 3 else 400
        return {"mode": "combinatorial", "context": {names.pop(): list(range(v)) for _ in range(k)}}
    if shape == "B":
        k = rnd.randrange(1, 4)
        n = rnd.choice([30000, 50000])
        return {"mode": "by_position", "context": {names.pop(): list(range(n)) for _ in range(k)}}
    if shape == "C":
        return {"mode": "combinatorial", "context": {names.pop(): list(range(rnd.choice([40, 500])))},
                "source": {"format": "json", "path": "big.json", "mode": rnd.choice(MODES), "rename": {"s1": names.pop(), "s2": names.pop()}}}
    return {"mode": "by_position", "context": {names.pop(): list(range(SRC_LEN * SRC_LEN))},
            "source": {"format": "json", "path": "big.json", "mode": "combinatorial", "rename": {"s1": names.pop(), "s2": names.pop()}}}


def gen_big_specs(rnd, n):
    out = []
    for i in range(n):
        names = [f"k{j}" for j in range(40)]
        combine = MODES[i % 2]
        nb = rnd.randrange(1, 4)
        size_class = "huge" if rnd.random() < 0.5 else "moderate"
        shape = rnd.choice("AAABCD") if size_class == "moderate" else rnd.choice("AAAC")
        first = gen_big_block(rnd, shape, names, size_class)
        blocks = [first]
        for _ in range(nb - 1):
            if combine == "by_position" and rnd.random() < 0.8:
                # same planned size under fresh key names (a deep copy in shape, not in names)
                b = json.loads(json.dumps(first))
                b["context"] = {names.pop(): v for v in b["context"].values()}
                if b.get("source"):
                    b["source"]["rename"] = {"s1": names.pop(), "s2": names.pop()}
                blocks.append(b)
            else:
                blocks.append(gen_big_block(rnd, rnd.choice("AAC") if size_class == "huge" else rnd.choice("ABC"), names, size_class))
        rnd.shuffle(blocks)
        spec = {"combine": combine, "blocks": blocks, "max_runs": 0}
        want = planned_total(spec)
        if isinstance(want, int):
            spec["max_runs"] = rnd.choice([0, 1, 10, 1000, max(0, want - 1), max(0, want // 2)]) if want > 0 else 0
            if want == 0:
                continue
        else:
            spec["max_runs"] = rnd.choice([10, 1000])
        out.append((f"gen{i}:{combine}:{size_class}:{shape}x{nb}", spec))
    return out


def one_promptness(d, idx, name, spec, limit_bytes, limit_s):
    sp = d / f"spec{idx}.json"
    sp.write_text(json.dumps(spec))
    t0 = time.time()
    out = None
    for budget in (limit_s, 6 * limit_s):          # a loaded machine gets a second, longer chance before a verdict
        try:
            p = subprocess.run([sys.executable, str(d / "child.py"), str(sp), str(limit_bytes), str(d)],
                               capture_output=True, text=True, timeout=budget, cwd=str(core.REPO))
            lines = [l for l in p.stdout.splitlines() if l.startswith("{")]
            out = json.loads(lines[-1]) if lines else {"outcome": "crashed", "rc": p.returncode, "stderr": p.stderr[-300:]}
            break
        except subprocess.TimeoutExpired:
            out = {"outcome": "timeout", "s": budget}
    out["wall_s"] = round(time.time() - t0, 2)
    sp.unlink()
    return out


def promptness(rep, stats, tier, rnd):
    from concurrent.futures import ThreadPoolExecutor
    limit_bytes = 1536 * 1024 * 1024
    limit_s = 20.0
    specs = list(BIG_SPECS) + gen_big_specs(rnd, 24 if tier == "quick" else 160)
    stats["promptness_cases"] = len(specs)
    shapes = {}
    with rt.tempdir() as d:
        (d / "big.json").write_text(json.dumps({"s1": list(range(SRC_LEN)), "s2": list(range(SRC_LEN))}))
        (d / "child.py").write_text(_CHILD)
        with ThreadPoolExecutor(max_workers=6) as ex:
            outs = list(ex.map(lambda t: one_promptness(d, t[0], t[1][0], t[1][1], limit_bytes, limit_s), enumerate(specs)))
    for (name, spec), out in zip(specs, outs):
        want = planned_total(spec)
        kind = name.split(":", 1)[1] if name.startswith("gen") else name
        public = spec if len(json.dumps(spec)) < 3000 else {"combine": spec["combine"], "max_runs": spec["max_runs"], "blocks": [
            {"mode": b["mode"], "context_lengths": {k: len(v) for k, v in b.get("context", {}).items()}, "source": b.get("source")} for b in spec["blocks"]]}
        rec = dict(out, planned_total=want, max_runs=spec["max_runs"])
        if not name.startswith("gen"):
            stats["promptness"][name] = rec
        if want == "config":
            verdict = "mismatch"
            if out["outcome"] != "ConfigurationError" and "Configuration" not in out["outcome"]:
                rep.add_violation(f"mismatch-not-rejected:{kind}", f"blocks of unequal planned sizes are not rejected with a configuration error within "
                                  f"{limit_s:.0f}s / {limit_bytes >> 20} MiB: outcome {out['outcome']}", {"spec_name": name, "spec": public, "observed": out})
        elif want > spec["max_runs"]:
            verdict = "over-cap"
            # what a first pass over the *input* may allocate (copies of the given lists), never the planned runs
            bound = 16 * input_values(spec) + (1 << 20)
            if out["outcome"] != "maxRuns":
                rep.add_violation(f"cap-not-enforced-promptly:{kind}",
                                  f"a run space planning {want:,} runs against max_runs={spec['max_runs']} is not rejected with the max-runs error "
                                  f"within {limit_s:.0f}s / {limit_bytes >> 20} MiB: outcome {out['outcome']}",
                                  {"spec_name": name, "spec": public, "observed": out})
            elif out.get("actual") != want:
                rep.add_violation(f"cap-reports-wrong-count:{kind}", f"max-runs error reports {out.get('actual')} runs, planned total is {want}",
                                  {"spec_name": name, "spec": public, "observed": out})
            elif want >= 20000 and out.get("peak", 0) > bound:
                rep.add_violation(f"cap-enforced-after-materialising:{kind}",
                                  f"a run space planning {want:,} runs against max_runs={spec['max_runs']} is rejected with the max-runs error only after "
                                  f"{out['peak']:,} bytes were allocated (the inputs hold {input_values(spec):,} values; bound {bound:,} bytes): "
                                  "the expansion was materialised before the cap was applied",
                                  {"spec_name": name, "spec": public, "observed": out, "bound_bytes": bound})
        else:
            verdict = "within-cap"
            if out["outcome"] != "returned" or out.get("n") != want:
                rep.add_violation(f"within-cap-not-expanded:{kind}", f"a run space planning {want:,} runs within max_runs={spec['max_runs']} gives {out}",
                                  {"spec_name": name, "spec": public, "observed": out})
        key = f"{spec['combine']}/{verdict}"
        shapes[key] = shapes.get(key, 0) + 1
    stats["promptness_shapes"] = shapes
    stats["promptness_peak_max"] = max((o.get("peak", 0) for o in outs), default=0)


def run(tier: str) -> int:
    rep = core.Report(PROP, tier)
    rnd = core.rng(PROP)
    rt.setup()
    core.prove(rep, PROP, thorough=(tier == "thorough"))
    n_cases = 600 if tier == "quick" else 6000
    stats = {"cases": 0, "doors": {"dataclass": 0, "yaml": 0}, "blocks": {}, "model_outcome": {}, "real_outcome": {},
             "with_source": 0, "formats": {}, "runs_compared": 0, "nontrivial_ok": 0, "promptness": {}}
    reqs, cases = [], []
    with rt.tempdir() as d:
        fixed = directed_specs(d)
        for i in range(n_cases):
            spec = fixed[i] if i < len(fixed) else gen_spec(rnd, d, i)
            # choose max_runs around the planned total: ask the model first with a huge cap
            cases.append(spec)
            reqs.append({"m": "c08.expand", "id": i, "spec": dict(model_spec(spec), max_runs=10 ** 9)})
        try:
            first = core.Driver().run(reqs)
        except Exception as exc:
            rep.add_broken(f"correspondence C08: model driver unavailable ({exc!r})")
            first = None
        reqs2 = []
        if first is not None:
            for i, (spec, a) in enumerate(zip(cases, first)):
                if "err" in a:
                    rep.add_broken(f"correspondence C08: driver error {a['err']}")
                    first = None
                    break
                n = len(a["ok"]["runs"]) if "runs" in a["ok"] else None
                if n is not None:
                    spec["max_runs"] = rnd.choice([0, 1, max(0, n - 1), n, n, n + 1, 1000, 1000])
                else:
                    spec["max_runs"] = rnd.choice([0, 1, 5, 1000])
                reqs2.append({"m": "c08.expand", "id": i, "spec": model_spec(spec)})
        model = core.Driver().run(reqs2) if first is not None else None
        disagreements = []
        samples = []
        for i, spec in enumerate(cases):
            door = spec.get("_door") or ("yaml" if rnd.random() < 0.45 else "dataclass")
            stats["cases"] += 1
            stats["doors"][door] += 1
            stats["blocks"][len(spec["blocks"])] = stats["blocks"].get(len(spec["blocks"]), 0) + 1
            for b in spec["blocks"]:
                if b["source"]:
                    stats["with_source"] += 1
                    stats["formats"][b["source"]["format"]] = stats["formats"].get(b["source"]["format"], 0) + 1
            real = real_expand(spec, d, door)
            rcls = "ok" if "runs" in real else real["error"]
            stats["real_outcome"][rcls] = stats["real_outcome"].get(rcls, 0) + 1
            if model is None:
                continue
            m = model[i]["ok"]
            mcls = model_class(m)
            key = mcls if mcls != "config" else "config:" + m["error"]
            stats["model_outcome"][key] = stats["model_outcome"].get(key, 0) + 1
            pub = {k: v for k, v in spec.items()}
            pub = json.loads(json.dumps(pub, default=str))
            if mcls == "ok" and rcls == "ok":
                stats["runs_compared"] += len(m["runs"])
                if len(m["runs"]) > 1:
                    stats["nontrivial_ok"] += 1
                if m["runs"] != real["runs"]:
                    kind = "length" if len(m["runs"]) != len(real["runs"]) else \
                        "order" if sorted(map(json.dumps, m["runs"])) == sorted(map(json.dumps, real["runs"])) else "content"
                    rep.add_violation(f"runs-differ-from-documented-list:{kind}:{spec['combine']}",
                                      "expand_run_space returns a list that is not the documented one (sorted keys, last key fastest, blocks in order)",
                                      {"spec": pub, "door": door, "documented": m["runs"][:12], "returned": real["runs"][:12]})
            elif mcls == "maxRuns" and rcls != "maxRuns":
                rep.add_violation(f"cap-not-enforced:{'no-blocks' if not spec['blocks'] else spec['combine']}",
                                  f"planned total {m['error'][1]} exceeds max_runs={spec['max_runs']} but the expansion is not rejected with the max-runs error",
                                  {"spec": pub, "door": door, "real": {k: v for k, v in real.items() if k != 'meta'}})
            elif mcls == "config" and rcls == "ok":
                rep.add_violation(f"not-rejected:{m['error']}", f"a specification with a {m['error']} problem is accepted",
                                  {"spec": pub, "door": door, "returned": real["runs"][:8]})
            elif mcls == "ok" and rcls != "ok":
                rep.add_violation(f"valid-spec-rejected:{rcls}", "a valid specification within its cap is rejected",
                                  {"spec": pub, "door": door, "real": real})
            elif mcls != rcls:
                disagreements.append({"spec": pub, "door": door, "model": m, "real": real})
            elif mcls == "maxRuns" and m["error"][1] != real.get("actual"):
                rep.add_violation("cap-reports-wrong-count", "the max-runs error reports a count different from the planned total",
                                  {"spec": pub, "door": door, "planned": m["error"][1], "reported": real.get("actual")})
            if len(samples) < 5 and mcls == "ok" and len(m["runs"]) > 2:
                samples.append({"spec": pub, "runs": m["runs"][:4], "n": len(m["runs"])})
        # ---- history: a source file rewritten at the same path between two expansions in one process -------------------
        for r in range(10 if tier == "quick" else 80):
            def one_source_spec():
                src = gen_source(rnd, d, 0, [], f"rw{r}")
                src["select"], src["rename"] = None, {}
                return {"blocks": [{"mode": "by_position", "context": {}, "source": src}], "combine": "combinatorial", "max_runs": 1000}
            first_spec = one_source_spec()
            door = "yaml" if rnd.random() < 0.3 else "dataclass"
            real_expand(first_spec, d, door)                                   # the first expansion reads the file
            second = None
            for _ in range(12):                                                # same path: same format again
                cand = one_source_spec()
                if cand["blocks"][0]["source"]["path"] == first_spec["blocks"][0]["source"]["path"]:
                    second = cand
                    break
            if second is None:
                continue
            stats["rewritten_source_cases"] = stats.get("rewritten_source_cases", 0) + 1
            real2 = real_expand(second, d, door)
            ans = core.Driver().run([{"m": "c08.expand", "id": 0, "spec": model_spec(second)}])[0]
            if "err" in ans:
                continue
            m2 = ans["ok"]
            pub = json.loads(json.dumps({"first": first_spec, "second": second}, default=str))
            if model_class(m2) == "ok" and "runs" in real2 and m2["runs"] != real2["runs"]:
                rep.add_violation("stale-source-after-rewrite", "after a source file was rewritten at the same path, a second expansion in the same process "
                                  "does not return the list documented for the new content", {"specs": pub, "door": door, "documented": m2["runs"][:10], "returned": real2["runs"][:10]})
            elif model_class(m2) != "ok" and "runs" in real2:
                rep.add_violation("stale-source-after-rewrite:not-rejected", "after a source file was rewritten at the same path, a specification that is now invalid is accepted",
                                  {"specs": pub, "door": door, "model": m2, "returned": real2["runs"][:10]})
            elif model_class(m2) == "ok" and "runs" not in real2:
                rep.add_violation("stale-source-after-rewrite:rejected", "after a source file was rewritten at the same path, a valid specification is rejected",
                                  {"specs": pub, "door": door, "real": real2})
        if disagreements:
            rep.add_broken(f"correspondence C08: error class differs on {len(disagreements)} specs, first {json.dumps(disagreements[0])[:500]}")
    promptness(rep, stats, tier, rnd)
    rep.coverage.update({
        "evaluations": stats["cases"] + len(BIG_SPECS),
        "distinct_nontrivial": stats["nontrivial_ok"] + sum(v for k, v in stats["model_outcome"].items() if k != "ok"),
        "rule": "generated specs: 0..4 blocks, both modes at block/source/combine level, 0..3 context keys of length 0..4 in shuffled declaration order, "
                "csv/json/yaml/ndjson sources (row and mapping shapes) with select/rename, deliberate mismatches/duplicates/missing columns, "
                "max_runs around the planned total; non-trivial = more than one run or a rejection; plus 5 cap specs with totals up to 2.4e12",
        "samples": samples or [{"note": "no multi-run sample"}],
        "traces_validated_against_impl": stats["cases"],
        "generator_distribution": stats,
        "search": "same generator; cap specs run in a subprocess under RLIMIT_AS=1.5GiB and 20 s",
    })
    rep.assumptions += [
        "file parsing (csv/json/yaml/ndjson, scalar coercion) is outside the model: the model receives the columns the harness wrote",
        "values are compared as canonical JSON text; dict insertion order is the run's key order",
        "'promptly, without materialising' is observed (time and address-space limit), the theorem is about the planned total",
    ]
    return rep.finish()


def replay(path: str) -> int:
    case = json.loads(open(path).read())
    print(json.dumps(case, indent=1)[:4000])
    return 0
