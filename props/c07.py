"""C07 — what a Semantic Execution Record says about its node is true.

translate  : the (in node config, in context, has default) -> recorded-source table of the SER machinery, probed on the
             real code with one-parameter pipelines; the clock convention of the two timestamp generators (do the
             stamps move with the host time zone?)                                        -> Generated/C07.lean
prove      : Properties/C07.lean (delta = true difference; recorded parameters = resolved parameters; checks = conditions;
             digest chain; stamps denote the instant) + Tie/C07.lean (tables equal the documented ones, clocks are UTC)
correspond : SER view computed by the Lean model (driver op c07.ser) vs the real SER lines on generated pipelines
oracle     : (real code only) every SER field compared with the reference execution log of the same run (props/serlog.py),
             under four host time zones and all detail levels.
"""
from __future__ import annotations

import json
import math

from vlib import core
from props import pipegen, tracegen, serlog

PROP = "C07"
DOC_SOURCE = {"config": "node", "context": "context", "default": "default"}


def jsonable(v):
    try:
        return json.loads(json.dumps(v))
    except Exception:
        return None


def canon_text(v) -> str:
    try:
        return json.dumps(v, sort_keys=True)
    except Exception:
        return repr(v)


def differs(a, b) -> bool:
    """Content difference.  A top-level bool and the int of the same value are taken as the same content (bool is an int in
    Python and the collector's byte-level comparison does not separate them); everything else is compared as canonical JSON text."""
    if isinstance(a, (bool, int)) and isinstance(b, (bool, int)) and not isinstance(a, float) and not isinstance(b, float):
        return a != b
    return canon_text(a) != canon_text(b)


def fq(cls) -> str:
    return f"{cls.__module__}.{cls.__qualname__}"


def truth_channel(name, entry):
    spec_params = (entry["spec"] or {}).get("parameters") or {}
    if name in spec_params:
        return "node"
    if entry["pre_ctx"] is not None and name in entry["pre_ctx"]:
        return "context"
    return "default"


def judge(run, nodes, detail, tz):
    """Yield (signature, what, details) for every untruth in the SER lines of one logged run."""
    recs = run["records"]
    sers = [r for r in recs if r.get("record_type") == "ser"]
    log = run["log"]
    if len(sers) != len(log):
        # C06 decides lifecycle; here a SER without a node (or the reverse) cannot be judged
        yield ("ser-count", f"{len(sers)} SER lines for {len(log)} nodes entered", {})
        return
    start = next((r for r in recs if r.get("record_type") == "pipeline_start"), None)
    uuids = [n["node_uuid"] for n in start["pipeline_spec_canonical"]["nodes"]] if start else []
    digests = {"data": {}, "ctx": {}}
    prev = None
    for i, (ser, e) in enumerate(zip(sers, log)):
        where = {"node": i, "processor": (e["spec"] or {}).get("processor")}
        pre, post = e["pre_ctx"], e["post_ctx"]
        if i < len(uuids) and ser["identity"]["node_id"] != uuids[i]:
            yield ("node-id", "identity.node_id is not the UUID of the node that ran", dict(where, got=ser["identity"]["node_id"], want=uuids[i]))
        # ---- delta -------------------------------------------------------------------------------------
        created = sorted(k for k in post if k not in pre)
        # a difference of content: 12 and 12.0, 1 and True, 0.0 and -0.0 are different values although Python's == says equal
        updated = sorted(k for k in post if k in pre and differs(pre[k], post[k]))
        cd = ser.get("context_delta") or {}
        if cd.get("created_keys") != created:
            yield ("created-keys", "context_delta.created_keys is not the set of keys the node added",
                   dict(where, recorded=cd.get("created_keys"), actual=created))
        if cd.get("updated_keys") != updated:
            yield ("updated-keys", "context_delta.updated_keys is not the set of keys whose value the node changed",
                   dict(where, recorded=cd.get("updated_keys"), actual=updated))
        # ---- processor ---------------------------------------------------------------------------------
        proc = ser.get("processor") or {}
        if proc.get("ref") != fq(e["cls"]):
            yield ("processor-ref", "processor.ref does not name the class that ran", dict(where, recorded=proc.get("ref"), actual=fq(e["cls"])))
        params, sources = proc.get("parameters") or {}, proc.get("parameter_sources") or {}
        seen = {}
        for name, value in e["resolved"]:
            seen[name] = value
        for name, value in seen.items():
            want_src = truth_channel(name, e)
            placement = f"{want_src}{'-over-context' if want_src == 'node' and name in pre else ''}" \
                        f"{'-overridden-by-context' if want_src == 'context' and has_default(e, name) else ''}"
            if name not in params or name not in sources:
                yield (f"param-missing:{placement}", f"parameter '{name}' was resolved by the node but the SER does not list it",
                       dict(where, name=name, passed=jsonable(value), channel=want_src, recorded_parameters=params, recorded_sources=sources))
                continue
            if jsonable(value) is not None and params[name] != jsonable(value):
                yield (f"param-value:{placement}", f"processor.parameters['{name}'] is not the value passed to the processor",
                       dict(where, name=name, passed=jsonable(value), recorded=params[name], recorded_source=sources[name], channel=want_src))
            if sources[name] != want_src:
                yield (f"param-source:{placement}", f"parameter_sources['{name}'] is '{sources[name]}' but the value came from '{want_src}'",
                       dict(where, name=name, passed=jsonable(value), recorded=params.get(name), recorded_source=sources[name]))
        for name, src in sources.items():
            if name in seen:
                continue
            # entries for names the node did not fetch must still be true of the channel they name
            spec_params = (e["spec"] or {}).get("parameters") or {}
            if src == "node" and (name not in spec_params or jsonable(spec_params[name]) != params.get(name)) and jsonable(spec_params.get(name)) is not None:
                yield ("extra-param-untrue:node", f"SER lists '{name}' from the node configuration, which does not have that value",
                       dict(where, name=name, recorded=params.get(name), config=spec_params))
            if src == "default":
                # a default the SER reports must be the one the class that ran declares (also when the node never fetched it,
                # e.g. a slicer over an empty collection)
                dflt = declared_default(e, name)
                if dflt is not _NO_DEFAULT and jsonable(dflt) is not None and params.get(name) != jsonable(dflt):
                    yield ("extra-param-untrue:default", f"SER lists '{name}' from the defaults with a value that is not the declared default",
                           dict(where, name=name, recorded=params.get(name), declared_default=jsonable(dflt)))
            if src == "context" and (name not in pre or jsonable(pre[name]) != params.get(name)):
                yield ("extra-param-untrue:context", f"SER lists '{name}' from the context, which does not have that value",
                       dict(where, name=name, recorded=params.get(name), pre_context=jsonable(pre)))
        # ---- checks ------------------------------------------------------------------------------------
        asserts = ser.get("assertions") or {}
        checks = {c.get("code"): c for c in (asserts.get("preconditions") or []) + (asserts.get("postconditions") or [])}
        rk = checks.get("required_keys_present")
        if rk is None:
            yield ("check-missing:required_keys_present", "no required_keys_present check in the SER", where)
        else:
            expected = rk["details"].get("expected_keys") or []
            cond = all(k in pre for k in expected)
            if (rk["result"] == "PASS") != cond:
                yield ("check-untrue:required_keys_present", "required_keys_present does not report PASS exactly when the keys are present",
                       dict(where, check=rk, pre_context_keys=sorted(pre)))
            must = sorted(n for n in seen if truth_channel(n, e) == "context" and not has_default(e, n))
            unres = unresolved_name(e)
            if unres:
                must = sorted(set(must + [unres]))
            if not set(must) <= set(expected):
                yield ("check-untrue:required_keys_present:expected", "a parameter the node could only take from the context is not among the expected keys",
                       dict(where, expected=expected, needed=must))
            if unres and rk["result"] == "PASS" and unres not in pre:
                yield ("check-untrue:required_keys_present", "required_keys_present reports PASS although the node failed for a missing key",
                       dict(where, check=rk, missing=unres))
        for code, data_obj, getter in (("input_type_ok", e["data_in"], "input_data_type"), ("output_type_ok", e["data_out"], "output_data_type")):
            chk = checks.get(code)
            if chk is None:
                yield (f"check-missing:{code}", f"no {code} check in the SER", where)
                continue
            fn = getattr(e["cls"], getter, None)
            expected_t = None
            try:
                expected_t = fn() if callable(fn) else None
            except Exception:
                expected_t = None
            cond = True if expected_t is None else isinstance(data_obj, expected_t)
            if (chk["result"] == "PASS") != cond:
                yield (f"check-untrue:{code}", f"{code} does not report PASS exactly when the data has the declared type",
                       dict(where, check=chk, actual=type(data_obj).__name__, declared=getattr(expected_t, "__name__", str(expected_t))))
        cw = checks.get("context_writes_realized")
        if cw is None:
            yield ("check-missing:context_writes_realized", "no context_writes_realized check in the SER", where)
        else:
            cond = all(k in post for k in created + updated)
            if (cw["result"] == "PASS") != cond:
                yield ("check-untrue:context_writes_realized", "context_writes_realized does not report PASS exactly when the writes are present",
                       dict(where, check=cw))
        # ---- status --------------------------------------------------------------------------------------
        if (ser.get("status") == "succeeded") != (e["exc"] is None):
            yield ("status", "SER status does not say whether the node raised", dict(where, status=ser.get("status"), raised=repr(e["exc"])))
        if e["exc"] is not None:
            err = ser.get("error") or {}
            if err.get("type") != type(e["exc"]).__name__ or err.get("message") != str(e["exc"]):
                yield ("error-field", "SER error does not name the exception the node raised", dict(where, recorded=err, raised=repr(e["exc"])))
        # ---- digests -------------------------------------------------------------------------------------
        summ = ser.get("summaries") or {}
        if detail in ("hash", "all"):
            for fld, view, kind in (("input_data", e["data_in_view"], "data"), ("output_data", e["data_out_view"], "data"),
                                    ("pre_context", jsonable(pre), "ctx"), ("post_context", jsonable(post), "ctx")):
                dg = (summ.get(fld) or {}).get("sha256")
                if dg is None:
                    yield (f"digest-missing:{fld}", f"no sha256 in summaries.{fld} at detail {detail}", where)
                    continue
                key = json.dumps(view, sort_keys=True)
                if digests[kind].setdefault(key, dg) != dg:
                    yield (f"digest-not-content:{fld}", "equal content has two different digests in one trace",
                           dict(where, field=fld, content=view, digests=[digests[kind][key], dg]))
            if prev is not None:
                a = (prev.get("summaries") or {}).get("output_data", {}).get("sha256")
                b = (summ.get("input_data") or {}).get("sha256")
                if a != b:
                    yield ("digest-chain:data", "output digest of a node differs from the input digest of the next node", dict(where, prev=a, this=b))
                a = (prev.get("summaries") or {}).get("post_context", {}).get("sha256")
                b = (summ.get("pre_context") or {}).get("sha256")
                if a != b:
                    yield ("digest-chain:context", "post-context digest of a node differs from the pre-context digest of the next node",
                           dict(where, prev=a, this=b))
        # ---- durations ---------------------------------------------------------------------------------
        tm = ser.get("timing") or {}
        for fld in ("wall_ms", "cpu_ms"):
            if fld in tm and not (isinstance(tm[fld], (int, float)) and tm[fld] >= 0 and math.isfinite(tm[fld])):
                yield (f"duration-negative:{fld}", f"timing.{fld} is not a non-negative number", dict(where, timing=tm))
        prev = ser
    # ---- timestamps along the stream -------------------------------------------------------------------
    stamps = []
    for r in recs:
        if r.get("record_type") == "ser":
            stamps.append(("ser.started_at", (r.get("timing") or {}).get("started_at")))
            stamps.append(("ser.finished_at", (r.get("timing") or {}).get("finished_at")))
        elif "timestamp" in r:
            stamps.append((r["record_type"] + ".timestamp", r["timestamp"]))
    last = None
    for name, ts in stamps:
        t = serlog.instant(ts)
        if t is None:
            yield (f"timestamp-form:{name}", f"{name} is not an RFC 3339 UTC timestamp", {"value": ts, "tz": tz})
            continue
        if not (run["t0"] - 0.002 <= t <= run["t1"] + 0.002):
            off = round((t - run["t0"]) / 900.0) * 900
            yield (f"timestamp-not-utc:{name.split('.')[0]}", f"{name} does not denote the instant it was taken at (host time zone {tz})",
                   {"value": ts, "tz": tz, "true_utc_epoch_between": [run["t0"], run["t1"]], "denoted_epoch": t, "offset_seconds_approx": off})
        if last is not None and t < last[1]:
            yield ("timestamp-decreasing", f"{name} is earlier than the preceding {last[0]}", {"value": ts, "previous": last[2], "tz": tz})
        last = (name, t, ts)


def has_default(entry, name) -> bool:
    import inspect
    fn = getattr(entry["cls"], "_process_logic", None)
    try:
        p = inspect.signature(fn).parameters.get(name)
    except Exception:
        return False
    return p is not None and p.default is not inspect.Parameter.empty


_NO_DEFAULT = object()


def declared_default(entry, name):
    import inspect
    fn = getattr(entry["cls"], "_process_logic", None)
    try:
        p = inspect.signature(fn).parameters.get(name)
    except Exception:
        return _NO_DEFAULT
    if p is None or p.default is inspect.Parameter.empty:
        return _NO_DEFAULT
    return p.default


def unresolved_name(entry):
    exc = entry["exc"]
    if isinstance(exc, KeyError) and "Unable to resolve parameter" in str(exc):
        import re
        m = re.search(r"Unable to resolve parameter '([^']+)'", str(exc))
        return m.group(1) if m else None
    return None


def extract_ser_table():
    """(in node config, in context, has default) -> source the SER records, probed with two-node pipelines."""
    import itertools
    table = []
    for in_cfg, in_ctx, has_def in itertools.product([True, False], repeat=3):
        node = {"processor": "TOp1Def" if has_def else "TOp1"}
        if in_cfg:
            node["parameters"] = {"a": "CFG"}
        t = tracegen.traced_run([{"processor": "TSourceDef"}, node], {"a": "CTX"} if in_ctx else {}, detail="hash")
        sers = [r for r in t["records"] if r.get("record_type") == "ser"]
        ch = "none"
        if len(sers) == 2:
            proc = sers[1].get("processor") or {}
            src = (proc.get("parameter_sources") or {}).get("a")
            val = (proc.get("parameters") or {}).get("a")
            want = {"node": "CFG", "context": "CTX", "default": "d1"}
            if src in want:
                ch = {"node": "config", "context": "context", "default": "default"}[src] if val == want[src] else "other"
        table.append([in_cfg, in_ctx, has_def, ch])
    return table


def probe_clocks():
    """Do the two timestamp generators read UTC?  One traced run on a host nine hours ahead of UTC."""
    r = serlog.logged_run([{"processor": "TSourceDef"}], {}, detail="hash", tz="+09:00")
    out = {"driverUTC": False, "orchUTC": False}
    for rec in r["records"]:
        if rec.get("record_type") == "pipeline_start":
            t = serlog.instant(rec.get("timestamp"))
            out["driverUTC"] = t is not None and r["t0"] - 5 <= t <= r["t1"] + 5
        if rec.get("record_type") == "ser":
            t = serlog.instant((rec.get("timing") or {}).get("started_at"))
            out["orchUTC"] = t is not None and r["t0"] - 5 <= t <= r["t1"] + 5
    return out


def translate():
    from props import c01
    c01.translate()
    table = extract_ser_table()
    clocks = probe_clocks()
    b = core.lean_bool
    chan = {"config": ".config", "context": ".context", "default": ".default", "none": ".none_", "other": ".none_"}
    body = "import SemantivaModel.Model.Exec\nnamespace SemantivaModel.Generated.C07\nopen SemantivaModel.Exec\n\n"
    body += "/-- (in node config, in context, has default) ↦ source the SER records for the parameter (probed). -/\n"
    body += "def serTable : ResolveTable :=\n  " + core.lean_list(f"(({b(a)}, {b(c)}, {b(d)}), {chan[ch]})" for a, c, d, ch in table) + "\n\n"
    body += "/-- the trace driver's timestamps denote the true instant on a host at +09:00 (probed) -/\n"
    body += f"def driverUTC : Bool := {b(clocks['driverUTC'])}\n"
    body += "/-- the orchestrator's SER timing stamps denote the true instant on a host at +09:00 (probed) -/\n"
    body += f"def orchUTC : Bool := {b(clocks['orchUTC'])}\n\nend SemantivaModel.Generated.C07\n"
    core.write_generated("C07", body, ["semantiva/execution/orchestrator/orchestrator.py (_resolve_params_with_sources, _iso_now: probed through traced runs)",
                                       "semantiva/trace/drivers/jsonl.py (_now_timestamp: probed through a traced run)"])
    return [[a, c, d, ("none" if ch == "other" else ch)] for a, c, d, ch in table], clocks


def model_sers(drv, nodes, ctx0, ser_table):
    from props import c01
    req = {"m": "c07.ser", "id": 0, "resolveTable": c01.DOC_TABLE, "serTable": ser_table,
           "nodes": [pipegen.model_node(n) for n in nodes], "ctx": sorted([[k, pipegen.enc(v)] for k, v in ctx0.items()])}
    ans = drv.run([req])[0]
    if "err" in ans:
        raise RuntimeError(ans["err"])
    return ans["ok"]


def compare_with_model(m, run):
    """Differences between the model's SER views and the real SER lines (None when the model has no opinion)."""
    if "constructError" in m:
        return []
    sers = [r for r in run["records"] if r.get("record_type") == "ser"]
    out = []
    if len(sers) != len(m["sers"]):
        return [f"{len(sers)} real SERs, model {len(m['sers'])}"]
    for i, (ser, v) in enumerate(zip(sers, m["sers"])):
        if (ser.get("status") == "succeeded") != v["ok"]:
            out.append(f"node {i}: status {ser.get('status')} vs model ok={v['ok']}")
            continue
        cd = ser.get("context_delta") or {}
        # a top-level bool overwritten by the int of the same value (or the reverse) is one content for the collector's byte-level
        # comparison and two tokens for the model: such keys are left out of the comparison (see DESIGN §17, C07d)
        e = run["log"][i] if i < len(run.get("log", [])) else None
        quirk = set()
        if e is not None and e["pre_ctx"] is not None and e["post_ctx"] is not None:
            quirk = {k for k in e["post_ctx"] if k in e["pre_ctx"] and type(e["pre_ctx"][k]) is not type(e["post_ctx"][k])
                     and isinstance(e["pre_ctx"][k], (bool, int)) and isinstance(e["post_ctx"][k], (bool, int)) and e["pre_ctx"][k] == e["post_ctx"][k]}
        if v["ok"] and (cd.get("created_keys") != v["created"] or
                        [k for k in (cd.get("updated_keys") or []) if k not in quirk] != [k for k in v["updated"] if k not in quirk]):
            out.append(f"node {i}: delta {cd.get('created_keys')}/{cd.get('updated_keys')} vs model {v['created']}/{v['updated']}")
        proc = ser.get("processor") or {}
        real_params = {k: (pipegen.enc(val), (proc.get("parameter_sources") or {}).get(k)) for k, val in (proc.get("parameters") or {}).items()}
        for name, val, src in v["params"]:
            if real_params.get(name) != (val, src):
                out.append(f"node {i}: parameter {name} recorded {real_params.get(name)} vs model {(val, src)}")
        checks = {c.get("code"): c for c in (ser["assertions"].get("preconditions") or []) + (ser["assertions"].get("postconditions") or [])}
        rk = checks.get("required_keys_present") or {"details": {}}
        if not set(v["expectedKeys"]) <= set(rk["details"].get("expected_keys") or []):
            out.append(f"node {i}: expected keys {rk['details'].get('expected_keys')} lack the model's {v['expectedKeys']}")
        if set(v["missing"]) - set(rk["details"].get("missing_keys") or []):
            out.append(f"node {i}: missing keys {rk['details'].get('missing_keys')} vs model {v['missing']}")
        for code, key in (("input_type_ok", "inputTypeOk"), ("output_type_ok", "outputTypeOk"), ("context_writes_realized", "writesRealized")):
            if code in checks and (checks[code]["result"] == "PASS") != v[key]:
                out.append(f"node {i}: {code} {checks[code]['result']} vs model {v[key]}")
    return out


def gen_case(rnd, i):
    """Pipelines exercising every parameter placement; every 3rd is forced to contain a default overridden by context."""
    nodes, ctx0, meta = pipegen.gen_pipeline(rnd, max_len=6, p_misfit=0.08)
    if i % 3 == 1:
        # a defaulted parameter whose key is live in the context, and one taken from its default
        nodes = [{"processor": "TSourceDef"}, {"processor": "TOp2", "parameters": {"a": rnd.choice(["c1", 3])}},
                 {"processor": "TOp1Def"}] + [n for n in nodes if not n["processor"].startswith(("TSource", "TPayloadSource", "TCollSource"))][:3]
        ctx0 = dict(ctx0)
        ctx0["b"] = rnd.choice(["ctx-b", 11])
        if rnd.random() < 0.5:
            ctx0["a"] = "ctx-a"
        else:
            ctx0.pop("a", None)
        ctx0.pop("v", None) if rnd.random() < 0.5 else ctx0.__setitem__("v", "ctx-v")
    if i % 3 == 2:
        # a key re-written with an equal value (not an update), one re-written with a different value (an update)
        k = rnd.choice(["c", "e", "k2"])
        tail = [{"processor": "TSourceDef"}, {"processor": "TProbe", "context_key": k}, {"processor": "TProbe", "context_key": k},
                {"processor": 'template:"t{%s}":tt' % k}, {"processor": 'template:"t{%s}":tt' % k},
                {"processor": "TOp0"}, {"processor": "TProbe", "context_key": k}]
        nodes = [n for n in nodes[:2] if n["processor"].startswith(("rename", "delete", "template"))] + tail
    if i % 8 == 5:
        # a key overwritten by a value that is ==-equal to the old one but different content, and one overwritten by the same content
        old, new = rnd.choice([(12, 12.0), (1, True), (0, False), (0.0, -0.0), ([1, 2], [1.0, 2]), ({"n": 1}, {"n": True}), (7, 7), ("s", "s")])
        nodes = [{"processor": "TSourceDef"}, {"processor": "TProbeEcho", "parameters": {"val": new}, "context_key": "level"}, {"processor": "TOp0"}]
        ctx0 = {"level": old, "other": "kept"}
    if i % 8 == 7:
        # one processor class used by several nodes with the parameter placed differently (configuration / context / missing)
        proc = rnd.choice(["TOp1", "TOp2", "TProbeP", "TOp1Sub"])
        def use(placement):
            n = {"processor": proc}
            if placement == "config":
                n["parameters"] = {"a": rnd.choice(["cfg-a", 0, 4])}
            if proc == "TProbeP":
                n["context_key"] = rnd.choice(["p1", "p2"])
            return n
        order = rnd.choice([["config", "context"], ["context", "config"], ["config", "context", "config"], ["context", "config", "context"]])
        nodes = [{"processor": "TSourceDef"}] + [use(pl) for pl in order]
        ctx0 = {"other": "kept"}
        if rnd.random() < 0.7:
            ctx0["a"] = rnd.choice(["ctx-a", 5])        # otherwise the context-placed use fails as unresolved (unless it has a default)
    if i % 16 == 3:
        # a node that writes a declared key and then raises: its error SER describes the context as the node left it
        nodes = [{"processor": "TSourceDef"}] + ([{"processor": "TProbe", "context_key": rnd.choice(["w", "c"])}] if rnd.random() < 0.5 else []) + \
                [{"processor": "TWriteThenFail"}, {"processor": "TOp0"}]
        ctx0 = {"other": "kept"}
    if i % 16 == 9:
        # generated classes share one qualified name (every slicer is `...create.<locals>.SlicingDataOperator`): several of them in one
        # run, with different parameter tables (a defaulted here, required there, b only in one) — each SER must report its own node's
        ops = [{"processor": "slice:TOp2:TColl", "parameters": {"a": rnd.choice(["cfg-a", 2])}}, {"processor": "slice:TOp1Def:TColl"},
               {"processor": "slice:TOp1:TColl", "parameters": {"a": "cfg-a1"}}, {"processor": "slice:TOp0:TColl"},
               {"processor": "slice:TOp1Def:TColl", "parameters": {"a": "given"}}]
        rnd.shuffle(ops)
        nodes = [{"processor": "TCollSource", "parameters": {"v": "s"}}] + ops[:rnd.choice([2, 3, 4])]
        ctx0 = {"other": "kept"}
    if i % 16 == 11:
        # the context also holds a value that cannot be copied or serialised (a lock, a generator, a module): no node touches it,
        # every SER statement about the other keys stays true
        import threading
        ctx0 = dict(ctx0)
        ctx0["handle"] = rnd.choice([threading.Lock(), (x for x in (1, 2)), json, open])
    return nodes, ctx0


def run(tier: str) -> int:
    rep = core.Report(PROP, tier)
    rnd = core.rng(PROP)
    pipegen.setup()
    try:
        ser_table, clocks = translate()
    except Exception as exc:
        rep.add_broken(f"translator C07 failed: {exc!r}")
        ser_table, clocks = None, None
    rep.coverage["ser_table"] = ser_table
    rep.coverage["clocks"] = clocks
    core.prove(rep, PROP, thorough=(tier == "thorough"))
    drv = None
    try:
        drv = core.Driver()
    except Exception as exc:
        rep.add_broken(f"correspondence C07: model driver unavailable ({exc!r})")
    from props import c01
    mism = []
    n_cases = 160 if tier == "quick" else 2000
    tzs = list(serlog.TZS)
    stats = {"runs": 0, "sers": 0, "by_tz": {}, "by_detail": {}, "placements": {}, "error_sers": 0, "failing_runs": 0}
    samples = []
    for i in range(n_cases):
        nodes, ctx0 = gen_case(rnd, i)
        tz = tzs[i % len(tzs)]
        detail = tracegen.DETAILS[(i // len(tzs)) % len(tracegen.DETAILS)]
        r = serlog.logged_run(nodes, ctx0, detail=detail, tz=tz)
        stats["runs"] += 1
        stats["by_tz"][tz] = stats["by_tz"].get(tz, 0) + 1
        stats["by_detail"][detail] = stats["by_detail"].get(detail, 0) + 1
        stats["failing_runs"] += 1 if r["exc"] is not None else 0
        for e in r["log"]:
            stats["sers"] += 1
            stats["error_sers"] += 1 if e["exc"] is not None else 0
            for name, _ in e["resolved"]:
                ch = truth_channel(name, e)
                key = ch + ("-over-context" if ch == "node" and name in (e["pre_ctx"] or {}) else "") + \
                    ("-overriding-default" if ch == "context" and has_default(e, name) else "")
                stats["placements"][key] = stats["placements"].get(key, 0) + 1
        for sig, what, det in judge(r, nodes, detail, tz):
            rep.add_violation(sig, what, {"nodes": nodes, "initial_context": ctx0, "detail": detail, "tz": tz, "finding": det})
        if drv is not None:
            try:
                m = model_sers(drv, nodes, ctx0, c01.DOC_TABLE)
                stats["model_compared"] = stats.get("model_compared", 0) + 1
                for d in compare_with_model(m, r):
                    mism.append({"nodes": nodes, "initial_context": ctx0, "difference": d})
            except Exception as exc:
                rep.add_broken(f"correspondence C07: driver error {exc!r}")
                drv = None
        if len(samples) < 3 and i % 41 == 0:
            samples.append({"nodes": nodes, "tz": tz, "detail": detail, "sers": len(r["log"])})
    if mism:
        rep.add_broken(f"correspondence C07: the model's SER views differ from the real SER lines in {len(mism)} places, first "
                       + json.dumps(mism[0], default=str)[:700])
        rep.coverage["first_disagreements"] = mism[:5]
    rep.coverage.update({
        "evaluations": stats["sers"],
        "distinct_nontrivial": stats["runs"],
        "rule": "pipelines from the C01 generator (8% misfits) plus, every third case, a pipeline with a default overridden by the context, a default "
                "taken and a configured value shadowing a context key; each run traced under one of 4 host time zones x 4 detail levels (round robin) "
                "with the reference recorders installed; every SER field judged against the log",
        "samples": samples,
        "traces_validated_against_impl": stats["runs"],
        "generator_distribution": stats,
        "search": "same generator",
    })
    rep.assumptions += [
        "the reference log is taken at node.process(payload) and at the node's parameter fetch; context values are compared after a JSON round trip",
        "host time zone is set with POSIX TZ strings and time.tzset() in-process",
        "'names the class that ran' is judged as module.qualname of type(node.processor); adapter classes generated for sources/sinks report module 'abc'",
    ]
    return rep.finish()


def replay(path: str) -> int:
    case = json.loads(open(path).read())
    c = case.get("case", case)
    if "nodes" in c:
        r = serlog.logged_run(c["nodes"], c.get("initial_context", {}), detail=c.get("detail", "all"), tz=c.get("tz"))
        out = list(judge(r, c["nodes"], c.get("detail", "all"), c.get("tz")))
        for sig, what, det in out:
            print("REPLAY", sig, what, json.dumps(det, default=str)[:500])
        return 1 if out else 0
    print(json.dumps(case, indent=1, default=str)[:4000])
    return 0
