"""Reference execution log for C07/C17: what really happened at each node of a traced run, recorded
independently of the orchestrator's SER machinery.

`logged_run` wraps the public entry `node.process(payload)` and the node's parameter fetch with
recorders (installed for the duration of the call only) and returns, besides the trace records,
one entry per node that started:
    cls        the class object of node.processor
    spec       the node's configuration as given
    pre_ctx    deep copy of the context mapping when the node was entered
    post_ctx   deep copy when it returned / raised
    data_in / data_out     the data objects (views via pipegen.data_view)
    resolved   [(name, value)] every parameter value the node fetched, in order
    exc        the exception the node raised, if any
"""
from __future__ import annotations

import calendar
import contextlib
import copy
import os
import re
import time

from vlib import rt
from props import pipegen

TZS = {"UTC": "UTC0", "+09:00": "JST-9", "-08:00": "PST8", "+05:45": "<+0545>-5:45"}


@contextlib.contextmanager
def host_tz(name: str | None):
    """Run the body with the host time zone set (POSIX TZ strings: no tz database needed)."""
    if name is None:
        yield
        return
    old = os.environ.get("TZ")
    os.environ["TZ"] = TZS[name]
    time.tzset()
    try:
        yield
    finally:
        if old is None:
            os.environ.pop("TZ", None)
        else:
            os.environ["TZ"] = old
        time.tzset()


def safe_copy(ctx0: dict) -> dict:
    """Deep copy of an initial context, keeping values that cannot be copied (locks, files, generators) by reference."""
    out = {}
    for k, v in ctx0.items():
        try:
            out[k] = copy.deepcopy(v)
        except Exception:
            out[k] = v
    return out


@contextlib.contextmanager
def recorders(log: list):
    from semantiva.pipeline.payload_processors import _PayloadProcessor
    from semantiva.pipeline.nodes import nodes as N
    orig_process = _PayloadProcessor.process
    fetchers = [(cls, cls.__dict__["_fetch_parameter_value"]) for cls in (N._DataNode, N._ContextProcessorNode)
                if "_fetch_parameter_value" in cls.__dict__]
    current = []

    def snap(ctx):
        # value by value through the public accessors: a value that cannot be copied (a lock, an open file, a generator) is kept
        # by reference — it is still the same entry of the context
        try:
            out = {}
            for k in list(ctx.keys()):
                v = ctx.get_value(k)
                try:
                    out[k] = copy.deepcopy(v)
                except Exception:
                    out[k] = v
            return out
        except Exception:
            return None

    def process(self, payload=None):
        if not isinstance(self, N._PipelineNode) or payload is None:
            return orig_process(self, payload)
        entry = {"cls": type(self.processor), "node_cls": type(self), "pre_ctx": snap(payload.context), "data_in": payload.data,
                 "data_in_view": pipegen.data_view(payload.data), "resolved": [], "exc": None, "post_ctx": None,
                 "data_out": None, "data_out_view": None, "ctx_obj": payload.context}
        log.append(entry)
        current.append(entry)
        try:
            out = orig_process(self, payload)
            entry["post_ctx"] = snap(out.context)
            entry["data_out"] = out.data
            entry["data_out_view"] = pipegen.data_view(out.data)
            return out
        except BaseException as exc:
            entry["exc"] = exc
            entry["post_ctx"] = snap(payload.context)
            entry["data_out"] = payload.data
            entry["data_out_view"] = entry["data_in_view"]
            raise
        finally:
            current.pop()

    def make_fetch(orig):
        def fetch(self, name, context):
            value = orig(self, name, context)
            if current:
                current[-1]["resolved"].append((name, copy.deepcopy(value)))
            return value
        return fetch

    _PayloadProcessor.process = process
    for cls, orig in fetchers:
        cls._fetch_parameter_value = make_fetch(orig)
    try:
        yield
    finally:
        _PayloadProcessor.process = orig_process
        for cls, orig in fetchers:
            cls._fetch_parameter_value = orig


def logged_run(nodes, ctx0, detail="all", tz=None):
    pipegen.setup()
    from semantiva.pipeline import Pipeline, Payload
    from semantiva.context_processors import ContextType
    from semantiva.data_types import NoDataType
    from semantiva.trace.drivers.jsonl import JsonlTraceDriver
    log: list = []
    out = {"log": log, "records": [], "exc": None, "result": None}
    with rt.tempdir() as d, host_tz(tz):
        target = d / "t.jsonl"
        out["t0"] = time.time()
        try:
            with recorders(log):
                pipe = Pipeline(copy.deepcopy(nodes), trace=JsonlTraceDriver(str(target), detail=detail))
                out["result"] = pipe.process(Payload(NoDataType(), ContextType(safe_copy(ctx0))))
        except BaseException as exc:  # noqa: BLE001
            out["exc"] = exc
        out["t1"] = time.time()
        out["records"] = rt.read_trace(target) if target.exists() else []
    for i, e in enumerate(log):
        e["spec"] = nodes[i] if i < len(nodes) else None
    return out


RFC3339_UTC = re.compile(r"^(\d{4})-(\d\d)-(\d\d)T(\d\d):(\d\d):(\d\d)(\.\d+)?Z$")


def instant(ts: str):
    """RFC 3339 'Z' timestamp -> seconds since the epoch (float), or None when it is not in that form."""
    if not isinstance(ts, str):
        return None
    m = RFC3339_UTC.match(ts)
    if not m:
        return None
    y, mo, dd, h, mi, s = (int(m.group(i)) for i in range(1, 7))
    try:
        base = calendar.timegm((y, mo, dd, h, mi, s, 0, 0, 0))
    except Exception:
        return None
    return base + float(m.group(7) or 0)
