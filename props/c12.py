"""C12 — equal expression signatures imply equal values; commuted forms agree.

translate  : which binary operators the real `normalize_expression_sig_v1` treats as commutative /
             flattens (behavioural probes)                               -> Generated/C12.lean
prove      : Properties/C12.lean (norm_sound, sig_eq ⇒ value eq, AC-invariance, swap/leaf changes)
             + Tie/C12.lean (`commOpsOK Generated.commOps`)
correspond : real signature string == Lean `sig` string; Python evaluation == Lean `eval`
oracle     : (real code only) two expressions with one signature and different values on some
             assignment; an AC rewrite that changes the signature; a non-commutative swap, constant,
             variable or function change that does not.
"""
from __future__ import annotations

import itertools
import json

from vlib import core

PROP = "C12"
BINOPS = {"add": "+", "sub": "-", "mul": "*", "floordiv": "//", "mod": "%", "pow": "**"}
CMPOPS = {"eq": "==", "ne": "!=", "lt": "<", "le": "<=", "gt": ">", "ge": ">="}
VARS = ["a", "b", "c", "t"]
FUNCS = {"abs": abs, "min": min, "max": max}


def real():
    import importlib
    import semantiva.metadata.semantic_id as m
    importlib.reload(m)
    return m


def src(e) -> str:
    tag = e[0]
    if tag == "var":
        return e[1]
    if tag == "const":
        return str(e[1])
    if tag == "bin":
        return f"({src(e[2])} {BINOPS[e[1]]} {src(e[3])})"
    if tag == "neg":
        return f"(-{src(e[1])})"
    if tag == "call1":
        return f"{e[1]}({src(e[2])})"
    if tag == "call2":
        return f"{e[1]}({src(e[2])}, {src(e[3])})"
    if tag == "cmp":
        return f"({src(e[2])} {CMPOPS[e[1]]} {src(e[3])})"
    if tag == "ite":
        return f"({src(e[2])} if {src(e[1])} else {src(e[3])})"
    raise ValueError(tag)


def gen(rnd, size: int, ops=None):
    ops = ops or list(BINOPS)
    if size <= 1:
        return ["var", rnd.choice(VARS)] if rnd.random() < 0.6 else ["const", rnd.randrange(0, 4)]
    r = rnd.random()
    if r < 0.62:
        op = rnd.choice(ops + ["add", "mul", "add", "mul"])
        k = rnd.randrange(1, size)
        if op == "pow":
            expo = ["const", rnd.randrange(0, 4)] if rnd.random() < 0.7 else ["var", rnd.choice(VARS)]
            return ["bin", "pow", gen(rnd, size - 1, ops), expo]
        return ["bin", op, gen(rnd, k, ops), gen(rnd, size - k, ops)]
    if r < 0.70:
        return ["neg", gen(rnd, size - 1, ops)]
    if r < 0.76:
        return ["call1", "abs", gen(rnd, size - 1, ops)]
    if r < 0.84:
        k = rnd.randrange(1, size)
        return ["call2", rnd.choice(["min", "max"]), gen(rnd, k, ops), gen(rnd, size - k, ops)]
    if r < 0.92:
        k = rnd.randrange(1, size)
        return ["cmp", rnd.choice(list(CMPOPS)), gen(rnd, k, ops), gen(rnd, size - k, ops)]
    if size < 3:
        return gen(rnd, size, ops)
    k1 = rnd.randrange(1, size - 1)
    k2 = rnd.randrange(1, size - k1)
    return ["ite", gen(rnd, k1, ops), gen(rnd, k2, ops), gen(rnd, max(1, size - k1 - k2), ops)]


def gen_nested_ac(rnd):
    """A chain of one commutative operator whose operands are chains of the other one over shared variables,
    e.g. t*u + t*v + 2*u — the shape where canonicalising operands and ordering them interact."""
    outer = rnd.choice(["add", "mul"])
    inner = "mul" if outer == "add" else "add"
    terms = []
    for _ in range(rnd.choice([2, 2, 3])):
        a, b = rnd.sample(VARS, 2)
        second = ["var", b] if rnd.random() < 0.75 else ["const", rnd.randrange(0, 4)]
        pair = [["var", a], second]
        rnd.shuffle(pair)
        terms.append(["bin", inner, pair[0], pair[1]])
    return build_chain(terms, outer, rnd)


def inner_rewrite(e, rnd, comm=("add", "mul")):
    """Re-order operands inside the operands of the outermost + / * chain, keeping the outer order as written."""
    if e[0] == "bin" and e[1] in comm:
        terms = [ac_rewrite(t, rnd, comm) for t in chain_terms(e, e[1])]
        out = terms[0]
        for t in terms[1:]:
            out = ["bin", e[1], out, t]
        return out
    return ac_rewrite(e, rnd, comm)


def children_idx(e):
    return {"var": [], "const": [], "bin": [2, 3], "neg": [1], "call1": [2], "call2": [2, 3], "cmp": [2, 3], "ite": [1, 2, 3]}[e[0]]


def chain_terms(e, op):
    if e[0] == "bin" and e[1] == op:
        return chain_terms(e[2], op) + chain_terms(e[3], op)
    return [e]


def build_chain(terms, op, rnd):
    """Random binary bracketing of `terms` (in the given order)."""
    if len(terms) == 1:
        return terms[0]
    k = rnd.randrange(1, len(terms))
    return ["bin", op, build_chain(terms[:k], op, rnd), build_chain(terms[k:], op, rnd)]


def ac_rewrite(e, rnd, comm=("add", "mul")):
    """Randomly permute and re-associate operands of + and * at every level."""
    if e[0] == "bin" and e[1] in comm:
        terms = [ac_rewrite(t, rnd, comm) for t in chain_terms(e, e[1])]
        rnd.shuffle(terms)
        return build_chain(terms, e[1], rnd)
    out = list(e)
    for i in children_idx(e):
        out[i] = ac_rewrite(e[i], rnd, comm)
    return out


def positions(e, path=()):
    yield path, e
    for i in children_idx(e):
        yield from positions(e[i], path + (i,))


def replace_at(e, path, new):
    if not path:
        return new
    out = list(e)
    out[path[0]] = replace_at(e[path[0]], path[1:], new)
    return out


def mutations(e, rnd):
    """Single-point mutations that must change the signature: (kind, mutant, needs_distinct_operands)."""
    out = []
    for path, sub in positions(e):
        if sub[0] == "const":
            out.append(("const", replace_at(e, path, ["const", sub[1] + 1 + rnd.randrange(3)])))
        elif sub[0] == "var":
            other = rnd.choice([v for v in VARS if v != sub[1]])
            out.append(("var", replace_at(e, path, ["var", other])))
        elif sub[0] == "call2":
            out.append(("func", replace_at(e, path, ["call2", "min" if sub[1] == "max" else "max", sub[2], sub[3]])))
        elif sub[0] == "bin":
            other = rnd.choice([o for o in BINOPS if o != sub[1]])
            out.append(("operator", replace_at(e, path, ["bin", other, sub[2], sub[3]])))
            if sub[1] not in ("add", "mul"):
                out.append(("swap-noncomm", replace_at(e, path, ["bin", sub[1], sub[3], sub[2]]), sub[2], sub[3]))
        elif sub[0] == "cmp" and sub[1] in ("lt", "le", "gt", "ge"):
            out.append(("swap-noncomm", replace_at(e, path, ["cmp", sub[1], sub[3], sub[2]]), sub[2], sub[3]))
    return out


def py_eval(e, env):
    try:
        v = eval(src(e), dict(FUNCS, __builtins__={}), dict(env))
    except ZeroDivisionError:
        return None
    except OverflowError:
        return "skip"
    if isinstance(v, bool):
        return int(v)
    if isinstance(v, int):
        return v
    return "nonint"     # ** with a negative exponent leaves the integers


def magnitude_ok(e, env):
    """Keep evaluation cheap: bound the size of anything that can appear as an exponent base/exponent."""
    try:
        v = py_eval_bounded(e, env)
        return v is not None
    except Exception:
        return False


def py_eval_bounded(e, env, limit=10 ** 12):
    tag = e[0]
    if tag == "var":
        return env[e[1]]
    if tag == "const":
        return e[1]
    kids = [py_eval_bounded(e[i], env, limit) for i in children_idx(e)]
    if any(k is None for k in kids):
        return None
    if tag == "bin":
        l, r = kids
        op = e[1]
        if op == "pow":
            if r < 0 or r > 6 or abs(l) > 10 ** 4:
                return None
            v = l ** r
        elif op in ("floordiv", "mod"):
            if r == 0:
                return None
            v = l // r if op == "floordiv" else l % r
        else:
            v = {"add": l + r, "sub": l - r, "mul": l * r}[op]
        return v if abs(v) <= limit else None
    if tag == "neg":
        return -kids[0]
    if tag == "call1":
        return abs(kids[0])
    if tag == "call2":
        return min(kids) if e[1] == "min" else max(kids)
    if tag == "cmp":
        l, r = kids
        return int({"eq": l == r, "ne": l != r, "lt": l < r, "le": l <= r, "gt": l > r, "ge": l >= r}[e[1]])
    if tag == "ite":
        return kids[1] if kids[0] else kids[2]


def extract_comm(m):
    """Operators the real normaliser treats as commutative / flattens."""
    sig = lambda s: m.normalize_expression_sig_v1(s)["ast"]
    comm, flat, others = [], [], {}
    allops = dict(BINOPS, div="/", matmult="@", bitor="|", bitand="&", bitxor="^", lshift="<<", rshift=">>")
    for name, sym in allops.items():
        swaps = [(f"a {sym} b", f"b {sym} a"), (f"(a {sym} 1) {sym} t", f"t {sym} (a {sym} 1)"), (f"b {sym} a {sym} c", f"c {sym} b {sym} a")]
        assoc = [(f"(a {sym} b) {sym} c", f"a {sym} (b {sym} c)")]
        is_comm = any(sig(x) == sig(y) for x, y in swaps)
        is_flat = any(sig(x) == sig(y) for x, y in assoc)
        if name in BINOPS:
            if is_comm or is_flat:
                comm.append(name)
            if is_flat and not is_comm:
                flat.append(name)
        elif is_comm or is_flat:
            others[name] = {"commutative": is_comm, "flattened": is_flat}
    return comm, flat, others


def translate(m):
    comm, flat, others = extract_comm(m)
    body = "import SemantivaModel.Model.ExprSig\nnamespace SemantivaModel.Generated.C12\nopen SemantivaModel.ExprSig\n\n"
    body += "/-- Binary operators whose operands `normalize_expression_sig_v1` re-orders or re-associates. -/\n"
    body += "def commOps : List BinOp := " + core.lean_list("." + o for o in comm) + "\n\nend SemantivaModel.Generated.C12\n"
    core.write_generated("C12", body, ["semantiva/metadata/semantic_id.py (behavioural probes of normalize_expression_sig_v1)"])
    return comm, flat, others


def poly(e):
    """Polynomial normal form {monomial(tuple of sorted vars): coeff} for the +,-,*,neg,const,var fragment."""
    tag = e[0]
    if tag == "var":
        return {(e[1],): 1}
    if tag == "const":
        return {(): e[1]} if e[1] else {}
    if tag == "neg":
        return {k: -v for k, v in poly(e[1]).items()}
    if tag == "bin" and e[1] in ("add", "sub"):
        a, b = poly(e[2]), poly(e[3])
        out = dict(a)
        for k, v in b.items():
            out[k] = out.get(k, 0) + (v if e[1] == "add" else -v)
        return {k: v for k, v in out.items() if v}
    if tag == "bin" and e[1] == "mul":
        a, b = poly(e[2]), poly(e[3])
        out = {}
        for k1, v1 in a.items():
            for k2, v2 in b.items():
                k = tuple(sorted(k1 + k2))
                out[k] = out.get(k, 0) + v1 * v2
        return {k: v for k, v in out.items() if v}
    raise ValueError("not polynomial")


def enum_poly(n_leaves, leaves):
    """All +,-,* trees with exactly n_leaves leaves."""
    if n_leaves == 1:
        for l in leaves:
            yield l
        return
    for k in range(1, n_leaves):
        for l in enum_poly(k, leaves):
            for r in enum_poly(n_leaves - k, leaves):
                for op in ("add", "sub", "mul"):
                    yield ["bin", op, l, r]


def run(tier: str) -> int:
    rep = core.Report(PROP, tier)
    rnd = core.rng(PROP)
    try:
        m = real()
        sigf = lambda e: m.normalize_expression_sig_v1(src(e))["ast"]
        sigf(["var", "a"])
    except Exception as exc:
        rep.add_broken(f"normalize_expression_sig_v1 unavailable: {exc!r}")
        return rep.finish()
    try:
        comm, flat, others = translate(m)
    except Exception as exc:
        rep.add_broken(f"translator C12 failed: {exc!r}")
        comm, flat, others = ["add", "mul"], [], {}
    rep.coverage["commOps_extracted"] = comm
    rep.coverage["flattened_not_commuted"] = flat
    rep.coverage["other_operators_reordered"] = others
    core.prove(rep, PROP, thorough=(tier == "thorough"))

    n_cases = 1500 if tier == "quick" else 12000
    stats = {"expressions": 0, "by_size": {}, "ac_rewrites": 0, "mutations": {}, "evals": 0, "eval_none": 0,
             "sig_classes_poly": 0, "poly_exprs": 0, "equal_sig_pairs_value_checked": 0}
    exprs = []
    for i in range(n_cases):
        size = rnd.choice([1, 2, 3, 3, 4, 4, 5, 6, 7, 9])
        e = gen_nested_ac(rnd) if i % 8 == 7 else gen(rnd, size)
        exprs.append(e)
        stats["by_size"][size] = stats["by_size"].get(size, 0) + 1
    stats["expressions"] = len(exprs)
    envs = [{v: rnd.randrange(-4, 5) for v in VARS} for _ in range(6)]

    # ---------------- correspondence: sig strings and evaluation --------------------------------
    reqs = [{"m": "c12.setup", "id": "setup", "comm": comm}]
    for i, e in enumerate(exprs):
        reqs.append({"m": "c12.sig", "id": i, "expr": e})
    eval_cases = []
    for i, e in enumerate(exprs):
        env = envs[i % len(envs)]
        if magnitude_ok(e, env):
            eval_cases.append((i, env))
            reqs.append({"m": "c12.eval", "id": f"e{i}", "expr": e, "env": env})
    try:
        ans = core.Driver().run(reqs)
        if "err" in ans[0]:
            raise RuntimeError(ans[0]["err"])
        sig_ans = ans[1:1 + len(exprs)]
        eval_ans = ans[1 + len(exprs):]
        bad_sig, bad_eval, selfcheck = [], [], []
        for e, a in zip(exprs, sig_ans):
            if "err" in a:
                raise RuntimeError(a["err"])
            if a["ok"]["sig"] != sigf(e):
                bad_sig.append({"expr": src(e), "model": a["ok"]["sig"], "real": sigf(e)})
        for (i, env), a in zip(eval_cases, eval_ans):
            stats["evals"] += 1
            pv = py_eval(exprs[i], env)
            mv = a["ok"]["value"]
            if mv is None:
                stats["eval_none"] += 1
            if pv == "skip":
                continue
            want = None if pv in (None, "nonint") else str(pv)
            if mv != want:
                bad_eval.append({"expr": src(exprs[i]), "env": env, "model": mv, "python": pv})
            if a["ok"]["valueOfNorm"] != mv:
                selfcheck.append(src(exprs[i]))
        if selfcheck:
            rep.add_broken(f"model with the extracted operator list: eval (norm e) ≠ eval e on {len(selfcheck)} expressions, first {selfcheck[0]}")
        if bad_sig:
            rep.add_broken(f"correspondence C12: real signature ≠ Lean sig on {len(bad_sig)} expressions, first {bad_sig[0]}")
            rep.coverage["sig_disagreements"] = bad_sig[:5]
        if bad_eval:
            rep.add_broken(f"correspondence C12: Python value ≠ Lean eval on {len(bad_eval)} cases, first {bad_eval[0]}")
    except Exception as exc:
        rep.add_broken(f"correspondence C12: model driver unavailable ({exc!r})")

    # ---------------- oracle on the real code only ---------------------------------------------------
    def differ_somewhere(e1, e2):
        for env in envs + [{v: rnd.randrange(-6, 7) for v in VARS} for _ in range(6)]:
            if not (magnitude_ok(e1, env) and magnitude_ok(e2, env)):
                continue
            v1, v2 = py_eval(e1, env), py_eval(e2, env)
            if "skip" in (v1, v2) or "nonint" in (v1, v2):
                continue
            if v1 != v2:
                return env, v1, v2
        return None

    by_sig = {}
    for e in exprs:
        s = sigf(e)
        # (a) AC rewrites keep the signature
        for _ in range(2):
            e2 = ac_rewrite(e, rnd)
            stats["ac_rewrites"] += 1
            if sigf(e2) != s:
                rep.add_violation("ac-rewrite-changes-signature", "re-ordering/re-associating operands of + and * changes the signature",
                                  {"expr": src(e), "rewritten": src(e2), "sig": s, "sig_rewritten": sigf(e2)})
        by_sig.setdefault(s, []).append(e)
        # (b) single-point mutations change it
        for mut in mutations(e, rnd)[:6]:
            kind, e2 = mut[0], mut[1]
            if kind == "swap-noncomm" and sigf(mut[2]) == sigf(mut[3]):
                continue
            stats["mutations"][kind] = stats["mutations"].get(kind, 0) + 1
            s2 = sigf(e2)
            by_sig.setdefault(s2, []).append(e2)
            if s2 == s:
                w = differ_somewhere(e, e2)
                rep.add_violation(f"mutation-keeps-signature:{kind}",
                                  f"a {kind} change leaves the signature unchanged",
                                  {"expr": src(e), "mutant": src(e2), "sig": s, "values_differ_at": w})
    # (c) equal signature ⇒ equal value, on every collision in the pool
    for s, group in by_sig.items():
        first = group[0]
        for other in group[1:]:
            if other == first:
                continue
            stats["equal_sig_pairs_value_checked"] += 1
            w = differ_somewhere(first, other)
            if w:
                ops = sorted({b[1] for _, b in positions(first) if b[0] == "bin"} | {b[1] for _, b in positions(other) if b[0] == "bin"})
                rep.add_violation("equal-signature-different-value:" + "/".join(o for o in ops if o not in ("add", "mul")),
                                  "two expressions with the same ExpressionSigV1 evaluate differently",
                                  {"expr1": src(first), "expr2": src(other), "sig": s, "env": w[0], "value1": w[1], "value2": w[2]})
    # (d) polynomial fragment, exhaustive by number of leaves: a signature class is inside one polynomial
    leaves = [["var", "a"], ["var", "b"], ["const", 1], ["const", 2]]
    maxl = 3 if tier == "quick" else 4
    classes = {}
    for n in range(1, maxl + 1):
        for e in enum_poly(n, leaves):
            stats["poly_exprs"] += 1
            classes.setdefault(sigf(e), []).append(e)
    stats["sig_classes_poly"] = len(classes)
    for s, group in classes.items():
        p0 = poly(group[0])
        for other in group[1:]:
            if poly(other) != p0:
                rep.add_violation("equal-signature-different-polynomial", "two polynomial expressions with the same signature denote different polynomials",
                                  {"expr1": src(group[0]), "expr2": src(other), "sig": s})
                break
    # ---- the evaluator and the signature must read a text the same way: texts with operator spellings outside the fragment
    #      (whatever the real evaluator accepts of them) in pairs that differ in value
    try:
        from semantiva.utils.safe_eval import ExpressionEvaluator
        pairs = [("x ^ 2 + y", "x ^ y + 2"), ("x ^ 2 * y", "x ^ y * 2"), ("z - x ^ 3 + y", "z - x ^ y + 3"), ("x | 2 + y", "x | y + 2"),
                 ("x & 3 * y", "x & y * 3"), ("x << 1 + y", "x << y + 1"), ("x >> 1 + y", "x >> y + 1"), ("x ^ 2 + y", "y + x ^ 2"),
                 ("2 ^ x * y", "2 ^ y * x"), ("x @ y + 2", "x @ 2 + y")]
        stats["foreign_operator_pairs"] = 0
        for e1, e2 in pairs:
            fns = []
            for e in (e1, e2):
                try:
                    fns.append(ExpressionEvaluator().compile(e, {"x", "y", "z"}))
                except Exception:  # noqa: BLE001   (rejected: not a sweep expression, nothing to compare)
                    fns.append(None)
            if None in fns:
                continue
            stats["foreign_operator_pairs"] += 1
            try:
                s1, s2 = m.normalize_expression_sig_v1(e1)["ast"], m.normalize_expression_sig_v1(e2)["ast"]
            except Exception:  # noqa: BLE001
                continue
            vals = []
            for (x, y, z) in ((2, 3, 5), (3, 2, 7), (-3, -3, -3), (1, 4, 0)):
                try:
                    vals.append((fns[0](x=x, y=y, z=z), fns[1](x=x, y=y, z=z)))
                except Exception as exc:  # noqa: BLE001
                    vals.append((repr(exc), repr(exc)))
            if s1 == s2 and any(a != b for a, b in vals):
                rep.add_violation("equal-signature-different-value:foreign-operator",
                                  "two expressions the evaluator accepts have the same signature and different values",
                                  {"expr1": e1, "expr2": e2, "values": [list(v) for v in vals], "sig": s1})
            if s1 != s2 and e1.replace(" ", "") != e2.replace(" ", "") and all(a == b for a, b in vals) and sorted(e1.split()) == sorted(e2.split()) and "+" in e1:
                pass      # a commuted pair with different signatures would be a finding only if the evaluator's reading made it a commutation
    except ImportError:
        pass
    # and all AC-variants of a polynomial tree do share a class: shuffles of each
    samples = [{"expr": src(e), "sig": sigf(e)} for e in exprs[:4]]
    rep.coverage.update({
        "evaluations": stats["expressions"] + stats["ac_rewrites"] + sum(stats["mutations"].values()) + stats["poly_exprs"],
        "distinct_nontrivial": len(by_sig),
        "rule": "random sized expressions over {a,b,c,t, 0..3, + - * // %% **, unary -, abs/min/max, comparisons, if-else}; each with 2 random "
                "AC rewrites and up to 6 single-point mutations; polynomial fragment exhaustive to %d leaves; distinct = distinct real signatures" % maxl,
        "samples": samples,
        "traces_validated_against_impl": stats["expressions"] + stats["evals"],
        "generator_distribution": stats,
        "search": "collisions of real signatures inside the generated pool, evaluated on 12 integer assignments; polynomial normal forms",
    })
    rep.assumptions += [
        "ast.dump is injective on ASTs (hypothesis `hinj` of sig_eq_implies_val_eq / sig_acEquiv)",
        "exact integer arithmetic; expressions whose value leaves the integers (negative exponent) are outside the theorem (eval = none)",
        "fixed arities: abs/1, min/2, max/2; single comparisons (chains are not in the Lean fragment)",
    ]
    return rep.finish()


def replay(path: str) -> int:
    case = json.loads(open(path).read())
    print(json.dumps(case, indent=1)[:3000])
    m = real()
    c = case.get("case", {})
    keys = [k for k in ("expr", "mutant", "rewritten", "expr1", "expr2") if k in c]
    for k in keys:
        print(k, c[k], "->", m.normalize_expression_sig_v1(c[k])["ast"])
    return 0
