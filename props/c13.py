"""C13 — trace aggregation is order-independent and right for every partial trace.

translate  : status decision tables of finalize_run / finalize_launch and the terminal-status set,
             read off the real TraceAggregator on minimal record sets      -> Generated/C13.lean
prove      : Properties/C13.lean (perm-invariance of run and launch verdicts, idempotent
             finalisation, documented verdict of every prefix of a runtime trace) + Tie/C13.lean
correspond : real TraceAggregator vs Lean model on prefixes / permutations / subsets / k-way
             interleavings of *real* traces (single runs incl. failing ones, CLI run-space launches)
oracle     : (real code only) two orders of one multiset giving different verdicts; a second
             finalisation differing from the first; a prefix whose verdict is not the documented one;
             launch roll-ups that are not the counts of the runs' verdicts.
"""
from __future__ import annotations

import dataclasses
import itertools
import json

from vlib import core, rt

PROP = "C13"
CANDIDATE_STATUSES = ["succeeded", "error", "skipped", "cancelled", "running", "unknown", "pending", "started", "failed", "ok"]
DOC_TERMINAL = ["succeeded", "error", "skipped", "cancelled"]


def Agg():
    import importlib
    import semantiva.trace.aggregation.aggregator as m
    return m.TraceAggregator()


def reload_real():
    import importlib
    import semantiva.trace.aggregation.models as mm
    import semantiva.trace.aggregation.aggregator as m
    importlib.reload(mm)
    importlib.reload(m)


# ---------------------------------------------------------------------------------------------
# translate
# ---------------------------------------------------------------------------------------------

def _mini(s, e, n, run="R", fk=None):
    recs = []
    if s:
        r = {"record_type": "pipeline_start", "run_id": run, "pipeline_spec_canonical": {"nodes": [{"node_uuid": "n1"}]}}
        if fk:
            r["run_space_launch_id"], r["run_space_attempt"] = fk
        recs.append(r)
    if n:
        recs.append({"record_type": "ser", "identity": {"run_id": run, "node_id": "n1"}, "status": "succeeded"})
    if e:
        recs.append({"record_type": "pipeline_end", "run_id": run})
    return recs


def extract_tables():
    run_table = []
    for s, e, n in itertools.product([True, False], repeat=3):
        a = Agg()
        a.ingest_many(_mini(s, e, n))
        run_table.append([s, e, n, a.finalize_run("R").status])
    launch_table = []
    for s, e, r, b in itertools.product([True, False], repeat=4):
        recs = []
        if s:
            recs.append({"record_type": "run_space_start", "run_space_launch_id": "L", "run_space_attempt": 1})
        if r:
            recs += _mini(True, not b, True, run="R1", fk=("L", 1))
        if e:
            recs.append({"record_type": "run_space_end", "run_space_launch_id": "L", "run_space_attempt": 1})
        a = Agg()
        a.ingest_many(recs)
        st = a.finalize_launch("L", 1).status
        launch_table.append([s, e, r, b, st])
    # (r = False, b = True) is unreachable: give it the value of (r = False, b = False)
    byk = {(s, e, r, b): st for s, e, r, b, st in launch_table}
    launch_table = [[s, e, r, b, (byk[(s, e, False, False)] if (not r and b) else st)] for s, e, r, b, st in launch_table]
    terminal = []
    for st in CANDIDATE_STATUSES:
        a = Agg()
        a.ingest_many([{"record_type": "pipeline_start", "run_id": "R"},
                       {"record_type": "ser", "identity": {"run_id": "R", "node_id": "n1"}, "status": st}])
        if not a.finalize_run("R").nonterminal_nodes:
            terminal.append(st)
    return run_table, launch_table, terminal


def translate():
    run_table, launch_table, terminal = extract_tables()
    stc = {"complete": ".complete", "partial": ".part", "invalid": ".invalid"}
    b = core.lean_bool
    body = "import SemantivaModel.Model.Aggregator\nnamespace SemantivaModel.Generated.C13\nopen SemantivaModel.Aggregator\n\n"
    body += "def runTable : RunTable :=\n  " + core.lean_list(f"(({b(s)}, {b(e)}, {b(n)}), {stc[st]})" for s, e, n, st in run_table) + "\n\n"
    body += "def launchTable : LaunchTable :=\n  " + core.lean_list(f"(({b(s)}, {b(e)}, {b(r)}, {b(x)}), {stc[st]})" for s, e, r, x, st in launch_table) + "\n\n"
    body += "def terminal : List String := " + core.lean_strs(terminal) + "\n\n"
    body += "def candidateStatuses : List String := " + core.lean_strs(CANDIDATE_STATUSES) + "\n\nend SemantivaModel.Generated.C13\n"
    core.write_generated("C13", body, ["semantiva/trace/aggregation/aggregator.py (finalize_run / finalize_launch on minimal record sets)"])
    return run_table, launch_table, terminal


# ---------------------------------------------------------------------------------------------
# real traces
# ---------------------------------------------------------------------------------------------

SRC = {"processor": "FloatValueDataSource", "parameters": {"value": 2.0}}
OKS = [{"processor": "FloatMultiplyOperation", "parameters": {"factor": 3.0}},
       {"processor": "FloatAddOperation", "parameters": {"addend": 1.0}},
       {"processor": "FloatSquareOperation"},
       {"processor": "FloatBasicProbe", "context_key": "probe_out"},
       {"processor": "FloatMultiplyOperationWithDefault"}]
BADS = [{"processor": "FloatMultiplyOperation"},                                   # unresolvable parameter
        {"processor": "FloatDivideOperation", "parameters": {"divisor": 0.0}},     # processor error
        {"processor": "FloatCollectionSumOperation"}]                              # type gate


def single_run_trace(rnd, fail: bool):
    n = rnd.randrange(1, 6)
    nodes = [SRC] + [dict(rnd.choice(OKS)) for _ in range(n)]
    # probe context keys must be distinct
    for i, nd in enumerate(nodes):
        if "context_key" in nd:
            nd["context_key"] = f"probe_{i}"
    if fail:
        k = rnd.randrange(1, len(nodes) + 1)
        nodes.insert(k, dict(rnd.choice(BADS)))
    with rt.tempdir() as d:
        res = rt.run_pipeline(nodes, trace_dir=d)
        recs = rt.read_trace(d)
    return recs, {"nodes": [n_["processor"] for n_ in nodes], "ok": res["ok"]}


LAUNCH_YAML = """extensions: ["semantiva-examples"]
trace:
  driver: jsonl
  output_path: "{trace}"
run_space:
  blocks:
    - mode: {mode}
      context:
        value: {values}
        divisor: {divisors}
pipeline:
  nodes:
    - processor: FloatValueDataSource
    - processor: FloatDivideOperation
    - processor: FloatAddOperation
      parameters:
        addend: 1.0
"""


def launch_trace(rnd, fail_at: int | None, to_file: bool, launch_id=None, attempt=None):
    nruns = rnd.randrange(1, 5)
    values = [float(i + 1) for i in range(nruns)]
    divisors = [1.0 + i for i in range(nruns)]
    if fail_at is not None and fail_at < nruns:
        divisors[fail_at] = 0.0
    with rt.tempdir() as d:
        out = d / ("trace.jsonl" if to_file else "tracedir")
        if not to_file:
            out.mkdir()
        (d / "cfg.yaml").write_text(LAUNCH_YAML.format(trace=str(out), mode="by_position", values=values, divisors=divisors))
        requested = launch_id or rnd.choice(["launch-{n}", "nightly sweep #{n}", "exp:2026-10-01+retry/{n}", "läuf {n}"]).format(n=rnd.randrange(10**9))
        args = ["run", str(d / "cfg.yaml"), "--run-space-launch-id", requested]
        if attempt is not None:
            args += ["--run-space-attempt", str(attempt)]
        code, so, se = rt.cli(args, cwd=d)
        files = rt.read_trace_files(out)
    recs = [r for f in sorted(files) for r in files[f]]
    return recs, files, {"runs": nruns, "fail_at": fail_at, "exit": code, "to_file": to_file, "stderr": se[-200:],
                         "launch_id": requested, "attempt": attempt or 1}


# ---------------------------------------------------------------------------------------------
# canonicalisation for the model
# ---------------------------------------------------------------------------------------------

def ser_ts(r):
    return r.get("timestamp") or (r.get("timing") or {}).get("started_at")


def canon_records(records):
    stamps = set()
    for r in records:
        t = r.get("record_type")
        if t in ("pipeline_start", "pipeline_end"):
            ts = r.get("timestamp") or (r.get("timing") or {}).get("started_at" if t == "pipeline_start" else "finished_at")
            if ts:
                stamps.add(ts)
        elif t == "ser":
            for ts in (ser_ts(r), (r.get("timing") or {}).get("finished_at"), (r.get("timing") or {}).get("started_at")):
                if ts:
                    stamps.add(ts)
    rank = {s: i for i, s in enumerate(sorted(stamps))}
    rk = lambda s: rank[s] if s else None
    out = []
    for r in records:
        t = r.get("record_type")
        if t == "run_space_start":
            out.append(["rsStart", r["run_space_launch_id"], int(r["run_space_attempt"])])
        elif t == "run_space_end":
            out.append(["rsEnd", r["run_space_launch_id"], int(r["run_space_attempt"])])
        elif t == "pipeline_start":
            nodes = [n["node_uuid"] for n in (r.get("pipeline_spec_canonical") or {}).get("nodes", [])]
            fk = None
            if r.get("run_space_launch_id") is not None and r.get("run_space_attempt") is not None:
                fk = [r["run_space_launch_id"], int(r["run_space_attempt"])]
            out.append(["pStart", r["run_id"], nodes, fk, rk(r.get("timestamp") or (r.get("timing") or {}).get("started_at"))])
        elif t == "pipeline_end":
            out.append(["pEnd", r["run_id"], rk(r.get("timestamp") or (r.get("timing") or {}).get("finished_at"))])
        elif t == "ser":
            ident = r.get("identity") or {}
            timing = r.get("timing") or {}
            ts = ser_ts(r)
            if r.get("timestamp") and timing.get("started_at") and timing["started_at"] != r["timestamp"]:
                raise ValueError("ser with distinct timestamp and started_at is outside the model")
            out.append(["ser", ident["run_id"], ident["node_id"], r.get("status") or "unknown", rk(ts), rk(timing.get("finished_at"))])
        else:
            out.append(["other"])
    return out


def real_verdicts(records, runs, launches):
    a = Agg()
    a.ingest_many(records)
    rv1 = [a.finalize_run(r) for r in runs]
    lv1 = [a.finalize_launch(l, at) for (l, at) in launches]
    rv2 = [a.finalize_run(r) for r in runs]
    lv2 = [a.finalize_launch(l, at) for (l, at) in launches]
    return rv1, lv1, rv2, lv2


def run_view(v):
    return {"known": v.problems != ["unknown_run"], "status": v.status,
            "problems": list(v.problems) if v.problems != ["unknown_run"] else ["unknown_run"],
            "missing": list(v.missing_nodes), "orphan": list(v.orphan_nodes), "nonterminal": list(v.nonterminal_nodes)}


def launch_view(v):
    known = v.problems != ["unknown_launch"]
    rs = (v.summary or {}).get("runs_by_status", {}) if known else {}
    return {"known": known, "status": v.status, "problems": list(v.problems),
            "runs_total": (v.summary or {}).get("runs_total", 0) if known else 0,
            "complete": rs.get("complete", 0), "partial": rs.get("partial", 0), "invalid": rs.get("invalid", 0)}


# ---------------------------------------------------------------------------------------------
# the check
# ---------------------------------------------------------------------------------------------

def run(tier: str) -> int:
    rep = core.Report(PROP, tier)
    rnd = core.rng(PROP)
    rt.setup()
    try:
        reload_real()
        run_table, launch_table, terminal = translate()
    except Exception as exc:
        rep.add_broken(f"translator C13 failed on the real TraceAggregator: {exc!r}")
        run_table = launch_table = terminal = None
    rep.coverage["tables"] = {"run": run_table, "launch": launch_table, "terminal": terminal}
    core.prove(rep, PROP, thorough=(tier == "thorough"))

    n_single = 10 if tier == "quick" else 40
    n_launch = 4 if tier == "quick" else 14
    n_perm = 8 if tier == "quick" else 25
    traces = []
    for i in range(n_single):
        recs, info = single_run_trace(rnd, fail=(i % 2 == 1))
        traces.append({"kind": "single", "records": recs, "files": None, "info": info})
    for i in range(n_launch):
        fail_at = None if i % 2 == 0 else rnd.randrange(0, 3)
        recs, files, info = launch_trace(rnd, fail_at, to_file=(i % 4 >= 2))
        traces.append({"kind": "launch", "records": recs, "files": files, "info": info})
    # a retried launch: two attempts under one launch id in one record set (the first cut short like a crash, or failing)
    for i in range(2 if tier == "quick" else 6):
        lid = rnd.choice(["retried-{n}", "retried run #{n}"]).format(n=rnd.randrange(10**9))
        r1, f1, i1 = launch_trace(rnd, rnd.choice([None, 0, 1]), to_file=False, launch_id=lid, attempt=1)
        r2, f2, i2 = launch_trace(rnd, None, to_file=False, launch_id=lid, attempt=2)
        if rnd.random() < 0.6 and len(r1) > 3:
            r1 = r1[:rnd.randrange(2, len(r1))]
        order = r1 + r2 if i % 2 == 0 else r2 + r1
        traces.append({"kind": "launch", "records": order, "files": None, "info": {"retry": True, "attempt1": i1, "attempt2": i2, "exit": 0}})
    n_launch += 2 if tier == "quick" else 6

    stats = {"traces": len(traces), "single": n_single, "launch": n_launch, "record_sets": 0, "prefixes": 0, "permutations": 0,
             "subsets": 0, "interleavings": 0, "records_total": sum(len(t["records"]) for t in traces),
             "failing_traces": sum(1 for t in traces if t["info"].get("ok") is False or t["info"].get("exit", 0) != 0),
             "status_seen": {}}
    cases = []   # (label, records, runs, launches)

    def universe(recs):
        runs, launches = [], []
        for r in recs:
            rid = r.get("run_id") or (r.get("identity") or {}).get("run_id")
            if rid and rid not in runs:
                runs.append(rid)
            if r.get("run_space_launch_id") is not None:
                k = (r["run_space_launch_id"], int(r.get("run_space_attempt", 1)))
                if k not in launches:
                    launches.append(k)
        return runs, launches

    for ti, t in enumerate(traces):
        recs = t["records"]
        runs, launches = universe(recs)
        # --- prefix oracle (documented verdicts), on the real code
        for k in range(len(recs) + 1):
            stats["prefixes"] += 1
            cases.append((f"t{ti}:prefix{k}", recs[:k], runs, launches))
            check_prefix(rep, t, recs, k, runs, launches)
        # --- the launch the runtime was asked to run (its id is known from the command line) gets the documented verdict on the
        #     complete trace: complete with all its runs when every run succeeded
        if t["kind"] == "launch" and t["info"].get("launch_id") and not t["info"].get("retry"):
            a = Agg()
            a.ingest_many(recs)
            v = a.finalize_launch(t["info"]["launch_id"], t["info"]["attempt"])
            summ = v.summary or {}
            started = t["info"]["runs"] if t["info"]["fail_at"] is None or t["info"]["fail_at"] >= t["info"]["runs"] else t["info"]["fail_at"] + 1
            if v.status != "complete" or summ.get("runs_total") != started:
                rep.add_violation("launch-verdict-of-requested-id",
                                  f"the launch run as {t['info']['launch_id']!r} is reported {v.status!r} with {summ.get('runs_total')} runs "
                                  f"({list(v.problems)}); the runtime started {started} runs and closed the launch",
                                  {"trace": t["info"], "records": recs, "launches_known": [list(k) for k in launches]})
        # --- a tailing viewer: one aggregator, finalised after every record, must agree with a fresh one on each prefix
        for order_label, order in (("chronological", recs), ("shuffled", rnd.sample(recs, len(recs)))):
            tail = Agg()
            for k, r in enumerate(order):
                tail.ingest(r)
                stats["tailing_steps"] = stats.get("tailing_steps", 0) + 1
                got = ([run_view(tail.finalize_run(x)) for x in runs], [launch_view(tail.finalize_launch(l, at)) for (l, at) in launches])
                fresh = Agg()
                fresh.ingest_many(order[:k + 1])
                want = ([run_view(fresh.finalize_run(x)) for x in runs], [launch_view(fresh.finalize_launch(l, at)) for (l, at) in launches])
                if got != want:
                    fld = next((k2 for part in (0, 1) for x, y in zip(got[part], want[part]) for k2 in x if x[k2] != y.get(k2)), "?")
                    rep.add_violation(f"finalize-then-ingest:{order_label}:{fld}",
                                      "an aggregator that was finalised before the last records arrived reports a verdict that differs from a fresh "
                                      "aggregator given the same records (the verdict depends on when finalize was called, not on the set of records)",
                                      {"trace": t["info"], "order": order_label, "records_ingested": k + 1, "tailing": got, "fresh": want,
                                       "records": order[:k + 1]})
                    break
        # --- how the records arrive (a list, a one-shot iterator, a lazily merged stream, chunks, one by one) is not part of the
        #     set of records: every delivery of the same prefix must give the same verdicts
        import heapq
        import itertools
        for k in sorted({len(recs), len(recs) // 2, rnd.randrange(0, len(recs) + 1)}):
            want = None
            for mode in ("list", "generator", "iterator", "tuple", "chain", "merge", "chunks", "one-by-one"):
                a = Agg()
                pre = recs[:k]
                if mode == "list":
                    a.ingest_many(list(pre))
                elif mode == "generator":
                    a.ingest_many(r for r in pre)
                elif mode == "iterator":
                    a.ingest_many(iter(pre))
                elif mode == "tuple":
                    a.ingest_many(tuple(pre))
                elif mode == "chain":
                    a.ingest_many(itertools.chain(pre[:k // 2], pre[k // 2:]))
                elif mode == "merge":
                    a.ingest_many(x for _, x in heapq.merge(enumerate(pre[0::2]), ((i + 0.5, x) for i, x in enumerate(pre[1::2])), key=lambda t: t[0]))
                elif mode == "chunks":
                    for c in range(0, k, 3):
                        a.ingest_many(iter(pre[c:c + 3]))
                else:
                    for r in pre:
                        a.ingest(r)
                got = ([run_view(a.finalize_run(x)) for x in runs], [launch_view(a.finalize_launch(l, at)) for (l, at) in launches])
                stats["deliveries"] = stats.get("deliveries", 0) + 1
                if want is None:
                    want = got
                elif got != want:
                    fld = next((k2 for part in (0, 1) for x, y in zip(got[part], want[part]) for k2 in x if x[k2] != y.get(k2)), "?")
                    rep.add_violation(f"delivery-dependent-verdict:{mode}:{fld}",
                                      f"the same {k} records give different verdicts when handed to ingest_many as a {mode} than as a list",
                                      {"trace": t["info"], "records": pre, "delivery": mode, "as_list": want, "as_delivered": got})
        # --- order independence on the real code
        base = real_verdicts(recs, runs, launches)
        for p in range(n_perm):
            perm = recs[:]
            rnd.shuffle(perm)
            stats["permutations"] += 1
            got = real_verdicts(perm, runs, launches)
            if (got[0], got[1]) != (base[0], base[1]):
                bad = next((i for i in range(len(runs)) if got[0][i] != base[0][i]), None)
                field = diff_field(base[0][bad], got[0][bad]) if bad is not None else "launch:" + diff_field(base[1][0], got[1][0])
                rep.add_violation(f"order-dependent-verdict:{field}", "two ingestion orders of the same records give different verdicts",
                                  {"trace": t["info"], "order_a": recs, "order_b": perm, "verdict_a": repr(base[0] + base[1]), "verdict_b": repr(got[0] + got[1])})
            if p < 2:
                cases.append((f"t{ti}:perm{p}", perm, runs, launches))
        for s in range(n_perm):
            sub = [r for r in recs if rnd.random() < 0.6]
            stats["subsets"] += 1
            a = real_verdicts(sub, runs, launches)
            sub2 = sub[:]
            rnd.shuffle(sub2)
            b = real_verdicts(sub2, runs, launches)
            if (a[0], a[1]) != (b[0], b[1]):
                bad = next((i for i in range(len(runs)) if a[0][i] != b[0][i]), None)
                field = diff_field(a[0][bad], b[0][bad]) if bad is not None else "launch"
                rep.add_violation(f"order-dependent-verdict:{field}", "two ingestion orders of the same subset of records give different verdicts",
                                  {"trace": t["info"], "order_a": sub, "order_b": sub2})
            if s < 2:
                cases.append((f"t{ti}:subset{s}", sub2, runs, launches))
        # --- per-file interleavings of a directory-mode launch
        if t["files"] and len(t["files"]) > 1:
            for _ in range(n_perm):
                iters = [list(v) for v in t["files"].values()]
                merged = []
                while any(iters):
                    src = rnd.choice([x for x in iters if x])
                    merged.append(src.pop(0))
                stats["interleavings"] += 1
                got = real_verdicts(merged, runs, launches)
                if (got[0], got[1]) != (base[0], base[1]):
                    rep.add_violation("order-dependent-verdict:file-interleaving", "a k-way interleaving of per-run files changes a verdict",
                                      {"trace": t["info"], "merged": merged})
            cases.append((f"t{ti}:interleaved", merged, runs, launches))
    # --- interleavings of independent traces
    for _ in range(n_perm):
        chosen = rnd.sample(traces, k=min(len(traces), rnd.choice([2, 3])))
        iters = [list(t["records"]) for t in chosen]
        allrecs = [r for t in chosen for r in t["records"]]
        runs, launches = universe(allrecs)
        merged = []
        while any(iters):
            src = rnd.choice([x for x in iters if x])
            merged.append(src.pop(0))
        stats["interleavings"] += 1
        a = real_verdicts(allrecs, runs, launches)
        b = real_verdicts(merged, runs, launches)
        if (a[0], a[1]) != (b[0], b[1]):
            rep.add_violation("order-dependent-verdict:trace-interleaving", "interleaving independent traces changes a verdict",
                              {"concatenated": allrecs, "merged": merged})
        cases.append(("mix", merged, runs, launches))

    # ---------------- idempotence + correspondence with the model ---------------------------------
    reqs = []
    if run_table is not None:
        reqs.append({"m": "c13.setup", "id": "setup", "runTable": run_table, "launchTable": launch_table, "terminal": terminal})
    real_views = []
    skipped = 0
    for label, recs, runs, launches in cases:
        stats["record_sets"] += 1
        rv1, lv1, rv2, lv2 = real_verdicts(recs, runs, launches)
        if rv1 != rv2 or lv1 != lv2:
            rep.add_violation("finalize-not-idempotent", "finalising twice gives a different verdict the second time",
                              {"case": label, "records": recs, "first": repr(rv1 + lv1), "second": repr(rv2 + lv2)})
        for v in rv1:
            stats["status_seen"][v.status] = stats["status_seen"].get(v.status, 0) + 1
        try:
            cr = canon_records(recs)
        except ValueError:
            skipped += 1
            real_views.append(None)
            continue
        real_views.append(([run_view(v) for v in rv1], [launch_view(v) for v in lv1]))
        reqs.append({"m": "c13.verdicts", "id": label, "records": cr, "runs": runs, "launches": [list(k) for k in launches]})
    stats["outside_model"] = skipped
    if run_table is not None:
        try:
            ans = core.Driver().run(reqs)
            if "err" in ans[0]:
                raise RuntimeError(ans[0]["err"])
            it = iter(ans[1:])
            dis = []
            for (label, recs, runs, launches), rvw in zip(cases, real_views):
                if rvw is None:
                    continue
                a = next(it)
                if "err" in a:
                    raise RuntimeError(a["err"])
                mv = (a["ok"]["runs"], a["ok"]["launches"])
                if mv[0] != rvw[0] or mv[1] != rvw[1]:
                    dis.append({"case": label, "model": mv, "real": rvw})
            if dis:
                rep.add_broken(f"correspondence C13: real aggregator and Lean model differ on {len(dis)} record sets, first {json.dumps(dis[0])[:600]}")
                rep.coverage["first_disagreements"] = dis[:3]
        except Exception as exc:
            rep.add_broken(f"correspondence C13: model driver unavailable ({exc!r})")

    rep.coverage.update({
        "evaluations": stats["record_sets"] + stats["permutations"] + stats["subsets"] + stats["interleavings"],
        "distinct_nontrivial": stats["prefixes"] + stats["permutations"] + stats["subsets"],
        "rule": "real traces (single runs of random float pipelines, half of them failing at a random node; CLI run-space launches, "
                "file and directory output, some with a failing run); for each: every prefix, random permutations, random subsets "
                "in two orders, k-way interleavings; non-trivial = record set with at least one record",
        "samples": [{"info": t["info"], "record_types": [r.get("record_type") for r in t["records"]]} for t in traces[:3]],
        "traces_validated_against_impl": stats["record_sets"],
        "generator_distribution": stats,
        "search": "permutations/subsets/interleavings of real traces; duplicated SERs with conflicting statuses are outside the hypothesis (one SER per node) and are not generated",
    })
    rep.assumptions += [
        "one pipeline_start per run and one SER per (run, node) (hypothesis `Compat`; guaranteed by the runtime, C06)",
        "timestamps are compared as strings by the code and as order-isomorphic ranks by the model",
        "the dictionary of runs is the product of its per-run projections (validated by the correspondence run on multi-run record sets)",
    ]
    return rep.finish()


def diff_field(a, b):
    for f in dataclasses.fields(a):
        if getattr(a, f.name) != getattr(b, f.name):
            return f.name
    return "?"


def check_prefix(rep, t, recs, k, runs, launches):
    """Documented verdict of a prefix of a runtime trace, checked on the real aggregator."""
    pre = recs[:k]
    a = Agg()
    a.ingest_many(pre)
    for rid in runs:
        mine = [r for r in pre if (r.get("run_id") or (r.get("identity") or {}).get("run_id")) == rid]
        v = a.finalize_run(rid)
        if not mine:
            if v.status != "invalid" or v.problems != ["unknown_run"]:
                rep.add_violation("prefix:unknown-run", "a run with no record ingested is not reported unknown/invalid",
                                  {"trace": t["info"], "prefix_len": k, "verdict": repr(v)})
            continue
        start = next((r for r in mine if r["record_type"] == "pipeline_start"), None)
        end = any(r["record_type"] == "pipeline_end" for r in mine)
        if start is None:
            continue   # cannot happen for a prefix of a runtime trace
        canon = [n["node_uuid"] for n in start["pipeline_spec_canonical"]["nodes"]]
        seen = {r["identity"]["node_id"] for r in mine if r["record_type"] == "ser"}
        want_status = "complete" if end else "partial"
        want_problems = [] if end else ["missing_pipeline_end"]
        want_missing = sorted(set(canon) - seen)
        got_problems = [p for p in v.problems if p != "start_time_gt_end_time"]
        what = None
        if v.status != want_status:
            what = ("status", f"status {v.status!r}, documented {want_status!r}")
        elif got_problems != want_problems:
            what = ("problems", f"problems {v.problems!r}, documented {want_problems!r}")
        elif list(v.missing_nodes) != want_missing:
            what = ("missing_nodes", f"missing_nodes {v.missing_nodes!r}, canonical nodes without a SER {want_missing!r}")
        elif v.orphan_nodes:
            what = ("orphan_nodes", f"orphans {v.orphan_nodes!r} reported for a runtime trace")
        if what:
            rep.add_violation(f"prefix-verdict:{what[0]}:{'with-end' if end else 'no-end'}",
                              "the verdict of a trace prefix is not the documented one: " + what[1],
                              {"trace": t["info"], "prefix_len": k, "records": pre, "verdict": repr(v)})
    for (l, at) in launches:
        mine = [r for r in pre if r.get("run_space_launch_id") == l and int(r.get("run_space_attempt", 1) or 1) == at]
        if not mine:
            continue
        v = a.finalize_launch(l, at)
        s = any(r["record_type"] == "run_space_start" for r in mine)
        e = any(r["record_type"] == "run_space_end" for r in mine)
        lruns = sorted({r["run_id"] for r in mine if r["record_type"] == "pipeline_start"})
        counts = {"complete": 0, "partial": 0, "invalid": 0}
        for rid in lruns:
            counts[a.finalize_run(rid).status] += 1
        summ = v.summary or {}
        if summ.get("runs_by_status") != counts or summ.get("runs_total") != len(lruns):
            rep.add_violation("launch-rollup-counts", "launch roll-up is not the count of its runs' verdicts",
                              {"trace": t["info"], "prefix_len": k, "records": pre, "summary": summ, "expected_counts": counts})
        if s:
            want = "complete" if (e and not counts["partial"] and not counts["invalid"]) else "partial"
            wantp = [] if e else ["missing_run_space_end"]
            if v.status != want or list(v.problems) != wantp:
                rep.add_violation(f"launch-prefix-verdict:{'with-end' if e else 'no-end'}",
                                  f"launch verdict {v.status!r}/{v.problems!r}, documented {want!r}/{wantp!r}",
                                  {"trace": t["info"], "prefix_len": k, "records": pre})


def replay(path: str) -> int:
    case = json.loads(open(path).read())
    print(json.dumps({k: v for k, v in case.items() if k != "case"}, indent=1))
    c = case.get("case", {})
    rt.setup()
    for key in ("order_a", "order_b", "records", "merged", "concatenated"):
        if key in c and isinstance(c[key], list):
            a = Agg()
            a.ingest_many(c[key])
            print(key, a.finalize_all())
    return 0
