"""C04 — configuration identities are pure functions of configuration meaning.

translate  : two behavioural facts the identity model is parametric in (is the `context_keys` list of
             a sweep sorted? does the pipeline semantic id include node semantic ids?) -> Generated/C04.lean
prove      : Properties/C04.lean (canonical text invariant under member re-ordering at any depth;
             node-UUID / node-semantic / config pre-images invariant) + Tie/C04.lean (`sortedKeys = true`)
correspond : identities recomputed from the Lean model's pre-images (hashed with hashlib/uuid here) vs the
             real ones on the inspection path, the Pipeline-construction path and pipeline_start
oracle     : (real code only) cosmetic YAML rewrites and + / * operand shuffles leave the whole
             inspection payload unchanged; same ids in fresh processes under different PYTHONHASHSEED / cwd;
             after arbitrary other pipelines were built and run; on reuse of one Pipeline object;
             inspect ids == pipeline_start ids.
"""
from __future__ import annotations

import copy
import json
import os
import subprocess
import sys
import textwrap

import yaml

from vlib import core, rt
from props import pipegen, idgen, tracegen

PROP = "C04"

_CHILD = textwrap.dedent('''
    import json, sys, logging
    logging.disable(logging.CRITICAL)
    sys.path.insert(0, "/verif")
    from props import pipegen, idgen
    import yaml
    nodes = yaml.safe_load(open(sys.argv[1]))["pipeline"]["nodes"]
    ids = idgen.real_ids(nodes)
    ids["payload"] = json.dumps(ids.pop("payload"), sort_keys=True, default=str)      # the whole inspection payload, as text
    print("IDS " + json.dumps(ids, sort_keys=True))
''')


# required context keys that differ only in letter case: any ordering rule that ignores case falls back on set iteration order
CASE_COLLIDING = [
    [{"processor": "TSourceDef"}, {"processor": 'template:"{Batch}_{batch}":label'}, {"processor": "TOp1"}],
    [{"processor": "TSourceDef"}, {"processor": "delete:Key"}, {"processor": "delete:key"}, {"processor": "rename:KEY2:k3"}, {"processor": "rename:key2:k4"}],
]


def _p(*procs):
    return [{"processor": "TSourceDef"}] + [{"processor": p} for p in procs]


HISTORY_PAIRS = [
    (_p("delete:run_id"), _p("delete:run.id")),
    (_p("rename:meta_tag:label"), _p("rename:meta.tag:label")),
    (_p("rename:a_to_b:c"), _p("rename:a:b_to_c")),
    (_p('template:"x{a}":tag'), _p('template:"y{b}_{c}":tag')),
    (_p("TCollSource", "slice:TOp0:TColl"), _p("slice:TOp0:TColl2")),
]


def _sw(values):
    return [{"processor": "TSource", "derive": {"parameter_sweep": {"parameters": {"v": "x"}, "collection": "TColl",
                                                                     "variables": {"x": values}}}}]


# sweep domains that are equal under Python's == (and hash alike) but are different values: 1 / 1.0 / True, 0.0 / -0.0,
# and the same sequence in a 2-variable sweep.  X after Y must be X of a fresh process (nothing keyed by == may be shared).
HISTORY_PAIRS += [
    (_sw([1.0, 2.0, 3.0]), _sw([1, 2, 3])),
    (_sw([1, 2, 3]), _sw([1.0, 2.0, 3.0])),
    (_sw([True, 2, 3]), _sw([1, 2, 3])),
    (_sw([0, 1, 5]), _sw([False, True, 5])),
    (_sw([-0.0, 1.5]), _sw([0.0, 1.5])),
    (_sw([0, 1.5]), _sw([0.0, 1.5])),
    (_sw([1, 2, 3, 4, 5, 6, 7.0]), _sw([1, 2, 3, 4, 5, 6, 7])),
]


def start_ids(nodes, ctx0=None, pipeline=None):
    """ids attached to pipeline_start of a traced run (the run itself may fail later)."""
    pipegen.setup()
    from semantiva.trace.drivers.jsonl import JsonlTraceDriver
    from semantiva.pipeline import Pipeline, Payload
    from semantiva.context_processors import ContextType
    from semantiva.data_types import NoDataType
    with rt.tempdir() as d:
        drv = JsonlTraceDriver(str(d / "t.jsonl"))
        pipe = pipeline
        if pipe is None:
            pipe = Pipeline(copy.deepcopy(nodes), trace=drv)
        else:
            pipe.trace = drv
        try:
            pipe.process(Payload(NoDataType(), ContextType(copy.deepcopy(ctx0 or {}))))
        except BaseException:
            pass
        recs = rt.read_trace(d / "t.jsonl") if (d / "t.jsonl").exists() else []
    st = next((r for r in recs if r.get("record_type") == "pipeline_start"), None)
    if st is None:
        return None, pipe
    return {"pipeline_id": st["pipeline_id"], "semantic_id": st["meta"].get("semantic_id"), "config_id": st["meta"].get("config_id"),
            "node_semantic_ids": st["meta"].get("node_semantic_ids"),
            "uuids": [n["node_uuid"] for n in st["pipeline_spec_canonical"]["nodes"]]}, pipe


def run(tier: str) -> int:
    rep = core.Report(PROP, tier)
    rnd = core.rng(PROP)
    pipegen.setup()
    try:
        flags = idgen.translate()
    except Exception as exc:
        rep.add_broken(f"translator C04 failed: {exc!r}")
        flags = {"sortedKeys": True, "withNodeSem": True}
    rep.coverage["flags"] = flags
    core.prove(rep, PROP, thorough=(tier == "thorough"))
    n_cases = 120 if tier == "quick" else 1200
    n_sub = 3 if tier == "quick" else 12
    stats = {"configs": 0, "with_sweep": 0, "yaml_variants": 0, "expr_rewrites": 0, "model_compared": 0, "trace_compared": 0,
             "reuse_runs": 0, "history_checks": 0, "subprocess_runs": 0}
    drv = None
    try:
        drv = core.Driver()
    except Exception as exc:
        rep.add_broken(f"correspondence C04: model driver unavailable ({exc!r})")
    samples, mism = [], []
    configs = []
    for i in range(n_cases):
        nodes = idgen.gen_config(rnd)
        configs.append(nodes)
        stats["configs"] += 1
        has_sweep = any("derive" in n for n in nodes)
        stats["with_sweep"] += 1 if has_sweep else 0
        base = idgen.real_ids(nodes)
        pub = {"nodes": nodes}
        # -------- model pre-images -> ids, three paths ------------------------------------------------
        if drv is not None:
            try:
                mids = idgen.model_ids(nodes, flags, drv)
                stats["model_compared"] += 1
                for k in ("uuids", "semids", "semantic_id", "config_id", "pipeline_id"):
                    if mids[k] != base[k]:
                        mism.append({"field": k, "nodes": nodes, "model": mids[k], "real": base[k]})
                if base["pipeline_uuids"] != base["uuids"]:
                    rep.add_violation("uuid-differs-between-inspect-and-pipeline", "node UUIDs of the inspection payload and of Pipeline(...) differ",
                                      dict(pub, inspect=base["uuids"], pipeline=base["pipeline_uuids"]))
            except Exception as exc:
                rep.add_broken(f"correspondence C04: driver error {exc!r}")
                drv = None
        # -------- inspect == trace -----------------------------------------------------------------------
        ctx0 = {"seq_x": [1, 2], "seq_y": [3], "seq_t": [4, 5, 6], "a": "A"}
        st, pipe = start_ids(nodes, ctx0)
        if st is not None:
            stats["trace_compared"] += 1
            for k in ("semantic_id", "config_id", "uuids", "pipeline_id"):
                if st[k] != base[k]:
                    rep.add_violation(f"inspect-vs-trace:{k}", f"{k} printed by inspection differs from the one attached to pipeline_start",
                                      dict(pub, inspect=base[k], trace=st[k]))
            want_sem = {u: s for u, s in zip(base["uuids"], base["semids"])}
            if st["node_semantic_ids"] != want_sem:
                rep.add_violation("inspect-vs-trace:node_semantic_ids", "node semantic ids of inspection and of pipeline_start differ",
                                  dict(pub, inspect=want_sem, trace=st["node_semantic_ids"]))
            # -------- reuse of the same Pipeline object ---------------------------------------------------
            st2, _ = start_ids(nodes, ctx0, pipeline=pipe)
            stats["reuse_runs"] += 1
            if st2 is not None and st2 != st:
                diff = [k for k in st if st[k] != st2[k]]
                rep.add_violation(f"reuse-changes-ids:{'+'.join(diff)}:{'sweep' if has_sweep else 'plain'}",
                                  f"running the same Pipeline object again changes {diff}", dict(pub, first=st, second=st2))
        # -------- cosmetic rewrites ---------------------------------------------------------------------
        for txt in idgen.cosmetic_yaml_variants(nodes, rnd):
            stats["yaml_variants"] += 1
            nodes2 = yaml.safe_load(txt)["pipeline"]["nodes"]
            p2 = idgen.real_payload(nodes2)
            if p2 != base["payload"]:
                which = [k for k in ("identity", "pipeline_spec_canonical", "required_context_keys") if p2[k] != base["payload"][k]]
                idk = [k for k in ("semantic_id", "config_id") if p2["identity"].get(k) != base["payload"]["identity"].get(k)]
                rep.add_violation(f"cosmetic-rewrite-changes:{'+'.join(idk or which)}:{'sweep' if has_sweep else 'plain'}",
                                  f"a YAML rewrite that loads to the same configuration changes {idk or which}",
                                  dict(pub, rewritten_yaml=txt, before=base["payload"]["identity"], after=p2["identity"]))
        if has_sweep:
            for k in range(5):
                nodes3 = idgen.rewrite_expressions(nodes, rnd, inner_only=(k % 2 == 1))
                stats["expr_rewrites"] += 1
                p3 = idgen.real_payload(nodes3)
                if p3 != base["payload"]:
                    rep.add_violation("operand-reordering-changes-identity:" + ("inner" if k % 2 else "any"),
                                      "re-ordering + / * operands of a sweep expression changes the inspection payload",
                                      dict(pub, rewritten=nodes3, before=base["payload"]["identity"], after=p3["identity"]))
        # -------- history ------------------------------------------------------------------------------------
        if i % 5 == 0:
            for other in rnd.sample(configs, k=min(3, len(configs))):
                start_ids(other, ctx0)
                idgen.real_payload(other)
            again = idgen.real_ids(nodes)
            stats["history_checks"] += 1
            if {k: again[k] for k in ("semantic_id", "config_id", "uuids", "semids", "pipeline_id")} != \
               {k: base[k] for k in ("semantic_id", "config_id", "uuids", "semids", "pipeline_id")}:
                rep.add_violation("history-changes-ids", "identities change after other pipelines were built and run in the same process",
                                  dict(pub, before={k: base[k] for k in ("semantic_id", "config_id")}, after={k: again[k] for k in ("semantic_id", "config_id")}))
        if len(samples) < 4 and i % 31 == 0:
            samples.append({"nodes": nodes, "semantic_id": base["semantic_id"], "config_id": base["config_id"]})
    if mism:
        rep.add_broken(f"correspondence C04: ids recomputed from the model's pre-images differ from the real ones on {len(mism)} fields, first "
                       + json.dumps(mism[0], default=str)[:600])
        rep.coverage["first_disagreements"] = mism[:3]
    # -------- fresh processes, hash seeds, working directories ------------------------------------------
    with rt.tempdir() as d:
        (d / "child.py").write_text(_CHILD)
        sub_cases = [(configs[(k * 7) % len(configs)] if k % 3 else CASE_COLLIDING[(k // 3) % len(CASE_COLLIDING)], None) for k in range(n_sub)]
        # shorthand pairs whose generated class names coincide (separators are sanitised away, a template's text and a slicer's
        # collection are not part of the name): X inspected here after Y must give what X gives in a fresh process
        sub_cases += [(x, y) for (y, x) in HISTORY_PAIRS]
        for k, (nodes, earlier) in enumerate(sub_cases):
            if earlier is not None:
                idgen.real_payload(earlier)
                start_ids(earlier, {})
                stats["history_pairs"] = stats.get("history_pairs", 0) + 1
            base = idgen.real_ids(nodes)
            base["payload"] = json.dumps(base.pop("payload"), sort_keys=True, default=str)
            (d / f"cfg{k}.yaml").write_text(yaml.safe_dump({"pipeline": {"nodes": nodes}}, sort_keys=False))
            for seed, cwd in ((("0", str(core.REPO)), ("1", str(d)), ("random", "/"), ("4", "/"), ("11", "/")) if earlier is None else (("0", "/"),)):
                env = dict(os.environ, PYTHONHASHSEED=seed)
                try:
                    p = subprocess.run([sys.executable, str(d / "child.py"), str(d / f"cfg{k}.yaml")], capture_output=True, text=True,
                                       env=env, cwd=cwd, timeout=600)
                except subprocess.TimeoutExpired:
                    rep.notes.append("a fresh-process run did not finish within 600 s (loaded machine): skipped")
                    continue
                stats["subprocess_runs"] += 1
                line = next((l for l in p.stdout.splitlines() if l.startswith("IDS ")), None)
                if line is None:
                    rep.notes.append(f"subprocess failed: {p.stderr[-300:]}")
                    continue
                got = json.loads(line[4:])
                if got != json.loads(json.dumps(base, sort_keys=True)):
                    diff = [x for x in got if got[x] != base.get(x)]
                    rep.add_violation(f"process-dependent-ids:{'+'.join(diff)}", f"identities differ in a fresh process (PYTHONHASHSEED={seed}, cwd={cwd}): {diff}",
                                      {"nodes": nodes, "here": base, "there": got})
    rep.coverage.update({
        "evaluations": stats["configs"] + stats["yaml_variants"] + stats["expr_rewrites"] + stats["subprocess_runs"],
        "distinct_nontrivial": stats["configs"],
        "rule": "random configurations of 1..6 nodes with nested parameter values, textually identical nodes and parameter sweeps; each with up to 5 "
                "meaning-preserving YAML rewrites (key order at every depth, flow/block style, quoting, indentation, comments), an operand "
                "shuffle of its sweep expressions, a traced run, a second run of the same Pipeline object; every 5th after other pipelines ran; "
                "a sample re-computed in fresh processes under 3 hash seeds / working directories",
        "samples": samples,
        "traces_validated_against_impl": stats["model_compared"],
        "generator_distribution": stats,
        "search": "same generator and rewrites",
    })
    rep.assumptions += [
        "SHA-256 / UUIDv5 and Python's json.dumps are outside the model: the model produces pre-image strings that the harness hashes",
        "a 'cosmetic rewrite' is a YAML text whose yaml.safe_load result is deep-equal with equal types",
        "the string naming the processor of a swept node in the canonical node is read off the code (generated class name)",
    ]
    return rep.finish()


def replay(path: str) -> int:
    case = json.loads(open(path).read())
    print(json.dumps(case, indent=1, default=str)[:4000])
    return 0
