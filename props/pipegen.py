"""Shared by C01/C02/C06/C07/C10/C17: the table describing the harness' term components to the
Lean model, the type-directed pipeline generator, value encoding and real-run helpers."""
from __future__ import annotations

import json
import re
from typing import Any

from vlib import rt

# ---------------------------------------------------------------------------------------------
# what the model is told about each component of props/components.py
# ---------------------------------------------------------------------------------------------

def _op(tag, params=(), **kw):
    d = dict(kind=["operation"], params=list(params), inT="TData", outT="TData", declared=[], beh=["term", tag])
    d.update(kw)
    return d


LIB: dict[str, dict] = {
    "TSource": dict(kind=["dataSource"], params=[("v", None)], inT="NoDataType", outT="TData", declared=[], beh=["term", "src"]),
    "TSourceDef": dict(kind=["dataSource"], params=[("v", "d0")], inT="NoDataType", outT="TData", declared=[], beh=["term", "srcd"]),
    "TCollSource": dict(kind=["dataSource"], params=[("v", None)], inT="NoDataType", outT="TColl", declared=[], beh=["collOf", "el", 3]),
    "TPayloadSource": dict(kind=["payloadSource", "pk", "pctx"], params=[("v", None)], inT="NoDataType", outT="TData", declared=["pk"], beh=["term", "psrc"]),
    "TOp0": _op("op0"),
    "TOp1": _op("op1", [("a", None)]),
    "TOp1Def": _op("op1d", [("a", "d1")]),
    "TOp2": _op("op2", [("a", None), ("b", "d2")]),
    # keyword-only parameters are parameters like any other
    "TOpKw": _op("opkw", [("a", None), ("g", "dg")]),
    "TOpKwReq": _op("opkwr", [("a", "da"), ("g", None)]),
    # classes derived from concrete operations, with other defaults than their parents
    "TOp1DefSub": _op("op1s", [("a", "dsub")]),
    "TOp2Sub": _op("op2s", [("a", None), ("b", None)]),
    "TOp1Sub": _op("op1sub", [("a", "asub")]),
    "TOpW": _op("opw", [("a", None)], declared=["w"], beh=["termWrite", "opw", "w", "w"]),
    "TOpW2": _op("opk", [], declared=["k"], beh=["termWrite", "opk", "k", "wk"]),
    "TOpUndeclared": _op("opu", [], beh=["termWrite", "opu", "zz", "zz"]),
    "TOpToOther": _op("oth", [], outT="TOther"),
    "TMerge": _op("merge", [], inT="TColl", beh=["merge", "merge"]),
    "TFail": _op("fail", [], beh=["fail", "VerifProcError"]),
    "TWriteThenFail": _op("wtf", [], declared=["w"], beh=["fail", "VerifProcError"]),     # the run fails at this node; its write is visible only in the trace
    # static description only (C09/C17): the data-dependent failure of TFailIf is not part of the execution model
    "TFailIf": _op("failif", [("bad", "fine")]),
    "TFailKI": _op("failki", [], beh=["fail", "KeyboardInterrupt"]),
    "TProbe": dict(kind=["probe"], params=[], inT="TData", outT="TData", declared=[], beh=["term", "probe"]),
    "TProbeP": dict(kind=["probe"], params=[("a", None)], inT="TData", outT="TData", declared=[], beh=["term", "probep"]),
    "TProbeEcho": dict(kind=["probe"], params=[("val", None)], inT="TData", outT="TData", declared=[], beh=["echo"]),
    "TFailProbe": dict(kind=["probe"], params=[], inT="TData", outT="TData", declared=[], beh=["fail", "VerifProcError"]),
    "TSink": dict(kind=["dataSink"], params=[("path", None)], inT="TData", outT="TData", declared=[], beh=["term", "sink"]),
    "TSinkKw": dict(kind=["dataSink"], params=[("path", None), ("tag", None)], inT="TData", outT="TData", declared=[], beh=["term", "sinkkw"]),
    "TPayloadSink": dict(kind=["payloadSink"], params=[("path", None)], inT="TData", outT="TData", declared=[], beh=["term", "psink"]),
}
SLICEABLE_OPS = ["TOp0", "TOp1", "TOp1Def", "TOp2", "TOpW", "TOpW2", "TFail"]
SLICEABLE_PROBES = ["TProbe", "TProbeP"]
KEYS = ["a", "b", "v", "c", "k", "w", "pk", "e"]
LEAVES = ["s1", "s2", 7, 0, None, ["x", 1], True, 2.5, ""]

_RE_TEMPLATE_FIELD = re.compile(r"\{([A-Za-z_][A-Za-z0-9_]*)\}")


def enc(v) -> Any:
    """Python JSON value -> model Val (arrays stay arrays, scalars become their JSON text)."""
    if isinstance(v, (list, tuple)):
        return [enc(x) for x in v]
    try:
        return json.dumps(v, default=repr)      # non-JSON scalars (bytes, sets, complex ...) are shown by their repr
    except (TypeError, ValueError):
        return json.dumps(repr(v))              # e.g. a mapping with tuple keys: no JSON form at all


def model_node(spec: dict) -> dict:
    """YAML-style node spec of the harness library -> Node description for the Lean model."""
    proc = spec["processor"]
    cfg = spec.get("parameters") or {}
    ck = spec.get("context_key")
    base = dict(params=[], inT="BaseDataType", outT="BaseDataType", elemT="", declared=[], beh=["term", "?"],
                config=[[k, enc(v)] for k, v in cfg.items()], contextKey=ck, sliced=False)
    if proc.startswith("rename:"):
        _, s, d = proc.split(":", 2)
        return dict(base, kind=["rename", s, d], params=[[s, None]])
    if proc.startswith("delete:"):
        return dict(base, kind=["delete", proc.split(":", 1)[1]], params=[[proc.split(":", 1)[1], None]])
    if proc.startswith("template:"):
        m = re.match(r'^template:"(.*)":([A-Za-z_][A-Za-z0-9_.]*)$', proc)
        tpl, out = m.group(1), m.group(2)
        parts, pos, names = [], 0, []
        for fm in _RE_TEMPLATE_FIELD.finditer(tpl):
            if fm.start() > pos:
                parts.append(["lit", tpl[pos:fm.start()]])
            parts.append(["key", fm.group(1)])
            if fm.group(1) not in names:
                names.append(fm.group(1))
            pos = fm.end()
        if pos < len(tpl):
            parts.append(["lit", tpl[pos:]])
        return dict(base, kind=["template", parts, out], params=[[n, None] for n in names])
    sliced = False
    if proc.startswith("slice:"):
        _, proc, coll = proc.split(":")
        sliced = True
    lib = LIB[proc]
    node = dict(base, kind=lib["kind"], params=[[n, (None if d is None else enc(d))] for n, d in lib["params"]],
                inT=lib["inT"], outT=lib["outT"], declared=list(lib["declared"]), beh=lib["beh"], sliced=sliced)
    if sliced:
        node["elemT"] = lib["inT"]
        node["inT"] = "TColl"
        node["outT"] = "TColl" if lib["kind"] == ["operation"] else lib["outT"]
    return node


# ---------------------------------------------------------------------------------------------
# generator
# ---------------------------------------------------------------------------------------------

def gen_pipeline(rnd, max_len=6, p_misfit=0.15, sinks_path: str | None = None, allow_ki=False):
    """Returns (node specs, initial context dict, meta)."""
    n = rnd.randrange(1, max_len + 1)
    dtype = "NoDataType"
    live = {}                      # ctx key -> producer
    ctx0 = {}
    for k in KEYS:
        if rnd.random() < 0.3:
            ctx0[k] = rnd.choice(LEAVES)
            live[k] = "initial"
    nodes = []
    meta = {"placements": [], "misfits": 0, "kinds": []}

    def place_params(proc, spec, skip=()):
        cfg = {}
        for (name, dflt) in LIB[proc]["params"]:
            if name in skip:
                continue
            choices = ["config"] * 4
            if name in live:
                choices += ["context"] * 4
            if dflt is not None:
                choices += ["default"] * 2
            if name not in live and dflt is None:
                choices += ["missing"]
            ch = rnd.choice(choices)
            if ch == "config":
                cfg[name] = (sinks_path if name == "path" and sinks_path else rnd.choice(["c1", "c2", 3, ["y"], None, 0, False, "", 0.0, []]))      # falsy values are values too
                if name == "path" and not sinks_path:
                    cfg[name] = "/dev/null"
            elif name == "path" and ch in ("missing",):
                pass
            meta["placements"].append(ch if not (ch == "config" and name in live) else "config-over-context")
        if cfg:
            spec["parameters"] = cfg
        if rnd.random() < 0.04:
            spec.setdefault("parameters", {})["bogus"] = 1        # unknown parameter
            meta["misfits"] += 1

    for i in range(n):
        fit = rnd.random() >= p_misfit
        if not fit:
            meta["misfits"] += 1
        cands = []
        eff = dtype
        if (eff == "NoDataType") == fit or not fit:
            cands += ["TSource", "TSourceDef", "TCollSource", "TPayloadSource"] if (eff == "NoDataType") == fit else []
        if (eff == "TData") == fit:
            cands += ["TOp0", "TOp1", "TOp1Def", "TOp2", "TOpW", "TOpW2", "TProbe", "TProbeP", "TProbeEcho", "TSink", "TSinkKw", "TPayloadSink", "TOpToOther",
                      "TOp1DefSub", "TOp2Sub", "TOp1Sub", "TOpKw", "TOpKwReq"]
            if fit and rnd.random() < 0.25:
                cands += ["TOpUndeclared", "TFail", "TFailProbe"]
        if (eff == "TColl") == fit:
            cands += ["TMerge"] + ["slice:" + p for p in SLICEABLE_OPS + SLICEABLE_PROBES]
        ctxprocs = ["rename", "delete", "template"]
        if rnd.random() < 0.35 or not cands:
            kind = rnd.choice(ctxprocs)
            keys_live = list(live) or ["a"]
            if kind == "rename":
                s = rnd.choice(keys_live) if rnd.random() < 0.85 else rnd.choice(KEYS)
                d = rnd.choice(KEYS)
                spec = {"processor": f"rename:{s}:{d}"}
                if rnd.random() < 0.06:
                    spec["parameters"] = {s: rnd.choice(["cfgv", 5])}
                if s in live and ctx0.get(s, 1) is not None:
                    live.pop(s, None)
                    live[d] = i
            elif kind == "delete":
                s = rnd.choice(keys_live) if rnd.random() < 0.85 else rnd.choice(KEYS)
                spec = {"processor": f"delete:{s}"}
                if s in live:
                    live.pop(s, None)
            else:
                ks = rnd.sample(keys_live, k=min(len(keys_live), rnd.choice([1, 1, 2])))
                if rnd.random() < 0.12:
                    ks = ks + [rnd.choice(KEYS)]
                out = rnd.choice(KEYS)
                tpl = "t" + "_".join("{" + k + "}" for k in ks) + "x"
                spec = {"processor": f'template:"{tpl}":{out}'}
                live[out] = i
            nodes.append(spec)
            meta["kinds"].append(kind)
            continue
        proc = rnd.choice(cands)
        spec = {"processor": proc if not proc.startswith("slice:") else f"{proc}:TColl"}
        base = proc.split(":")[-1] if proc.startswith("slice:") else proc
        lib = LIB[base]
        place_params(base, spec)
        if lib["kind"] == ["probe"]:
            if rnd.random() < 0.95:
                spec["context_key"] = rnd.choice(KEYS)
                live[spec["context_key"]] = i
            else:
                meta["misfits"] += 1
        elif lib["kind"] == ["operation"] and rnd.random() < 0.02:
            spec["context_key"] = "zz"
            meta["misfits"] += 1
        for k in lib["declared"]:
            live[k] = i
        if lib["kind"][0] in ("dataSource", "payloadSource", "operation"):
            if proc.startswith("slice:"):
                dtype = "TColl"
            else:
                dtype = lib["outT"]
        nodes.append(spec)
        meta["kinds"].append(proc)
    return nodes, ctx0, meta


# ---------------------------------------------------------------------------------------------
# real runs
# ---------------------------------------------------------------------------------------------

_READY = False


def setup():
    global _READY
    rt.setup()
    if not _READY:
        from semantiva.registry.processor_registry import ProcessorRegistry
        ProcessorRegistry.register_modules(["props.components"])
        _READY = True


def classify(exc: BaseException) -> tuple[str, str]:
    """(coarse class, fine class) of an exception raised by Pipeline construction/processing."""
    from props.components import VerifProcError
    name = type(exc).__name__
    msg = str(exc)
    if isinstance(exc, VerifProcError):
        return "proc", "proc"
    if isinstance(exc, KeyboardInterrupt):
        return "proc", "proc:KeyboardInterrupt"
    if name == "InvalidNodeParameterError":
        return "config", "unknownParam"
    if name in ("PipelineConfigurationError", "ValueError", "UnknownProcessorError", "AssertionError"):
        return "config", "config"
    if name == "TypeError":
        return "flow", "typeGate" if "Incompatible data type" in msg else "typeError"
    if name == "KeyError":
        if "Unable to resolve parameter" in msg:
            return "flow", "unresolved"
        if "Invalid context key" in msg:
            return "flow", "undeclaredWrite"
        if "already exists in the context" in msg:
            return "flow", "keyClash"
        return "flow", "missingKey"
    return "other", name


def data_view(d) -> list:
    """Real data object -> the model's Data JSON."""
    from props.components import TColl
    tname = type(d).__name__
    if tname == "NoDataType":
        return ["nodata"]
    if isinstance(d, TColl):
        return ["coll", tname, [enc(x.data) for x in d]]
    return ["item", tname, enc(d.data)]


def ctx_view(c) -> list:
    return sorted([[k, enc(v)] for k, v in c.to_dict().items()])


def run_real(nodes, ctx0, trace=None, data=None, run_metadata=None, transport=None):
    """Pipeline(nodes).process(Payload(NoDataType, ctx0)) with a node-start counter.

    Returns dict(outcome='ok'|'constructError'|'runError', started=<nodes started>, data, ctx, exc, cls)."""
    setup()
    from semantiva.pipeline import Pipeline, Payload
    from semantiva.context_processors import ContextType
    from semantiva.data_types import NoDataType
    from semantiva.execution.orchestrator.orchestrator import LocalSemantivaOrchestrator

    class Counting(LocalSemantivaOrchestrator):
        def __init__(self):
            super().__init__()
            self.started = 0

        def _submit_and_wait(self, node_callable, *, ser_hooks):
            self.started += 1
            return super()._submit_and_wait(node_callable, ser_hooks=ser_hooks)

    orch = Counting()
    res = {"outcome": None, "started": 0, "data": None, "ctx": None, "exc": None, "cls": None, "pipeline": None}
    try:
        import copy
        kw = {} if transport is None else {"transport": transport}
        pipe = Pipeline(copy.deepcopy(nodes), orchestrator=orch, trace=trace, **kw) if trace is not None else \
            Pipeline(copy.deepcopy(nodes), orchestrator=orch, **kw)
        res["pipeline"] = pipe
        if run_metadata is not None:
            pipe.set_run_metadata(run_metadata)
        out = pipe.process(Payload(NoDataType() if data is None else data, ContextType(copy.deepcopy(ctx0))))
        res.update(outcome="ok", data=data_view(out.data), ctx=ctx_view(out.context))
    except BaseException as exc:  # noqa: BLE001
        res["exc"] = exc
        res["cls"] = classify(exc)
        res["outcome"] = "runError" if orch.started > 0 else "constructError"
    res["started"] = orch.started
    return res


def model_outcome_view(o: dict) -> dict:
    """Driver answer -> comparable view (coarse error class, failing node)."""
    if "ok" in o:
        return {"outcome": "ok", "data": o["ok"]["data"], "ctx": sorted(o["ok"]["ctx"])}
    kind = "constructError" if "constructError" in o else "runError"
    i, e = o[kind]
    fine = e[0]
    coarse = "flow" if fine in ("unresolved", "typeGate", "undeclaredWrite", "keyClash", "missingKey") else \
        "proc" if fine == "proc" else "config"
    return {"outcome": kind, "node": i, "coarse": coarse, "fine": fine, "detail": e[1:]}
