import SemantivaModel.Properties.C15
import SemantivaModel.Generated.C15
/-! C15 instantiated with the probed failure path of the worker. -/
namespace SemantivaModel.Tie.C15
open SemantivaModel.JobQueue SemantivaModel.Generated.C15

theorem reports_failure : reportsFailure = true := by decide

theorem C15_done_once (run : Nat → Res) (es : List Ev) (s : St) (h : runEvents reportsFailure run {} es = some s) :
    (s.done.map (·.1)).Nodup := done_once reportsFailure run es s h

theorem C15_no_cross_talk (run : Nat → Res) (es : List Ev) (s : St) (h : runEvents reportsFailure run {} es = some s)
    (m : Nat × Res) (hm : m ∈ s.done) (j : Job) (hj : j ∈ s.jobs) (hid : j.id = m.1) : m.2 = run j.payload :=
  no_cross_talk reportsFailure run es s h m hm j hj hid

theorem C15_no_caller_waits_forever (run : Nat → Res) (es : List Ev) (s : St)
    (h : runEvents reportsFailure run {} es = some s) (hq : quiescent s = true) :
    s.pending = [] ∧ ∀ j ∈ s.jobs, (j.id, run j.payload) ∈ s.done := by
  rw [reports_failure] at h; exact quiescent_all_done run es s h hq

end SemantivaModel.Tie.C15
