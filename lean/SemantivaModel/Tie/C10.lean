import SemantivaModel.Properties.C10
import SemantivaModel.Generated.C06
import SemantivaModel.Generated.C10
/-! C10 instantiated with the shape of `execute` and the reuse probe of this run. -/
namespace SemantivaModel.Tie.C10
open SemantivaModel.Trace SemantivaModel.Generated.C06

theorem shape_good : shape.good = true := by decide
theorem spec_not_mutated : SemantivaModel.Generated.C10.copiesSpec = true := by decide

theorem C10_observational (p : Plan) : ((runTraced shape p).raised, (runTraced shape p).ran) = runPlain p :=
  trace_observational shape shape_good p

theorem C10_reuse (idOf : CachedSpec → String) (hasMeta : List Bool) (spec : CachedSpec) (n : Nat) :
    recordedId idOf (afterRuns SemantivaModel.Generated.C10.copiesSpec hasMeta spec n) = recordedId idOf spec := by
  rw [spec_not_mutated]; exact reuse_reproducible idOf hasMeta spec n

end SemantivaModel.Tie.C10
