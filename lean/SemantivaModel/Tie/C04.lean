import SemantivaModel.Properties.C04
import SemantivaModel.Generated.C04
/-! C04 instantiated with the facts read off the real code on this run. -/
namespace SemantivaModel.Tie.C04
open SemantivaModel.Json SemantivaModel.Identity SemantivaModel.Generated.C04

/-- the code sorts the `context_keys` of a sweep's dependencies, so the mapping order of `variables` is not seen -/
theorem context_keys_sorted : sortedKeys = true := by decide

theorem C04_nodeSem_reorder (s s' : SweepCfg)
    (h1 : s.exprSigs.Perm s'.exprSigs) (h2 : s.varDomains.Perm s'.varDomains) (h3 : s.contextKeys.Perm s'.contextKeys)
    (hrest : s.elementRef = s'.elementRef ∧ s.mode = s'.mode ∧ s.broadcast = s'.broadcast ∧ s.collection = s'.collection
      ∧ s.requiredExternal = s'.requiredExternal)
    (hwf : wf (sweepMeta sortedKeys s) = true) : nodeSemPre sortedKeys s = nodeSemPre sortedKeys s' := by
  rw [context_keys_sorted] at hwf ⊢
  exact nodeSemPre_reorder s s' h1 h2 h3 hrest hwf

end SemantivaModel.Tie.C04
