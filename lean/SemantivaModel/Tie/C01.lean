import SemantivaModel.Properties.C01
import SemantivaModel.Generated.C01
/-! C01 instantiated with the precedence table read off the real `resolve_runtime_value` on this run. -/
namespace SemantivaModel.Tie.C01
open SemantivaModel.Exec SemantivaModel.Generated.C01

/-- node configuration > context > processor default > error, as the code resolves parameters now -/
theorem precedence_ok : precedenceOK resolveTable = true := by decide

theorem C01_precedence (n : Node) (c : Ctx) (p : PSig) :
    (∀ v, n.config.lookup p.name = some v → resolve resolveTable n c p = .ok v)
    ∧ (n.config.lookup p.name = none → ∀ v, c.get p.name = some v → resolve resolveTable n c p = .ok v)
    ∧ (n.config.lookup p.name = none → c.get p.name = none → ∀ v, p.dflt = some v → resolve resolveTable n c p = .ok v)
    ∧ (n.config.lookup p.name = none → c.get p.name = none → p.dflt = none →
        resolve resolveTable n c p = .error (.unresolved p.name)) :=
  resolve_precedence resolveTable precedence_ok n c p

theorem C01_fails_exactly_there (ns : List Node) (s : Data × Ctx) (j : Nat) (e : Err)
    (h : exec resolveTable ns s = .error (j, e)) :
    ∃ (k : Nat) (hk : k < ns.length) (s' : Data × Ctx),
      j = 0 + k ∧ execFrom resolveTable (ns.take k) 0 s = .ok s' ∧ step resolveTable ns[k] s' = .error e :=
  exec_fails_exactly_there resolveTable ns 0 s j e h

end SemantivaModel.Tie.C01
