import SemantivaModel.Properties.C02
import SemantivaModel.Tie.C01
/-! C02 instantiated with the precedence table read off the real `resolve_runtime_value` on this run. -/
namespace SemantivaModel.Tie.C02
open SemantivaModel.Exec SemantivaModel.Inspect SemantivaModel.Generated.C01

theorem C02_analysis_sound (ns : List Node) (hwf : ∀ n ∈ ns, nodeWF n = true) (d₀ : Data) (c₀ : Ctx)
    (req : List String) (hA : analyse ns d₀.ty = .ok req) (hreq : ∀ k ∈ req, c₀.has k = true) :
    match runPipeline resolveTable ns (d₀, c₀) with
    | .ok _ _ => True
    | .constructError _ _ => False
    | .runError _ e => isFlowC02 e = false :=
  analysis_sound resolveTable SemantivaModel.Tie.C01.precedence_ok ns hwf d₀ c₀ req hA hreq

end SemantivaModel.Tie.C02
