import SemantivaModel.Properties.C02
import SemantivaModel.Tie.C01
/-! C02 instantiated with the precedence table read off the real `resolve_runtime_value` on this run. -/
namespace SemantivaModel.Tie.C02
open SemantivaModel.Exec SemantivaModel.Inspect SemantivaModel.Generated.C01

theorem C02_analysis_sound (ns : List Node) (hwf : ∀ n ∈ ns, nodeWF n = true) (d₀ : Data) (c₀ : Ctx)
    (req : List String) (hA : analyse ns d₀.ty = .ok req) (hreq : ∀ k ∈ req, c₀.has k = true) :
    match runPipeline resolveTable ns (d₀, c₀) with
    | .ok _ _ => True
    | .constructError _ _ => False
    | .runError _ e => isFlowC02 e = false :=
  analysis_sound resolveTable SemantivaModel.Tie.C01.precedence_ok ns hwf d₀ c₀ req hA hreq

/-- Reported origin "node j" is true of the resolution order read off the code on this run. -/
theorem C02_origin_node_true (pre : List Node) (n : Node) (d₀ : Data) (c₀ : Ctx) (s : Data × Ctx) (hs : List Ctx)
    (hwf : ∀ m ∈ pre, nodeWF m = true ∧ construct m = none)
    (hrun : execHist resolveTable pre (d₀, c₀) = .ok (s, hs)) (p : PSig) (j : Nat)
    (ho : originOf n (foldO pre 0 OState.init).om p = .node j) :
    j < pre.length ∧
    ∃ dj cj v, execFrom resolveTable (pre.take (j + 1)) 0 (d₀, c₀) = .ok (dj, cj) ∧ cj.get p.name = some v ∧
      resolve resolveTable n s.2 p = .ok v :=
  origin_node_true resolveTable SemantivaModel.Tie.C01.precedence_ok pre n d₀ c₀ s hs hwf hrun p j ho

/-- Reported origin "initial context" is true of accepted pipelines, for the resolution order read off the code. -/
theorem C02_origin_initial_true (pre : List Node) (n : Node) (post : List Node) (d₀ : Data) (c₀ : Ctx) (s : Data × Ctx)
    (hs : List Ctx) (req : List String) (hacc : analyse (pre ++ n :: post) d₀.ty = .ok req)
    (hwf : ∀ m ∈ pre, nodeWF m = true ∧ construct m = none)
    (hrun : execHist resolveTable pre (d₀, c₀) = .ok (s, hs)) (p : PSig) (hp : p ∈ n.params)
    (ho : originOf n (foldO pre 0 OState.init).om p = .initial) :
    resolve resolveTable n s.2 p = (match c₀.get p.name with | some v => .ok v | none => .error (.unresolved p.name)) :=
  origin_initial_true_of_accepted resolveTable SemantivaModel.Tie.C01.precedence_ok pre n post d₀ c₀ s hs req hacc hwf hrun p hp ho

/-- Reported origin "default" (after the second pass) is true when the caller supplies exactly the required keys. -/
theorem C02_origin2_default_true (pre : List Node) (n : Node) (d₀ : Data) (c₀ : Ctx) (s : Data × Ctx) (hs : List Ctx)
    (req : List String) (hexact : ∀ k, c₀.has k = req.contains k)
    (hwf : ∀ m ∈ pre, nodeWF m = true ∧ construct m = none)
    (hrun : execHist resolveTable pre (d₀, c₀) = .ok (s, hs)) (p : PSig)
    (ho : originOf2 n (foldO pre 0 OState.init) req p = .default) :
    ∃ dv, p.dflt = some dv ∧ resolve resolveTable n s.2 p = .ok dv :=
  origin2_default_true resolveTable SemantivaModel.Tie.C01.precedence_ok pre n d₀ c₀ s hs req hexact hwf hrun p ho

/-- Reported origin "initial context" (first pass or reclassified by the second) is true. -/
theorem C02_origin2_initial_true (pre : List Node) (n : Node) (d₀ : Data) (c₀ : Ctx) (s : Data × Ctx) (hs : List Ctx)
    (req : List String) (hwf : ∀ m ∈ pre, nodeWF m = true ∧ construct m = none)
    (hrun : execHist resolveTable pre (d₀, c₀) = .ok (s, hs)) (p : PSig)
    (ho : originOf2 n (foldO pre 0 OState.init) req p = .initial)
    (hg : (foldO pre 0 OState.init).gone.contains p.name = false) (hc : c₀.has p.name = true) :
    ∃ v, c₀.get p.name = some v ∧ resolve resolveTable n s.2 p = .ok v :=
  origin2_initial_true resolveTable SemantivaModel.Tie.C01.precedence_ok pre n d₀ c₀ s hs req hwf hrun p ho hg hc

/-- The capstone, for the resolution order read off the code on this run. -/
theorem C02_origin_report_true (pre : List Node) (n : Node) (post : List Node) (d₀ : Data) (c₀ : Ctx) (s : Data × Ctx)
    (hs : List Ctx) (req : List String) (hacc : analyse (pre ++ n :: post) d₀.ty = .ok req)
    (hexact : ∀ k, c₀.has k = req.contains k)
    (hwf : ∀ m ∈ pre, nodeWF m = true ∧ construct m = none)
    (hrun : execHist resolveTable pre (d₀, c₀) = .ok (s, hs)) (p : PSig) (hp : p ∈ n.params) :
    match originOf2 n (foldO pre 0 OState.init) req p with
    | .config => ∃ v, n.config.lookup p.name = some v ∧ resolve resolveTable n s.2 p = .ok v
    | .node j => j < pre.length ∧ ∃ dj cj v, execFrom resolveTable (pre.take (j + 1)) 0 (d₀, c₀) = .ok (dj, cj) ∧
        cj.get p.name = some v ∧ resolve resolveTable n s.2 p = .ok v
    | .initial => ∃ v, c₀.get p.name = some v ∧ resolve resolveTable n s.2 p = .ok v
    | .default => ∃ dv, p.dflt = some dv ∧ resolve resolveTable n s.2 p = .ok dv :=
  origin_report_true resolveTable SemantivaModel.Tie.C01.precedence_ok pre n post d₀ c₀ s hs req hacc hexact hwf hrun p hp

end SemantivaModel.Tie.C02
