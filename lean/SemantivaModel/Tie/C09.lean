import SemantivaModel.Properties.C09
import SemantivaModel.Generated.C09
/-! C09 instantiated with the launch-loop shape and the inspection probe of this run. -/
namespace SemantivaModel.Tie.C09
open SemantivaModel.Launch SemantivaModel.Json SemantivaModel.Generated.C09

theorem shape_good : shape.good = true := by decide
theorem inspect_parsed : inspectUsesParsed = true := by decide

theorem C09_launch (outcomes : List Bool) : runLaunch shape outcomes = expected outcomes :=
  launch_wellformed shape shape_good outcomes

theorem C09_bracketed (os : List Bool) :
    ∃ mid, runLaunch shape os = Ev.rsStart os.length :: mid ++ [Ev.rsEnd os.length (completedOf os) (os.any (!·))]
      ∧ ∀ e ∈ mid, ∃ i ok, e = Ev.run i ok :=
  bracketed shape shape_good os

theorem C09_inspect_eq_trace (raw : J) (parsed : RSCfg) : inspectPre inspectUsesParsed raw parsed = specPre parsed := by
  rw [inspect_parsed]; rfl

end SemantivaModel.Tie.C09
