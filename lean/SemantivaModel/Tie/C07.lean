import SemantivaModel.Properties.C07
import SemantivaModel.Generated.C01
import SemantivaModel.Generated.C07
/-! C07 instantiated with the source table and the clock conventions read off the real code on this run. -/
namespace SemantivaModel.Tie.C07
open SemantivaModel.Exec SemantivaModel.Ser SemantivaModel.Generated.C01 SemantivaModel.Generated.C07

/-- the node's own resolution follows the documented precedence -/
theorem resolve_ok : precedenceOK resolveTable = true := by decide
/-- the SER machinery records sources by the same precedence -/
theorem ser_table_ok : precedenceOK serTable = true := by decide
/-- both timestamp generators read UTC -/
theorem clocks_utc : driverUTC = true ∧ orchUTC = true := by decide

theorem C07_provenance (n : Node) (c : Ctx) (p : PSig) (v : Val) (ch : Channel) :
    recordParam serTable n c p = some ⟨p.name, v, ch⟩ ↔ (resolve resolveTable n c p = .ok v ∧ channelOf resolveTable n c p = ch) :=
  recorded_iff_resolved resolveTable serTable resolve_ok ser_table_ok n c p v ch

theorem C07_unrecorded (n : Node) (c : Ctx) (p : PSig) :
    recordParam serTable n c p = none ↔ resolve resolveTable n c p = .error (.unresolved p.name) :=
  unrecorded_iff_unresolved resolveTable serTable resolve_ok ser_table_ok n c p

theorem C07_stamps (r : Reading) : denoted driverUTC orchUTC r = r.t := by
  rw [clocks_utc.1, clocks_utc.2]; exact stamps_true r

theorem C07_stamps_monotone (rs : List Reading) (h : (rs.map (·.t)).Pairwise (· ≤ ·)) :
    (rs.map (denoted driverUTC orchUTC)).Pairwise (· ≤ ·) := by
  rw [clocks_utc.1, clocks_utc.2]; exact stamps_monotone rs h

theorem C07_stream_chain (ns : List Node) (s : Data × Ctx) : Chained (serStream resolveTable serTable ns s) :=
  stream_chain resolveTable serTable ns s

end SemantivaModel.Tie.C07
