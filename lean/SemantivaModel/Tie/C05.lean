import SemantivaModel.Properties.C05
import SemantivaModel.Generated.C04
/-! C05 instantiated with the facts read off the real code on this run. -/
namespace SemantivaModel.Tie.C05
open SemantivaModel.Json SemantivaModel.Identity SemantivaModel.Generated.C04

/-- the pipeline-level semantic id rolls up the node semantic ids of preprocessed (swept) nodes -/
theorem semantic_id_rolls_up_sweeps : withNodeSem = true := by decide

theorem C05_semantic_payload_injective (ns ns' : List NodeId)
    (h : norm (semanticPayload withNodeSem ns) = norm (semanticPayload withNodeSem ns')) :
    ns.map (fun n => norm (J.obj ([("name", jnull), ("node_uuid", str n.uuid), ("payload_from", jnull)]
             ++ (if withNodeSem && n.semid != "none" then [("node_semantic_id", str n.semid)] else []))))
    = ns'.map (fun n => norm (J.obj ([("name", jnull), ("node_uuid", str n.uuid), ("payload_from", jnull)]
             ++ (if withNodeSem && n.semid != "none" then [("node_semantic_id", str n.semid)] else [])))) :=
  semanticPayload_injective withNodeSem ns ns' h

end SemantivaModel.Tie.C05
