import SemantivaModel.Properties.C06
import SemantivaModel.Generated.C06
/-! C06 instantiated with the lifecycle shape read off `SemantivaOrchestrator.execute` on this run. -/
namespace SemantivaModel.Tie.C06
open SemantivaModel.Trace SemantivaModel.Generated.C06

theorem shape_good : shape.good = true := by decide

theorem C06_trace_wellformed (p : Plan) : runTraced shape p = expected p := trace_wellformed shape shape_good p
theorem C06_bracketed (p : Plan) :
    (runTraced shape p).events.head? = some .start
    ∧ ∃ ok, (runTraced shape p).events.getLast? = some (.end_ ok) ∧ (ok = true ↔ (runTraced shape p).raised = none) :=
  bracketed shape shape_good p
theorem C06_always_closed (p : Plan) : (runTraced shape p).closed = true := always_closed shape shape_good p

theorem publish_outside : publishOutside = true := by decide

theorem C06_publish_fault (k : Nat) (c : ExcClass) : runPublishFault shape publishOutside k c = expectedPublishFault k c := by
  rw [publish_outside]; exact publish_fault_wellformed shape shape_good k c

/-- The extracted shape is accepted for the right reason: it is well-formed on *every* plan iff it passes `good10`. -/
theorem C06_tight : (∀ p, runTraced shape p = expected p) ↔ shape.good10 = true := trace_wellformed_iff shape

end SemantivaModel.Tie.C06
