import SemantivaModel.Properties.C14
import SemantivaModel.Generated.C14
/-! C14 instantiated with the shape read off `in_memory.py` on this run. -/
namespace SemantivaModel.Tie.C14
open SemantivaModel.Transport SemantivaModel.Generated.C14

/-- Queue creation is atomic, append / test-and-pop happen under the queue lock, the subscriber scans a
    snapshot, filters by pattern and yields every message it pops. -/
theorem shape_good : shape.good = true := by decide

theorem C14_exactly_once (mt : String → String → Bool) (programs : List (List String)) (patterns : List String)
    (sched : List Tid) :
    let s := run shape mt (init programs patterns) sched
    (s.stores.flatten ++ taken s).Perm s.appended ∧ (s.stores.flatten ++ taken s).Nodup :=
  exactly_once shape shape_good mt programs patterns sched

theorem C14_never_stranded (mt : String → String → Bool) (programs : List (List String)) (patterns : List String)
    (sched : List Tid) :
    let s := run shape mt (init programs patterns) sched
    ∀ (q : Nat) (hq : q < s.stores.length) (m : Msg), m ∈ s.stores[q] → lookupChan s m.chan = some q :=
  no_stranded_message shape shape_good mt programs patterns sched

theorem C14_only_matching (mt : String → String → Bool) (programs : List (List String)) (patterns : List String)
    (sched : List Tid) :
    let s := run shape mt (init programs patterns) sched
    ∀ (j : Nat) (u : Sub), s.subs[j]? = some u → ∀ m, m ∈ u.delivered ++ inHand u → mt u.pattern m.chan = true :=
  only_matching_delivered shape shape_good mt programs patterns sched

theorem C14_fifo (mt : String → String → Bool) (programs : List (List String)) (patterns : List String)
    (sched : List Tid) :
    let s := run shape mt (init programs patterns) sched
    ∀ (j : Nat) (u : Sub), s.subs[j]? = some u →
      (u.delivered).Pairwise (fun a b => a.pub = b.pub → a.chan = b.chan → a.seq < b.seq) :=
  per_publisher_channel_fifo shape shape_good mt programs patterns sched

end SemantivaModel.Tie.C14
