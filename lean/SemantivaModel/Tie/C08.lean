import SemantivaModel.Properties.C08
/-!
C08 has no generated side condition: the model is hand-written and tied to `/repo` by the
correspondence run (`props/c08.py`).  This file re-exports the property theorems so that every
check builds one `Tie` target.
-/
namespace SemantivaModel.Tie.C08
open SemantivaModel.RunSpace

theorem C08_cap (s : Spec) (plans : List (Mode × BlockPlan)) (n : Nat)
    (hp : planBlocks s.blocks [] = .ok plans) (ht : total s.combine (plans.map (·.2.size)) = .ok n) :
    (n > s.maxRuns → expand s = .error (.maxRuns n))
    ∧ (n ≤ s.maxRuns → ∃ runs, expand s = .ok runs ∧ runs.length = n) :=
  expand_of_plan s plans n hp ht

end SemantivaModel.Tie.C08
