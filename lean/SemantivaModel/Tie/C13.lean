import SemantivaModel.Properties.C13
import SemantivaModel.Generated.C13
/-! C13 instantiated with the decision tables read off the real aggregator on this run. -/
namespace SemantivaModel.Tie.C13
open SemantivaModel.Aggregator SemantivaModel.Generated.C13

theorem runTable_ok : runTableOK runTable = true := by decide
theorem launchTable_ok : launchTableOK launchTable = true := by decide
theorem terminal_ok : terminalOK terminal candidateStatuses = true := by decide

theorem C13_run_order_independent (r : String) {rs rs' : List Rec}
    (hc : ∀ a ∈ rs, ∀ b ∈ rs, Compat r a b) (p : rs.Perm rs') :
    runVerdict runTable terminal r rs = runVerdict runTable terminal r rs' :=
  run_verdict_perm_invariant runTable terminal r hc p

theorem C13_launch_order_independent (k : String × Nat) {rs rs' : List Rec}
    (hc : ∀ r, ∀ a ∈ rs, ∀ b ∈ rs, Compat r a b) (p : rs.Perm rs') :
    launchVerdict runTable launchTable terminal k rs = launchVerdict runTable launchTable terminal k rs' :=
  launch_verdict_perm_invariant runTable launchTable terminal k hc p

theorem C13_prefix_started (r : String) (canon : List String) (hne : canon ≠ []) (fk t₀ st ts fin) (j : Nat) :
    let v := runVerdict runTable terminal r (started r canon fk t₀ st ts fin j)
    v.known = true ∧ v.status = .part
    ∧ "missing_pipeline_end" ∈ v.problems ∧ "missing_pipeline_start" ∉ v.problems
    ∧ (∀ n, n ∈ v.missing ↔ n ∈ canon ∧ n ∉ canon.take j) ∧ v.orphan = [] :=
  prefix_started_verdict runTable runTable_ok terminal r canon hne fk t₀ st ts fin j

theorem C13_full_trace (r : String) (canon : List String) (hne : canon ≠ []) (fk t₀ t₁ st ts fin) (m : Nat) :
    let v := runVerdict runTable terminal r (fullTrace r canon fk t₀ t₁ st ts fin m)
    v.known = true ∧ v.status = .complete
    ∧ "missing_pipeline_end" ∉ v.problems ∧ "missing_pipeline_start" ∉ v.problems
    ∧ (∀ n, n ∈ v.missing ↔ n ∈ canon ∧ n ∉ canon.take m) ∧ v.orphan = [] :=
  full_trace_verdict runTable runTable_ok terminal r canon hne fk t₀ t₁ st ts fin m

end SemantivaModel.Tie.C13
