import SemantivaModel.Properties.C11
import SemantivaModel.Generated.C11
/-!
Side conditions of C11 re-checked against what `/repo` says on this run, and the property
theorems instantiated with the extracted policy.
-/
namespace SemantivaModel.Tie.C11
open SemantivaModel.SafeEval SemantivaModel.Generated.C11

/-- The policy extracted from the real `_SafeVisitor` visits (or forbids) every child position of
    every kind it lets through, lets through only documented kinds/functions and checks names. -/
theorem policy_total : policy.total grammar = true := by decide +kernel

/-- C11 for the code as it is now: every expression tree (of any depth) the visitor accepts is confined. -/
theorem C11_accepts_confines (names : List String) (t : Tree)
    (hwf : wellFormed grammar t = true) (hacc : accepts policy names t = true) :
    confined names t = true :=
  accepts_confines policy_total names t hwf hacc

theorem C11_reads_only_declared (names : List String) (t : Tree)
    (hwf : wellFormed grammar t = true) (hacc : accepts policy names t = true) :
    ∀ x ∈ varsOf t, names.contains x = true :=
  accepted_reads_only_declared policy_total names t hwf hacc

end SemantivaModel.Tie.C11
