import SemantivaModel.Properties.C03
/-! C03: hand-written model tied by the correspondence run (`props/c03.py`); re-exports. -/
namespace SemantivaModel.Tie.C03
open SemantivaModel.Sweep

theorem C03_merge_precedence (base over : List (String × SemantivaModel.Exec.Val)) (k : String) :
    (mergeParams base over).lookup k = match over.lookup k with
      | some v => some v
      | none => base.lookup k := merge_precedence base over k

end SemantivaModel.Tie.C03
