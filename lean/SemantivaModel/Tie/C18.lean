import SemantivaModel.Properties.C18
import SemantivaModel.Generated.C18
/-! C18 instantiated with what was probed on this run: does a second execution of the same configuration register
    classes again (`cachesGenerated`), does the transport keep a job's channels (`reclaimsChannels`).  The theorems are
    conditional on the flags; the check reports the flag that is `false` together with the failing history on the real
    code (on the unchanged tree both are recorded findings). -/
namespace SemantivaModel.Tie.C18
open SemantivaModel.Residue SemantivaModel.Generated.C18

theorem C18_registry (h : cachesGenerated = true) (g reg : List String) (N : Nat) (hN : 1 ≤ N) :
    runs cachesGenerated g reg N = runs cachesGenerated g reg 1 := by
  rw [h]; exact cached_bounded g reg N hN

theorem C18_registry_growth (h : cachesGenerated = false) (g reg : List String) (N : Nat) :
    (runs cachesGenerated g reg N).length = reg.length + N * g.length := by
  rw [h]; exact uncached_linear g reg N

theorem C18_channels (h : reclaimsChannels = true) (perJob j j' : Nat) :
    channelsAfter reclaimsChannels perJob j = channelsAfter reclaimsChannels perJob j' := by
  rw [h]; rfl

end SemantivaModel.Tie.C18
