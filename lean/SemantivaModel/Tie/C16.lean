import SemantivaModel.Properties.C16
/-! C16 has no generated side condition: the factory model is written by hand and tied to /repo by the
    correspondence run (descriptor of every generated class vs `descOf` / `nodeOf`). -/
namespace SemantivaModel.Tie.C16
open SemantivaModel.Factory

theorem C16_generated_ok (t : Term) (ck : Option String) (d' : Desc) (n : NodeDesc)
    (hbase : baseOK (match t with | .comp d => d | .slice d _ => d | .sweep d _ _ => d) = true)
    (hcoll : match t with | .slice _ c => c ≠ "" | .sweep _ (some c) _ => c ≠ "" | _ => True)
    (hd : descOf t = some d') (hn : nodeOf d' ck = some n) :
    procOK d' = true ∧ nodeOK d' n = true ∧ keysMirror d' ck n = true :=
  generated_ok t ck d' n hbase hcoll hd hn

end SemantivaModel.Tie.C16
