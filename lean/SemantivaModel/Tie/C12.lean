import SemantivaModel.Properties.C12
import SemantivaModel.Generated.C12
/-! C12 instantiated with the operator list extracted from `/repo` on this run. -/
namespace SemantivaModel.Tie.C12
open SemantivaModel.ExprSig SemantivaModel.Generated.C12

/-- The real normaliser re-orders / re-associates operands of `+` and `*` only. -/
theorem commOps_ok : commOpsOK commOps = true := by decide

theorem C12_norm_sound (ρ : Env) (e : Expr) : eval ρ (norm commOps dump e) = eval ρ e :=
  norm_sound commOps_ok dump ρ e

theorem C12_sig_eq_implies_val_eq (hinj : ∀ a b : Expr, dump a = dump b → a = b)
    (e₁ e₂ : Expr) (h : sig commOps e₁ = sig commOps e₂) (ρ : Env) : eval ρ e₁ = eval ρ e₂ :=
  sig_eq_implies_val_eq commOps_ok hinj e₁ e₂ h ρ

theorem C12_commuted_forms_agree (hinj : ∀ a b : Expr, dump a = dump b → a = b)
    {e₁ e₂ : Expr} (h : ACEquiv commOps e₁ e₂) : sig commOps e₁ = sig commOps e₂ :=
  sig_acEquiv hinj h

/-- `+` and `*` are indeed handled (the AC theorem is not vacuous for the real list). -/
theorem commOps_has_add_mul : commOps.contains .add = true ∧ commOps.contains .mul = true := by decide

/-- and `-`, `//`, `%`, `**` are not, so `swap_noncomm_changes` applies to them. -/
theorem noncomm_not_flattened :
    commOps.contains .sub = false ∧ commOps.contains .floordiv = false ∧ commOps.contains .mod = false
      ∧ commOps.contains .pow = false := by decide

end SemantivaModel.Tie.C12
