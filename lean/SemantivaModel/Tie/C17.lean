import SemantivaModel.Properties.C17
import SemantivaModel.Generated.C17
/-! C17 instantiated with the gate table probed from the real CLI on this run. -/
namespace SemantivaModel.Tie.C17
open SemantivaModel.Gate SemantivaModel.Generated.C17

theorem gate_ok : gateOK gateTable = true := by decide

theorem C17_no_execution (b : Blocker) (f : Flag) (os : List Bool) (h : b ≠ .none_ ∨ f ≠ .none_) :
    (cliRun gateTable b f os).2 = 0 :=
  no_execution_when_rejected gateTable gate_ok b f os h

theorem C17_exit_zero (os : List Bool) :
    (cliRun gateTable .none_ .none_ os).1 = exitSuccess ↔ SemantivaModel.Launch.completedOf os = os.length :=
  (exit_zero_iff_all_completed gateTable gate_ok os).1

end SemantivaModel.Tie.C17
