import SemantivaModel.Model.Aggregator
/-! Helper lemmas for C13: min/max merges are AC, `ssort` depends on membership only, and folding
    commuting steps over a permuted list gives an equivalent state. -/
namespace SemantivaModel.Aggregator

/-! ### min / max on optional timestamps -/

theorem minOpt_comm (a b : Option Nat) : minOpt a b = minOpt b a := by
  cases a <;> cases b <;> simp only [minOpt] <;> (try rfl) <;> (congr 1; split <;> split <;> omega)
theorem minOpt_assoc (a b c : Option Nat) : minOpt (minOpt a b) c = minOpt a (minOpt b c) := by
  cases a <;> cases b <;> cases c <;> simp [minOpt] <;> (repeat' split) <;> omega
theorem maxOpt_comm (a b : Option Nat) : maxOpt a b = maxOpt b a := by
  cases a <;> cases b <;> simp only [maxOpt] <;> (try rfl) <;> (congr 1; split <;> split <;> omega)
theorem maxOpt_assoc (a b c : Option Nat) : maxOpt (maxOpt a b) c = maxOpt a (maxOpt b c) := by
  cases a <;> cases b <;> cases c <;> simp [maxOpt] <;> (repeat' split) <;> omega
theorem minOpt_idem (a : Option Nat) : minOpt a a = a := by cases a <;> simp [minOpt]
theorem maxOpt_idem (a : Option Nat) : maxOpt a a = a := by cases a <;> simp [maxOpt]

instance : Std.Commutative minOpt := ⟨minOpt_comm⟩
instance : Std.Associative minOpt := ⟨minOpt_assoc⟩
instance : Std.Commutative maxOpt := ⟨maxOpt_comm⟩
instance : Std.Associative maxOpt := ⟨maxOpt_assoc⟩

/-! ### `ssort` -/

theorem mem_sinsert {x y : String} {l : List String} : y ∈ sinsert x l ↔ y = x ∨ y ∈ l := by
  induction l with
  | nil => simp [sinsert]
  | cons z zs ih =>
    unfold sinsert
    split
    · simp
    · split
      · rename_i h; subst h; simp
      · simp only [List.mem_cons, ih]
        constructor
        · rintro (h | h | h) <;> simp [h]
        · rintro (h | h | h) <;> simp [h]

theorem mem_ssort {y : String} {l : List String} : y ∈ ssort l ↔ y ∈ l := by
  induction l with
  | nil => simp [ssort]
  | cons x xs ih =>
    show y ∈ sinsert x (ssort xs) ↔ _
    rw [mem_sinsert, ih]; simp

theorem sinsert_sorted {x : String} {l : List String} (h : l.Pairwise (· < ·)) : (sinsert x l).Pairwise (· < ·) := by
  induction l with
  | nil => simp [sinsert]
  | cons z zs ih =>
    have hz := List.pairwise_cons.mp h
    unfold sinsert
    split
    · rename_i hxz
      refine List.pairwise_cons.mpr ⟨?_, h⟩
      intro w hw
      rcases List.mem_cons.mp hw with rfl | hw
      · exact hxz
      · exact String.lt_trans hxz (hz.1 w hw)
    · split
      · exact h
      · rename_i hxz hne
        have hzx : z < x := by
          have h1 : z ≤ x := String.not_lt.mp hxz
          rcases Decidable.em (z < x) with h2 | h2
          · exact h2
          · exact absurd (String.le_antisymm (String.not_lt.mp h2) h1) hne
        refine List.pairwise_cons.mpr ⟨?_, ih hz.2⟩
        intro w hw
        rcases mem_sinsert.mp hw with rfl | hw
        · exact hzx
        · exact hz.1 w hw

theorem ssort_sorted (l : List String) : (ssort l).Pairwise (· < ·) := by
  induction l with
  | nil => exact List.Pairwise.nil
  | cons x xs ih => exact sinsert_sorted ih

theorem sorted_ext {l₁ l₂ : List String} (h₁ : l₁.Pairwise (· < ·)) (h₂ : l₂.Pairwise (· < ·))
    (h : ∀ x, x ∈ l₁ ↔ x ∈ l₂) : l₁ = l₂ := by
  have n₁ : l₁.Nodup := h₁.imp (fun {a b} (hab : a < b) (e : a = b) => String.lt_irrefl b (e ▸ hab))
  have n₂ : l₂.Nodup := h₂.imp (fun {a b} (hab : a < b) (e : a = b) => String.lt_irrefl b (e ▸ hab))
  have p : l₁.Perm l₂ := (List.perm_ext_iff_of_nodup n₁ n₂).mpr h
  exact List.Perm.eq_of_pairwise (fun a b _ _ hab hba => absurd hba (String.lt_asymm hab)) h₁ h₂ p

/-- `ssort` depends on the *set* of its input only. -/
theorem ssort_congr {l₁ l₂ : List String} (h : ∀ x, x ∈ l₁ ↔ x ∈ l₂) : ssort l₁ = ssort l₂ :=
  sorted_ext (ssort_sorted l₁) (ssort_sorted l₂) (fun x => by rw [mem_ssort, mem_ssort]; exact h x)

theorem ssort_perm {l₁ l₂ : List String} (p : l₁.Perm l₂) : ssort l₁ = ssort l₂ :=
  ssort_congr (fun _ => p.mem_iff)

/-! ### Run states up to the arrival order of node ids -/

structure REquiv (s t : RunState) : Prop where
  sawStart : s.sawStart = t.sawStart
  sawEnd : s.sawEnd = t.sawEnd
  canon : s.canon = t.canon
  startTs : s.startTs = t.startTs
  endTs : s.endTs = t.endTs
  serMin : s.serMin = t.serMin
  serMax : s.serMax = t.serMax
  node : s.node = t.node
  seen : s.seen.Perm t.seen

theorem REquiv.refl (s : RunState) : REquiv s s := ⟨rfl, rfl, rfl, rfl, rfl, rfl, rfl, rfl, .refl _⟩
theorem REquiv.trans {a b c : RunState} (h₁ : REquiv a b) (h₂ : REquiv b c) : REquiv a c :=
  ⟨h₁.1.trans h₂.1, h₁.2.trans h₂.2, h₁.3.trans h₂.3, h₁.4.trans h₂.4, h₁.5.trans h₂.5,
   h₁.6.trans h₂.6, h₁.7.trans h₂.7, h₁.8.trans h₂.8, h₁.9.trans h₂.9⟩

theorem stepRun_congr (r : String) {s t : RunState} (h : REquiv s t) (a : Rec) :
    REquiv (stepRun r s a) (stepRun r t a) := by
  obtain ⟨h1, h2, h3, h4, h5, h6, h7, h8, h9⟩ := h
  cases a <;> simp only [stepRun] <;> (try split) <;>
    first
    | exact ⟨h1, h2, h3, h4, h5, h6, h7, h8, h9⟩
    | exact ⟨rfl, h2, rfl, by simp [h4], h5, h6, h7, h8, h9⟩
    | exact ⟨h1, rfl, h3, h4, by simp [h5], h6, h7, h8, h9⟩
    | exact ⟨h1, h2, h3, h4, h5, by simp [h6], by simp [h7], by simp [h8], h9.cons _⟩

/-- Two records may be ingested in either order when, for run `r`, two `pipeline_start`s agree on
    the canonical node list and two SERs of one node agree on the status (the runtime emits one
    `pipeline_start` per run and one SER per node). -/
def Compat (r : String) : Rec → Rec → Prop
  | .pStart r₁ c₁ _ _, .pStart r₂ c₂ _ _ => r₁ = r → r₂ = r → c₁ = c₂
  | .ser r₁ n₁ s₁ _ _, .ser r₂ n₂ s₂ _ _ => r₁ = r → r₂ = r → n₁ = n₂ → s₁ = s₂
  | _, _ => True

theorem stepRun_comm (r : String) (s : RunState) (a b : Rec) (h : Compat r a b) :
    REquiv (stepRun r (stepRun r s a) b) (stepRun r (stepRun r s b) a) := by
  cases a with
  | pStart r₁ c₁ k₁ t₁ =>
    cases b with
    | pStart r₂ c₂ k₂ t₂ =>
      simp only [stepRun]
      by_cases h1 : r₁ = r <;> by_cases h2 : r₂ = r <;> simp only [h1, h2, if_true, if_false]
      · refine ⟨rfl, rfl, (h h1 h2).symm, ?_, rfl, rfl, rfl, rfl, .refl _⟩
        simp only; ac_rfl
      all_goals exact REquiv.refl _
    | _ => simp only [stepRun] <;> (repeat' split) <;> exact REquiv.refl _
  | pEnd r₁ t₁ =>
    cases b with
    | pEnd r₂ t₂ =>
      simp only [stepRun]
      by_cases h1 : r₁ = r <;> by_cases h2 : r₂ = r <;> simp only [h1, h2, if_true, if_false]
      · refine ⟨rfl, rfl, rfl, rfl, ?_, rfl, rfl, rfl, .refl _⟩
        simp only; ac_rfl
      all_goals exact REquiv.refl _
    | _ => simp only [stepRun] <;> (repeat' split) <;> exact REquiv.refl _
  | ser r₁ n₁ s₁ t₁ f₁ =>
    cases b with
    | ser r₂ n₂ s₂ t₂ f₂ =>
      simp only [stepRun]
      by_cases h1 : r₁ = r <;> by_cases h2 : r₂ = r <;> simp only [h1, h2, if_true, if_false]
      · refine ⟨rfl, rfl, rfl, rfl, rfl, ?_, ?_, ?_, List.Perm.swap _ _ _⟩
        · simp only; ac_rfl
        · simp only; ac_rfl
        · funext m
          simp only
          by_cases e1 : m = n₂ <;> by_cases e2 : m = n₁ <;> simp only [e1, e2, if_true, if_false]
          · have := h h1 h2 (e2.symm.trans e1)
            simp [this]
          all_goals simp_all
      all_goals exact REquiv.refl _
    | _ => simp only [stepRun] <;> (repeat' split) <;> exact REquiv.refl _
  | _ => cases b <;> simp only [stepRun] <;> (repeat' split) <;> exact REquiv.refl _

theorem foldl_stepRun_congr (r : String) (l : List Rec) {s t : RunState} (h : REquiv s t) :
    REquiv (l.foldl (stepRun r) s) (l.foldl (stepRun r) t) := by
  induction l generalizing s t with
  | nil => exact h
  | cons a l ih => exact ih (stepRun_congr r h a)

theorem foldl_stepRun_perm (r : String) {l l' : List Rec} (p : l.Perm l')
    (hc : ∀ a ∈ l, ∀ b ∈ l, Compat r a b) (s : RunState) :
    REquiv (l.foldl (stepRun r) s) (l'.foldl (stepRun r) s) := by
  induction p generalizing s with
  | nil => exact REquiv.refl _
  | cons x _ ih =>
    exact ih (fun a ha b hb => hc a (List.mem_cons_of_mem _ ha) b (List.mem_cons_of_mem _ hb)) _
  | swap x y l =>
    simp only [List.foldl_cons]
    exact foldl_stepRun_congr r l (stepRun_comm r s y x (hc y (by simp) x (by simp)))
  | trans p₁ _ ih₁ ih₂ =>
    exact (ih₁ hc s).trans (ih₂ (fun a ha b hb => hc a (p₁.mem_iff.mpr ha) b (p₁.mem_iff.mpr hb)) s)

theorem finalTs_congr {s t : RunState} (h : REquiv s t) : finalTs s = finalTs t := by
  unfold finalTs; rw [h.startTs, h.endTs, h.serMin, h.serMax]

theorem runVerdictOf_congr (tbl : RunTable) (terminal : List String) {s t : RunState} (h : REquiv s t) :
    runVerdictOf tbl terminal s = runVerdictOf tbl terminal t := by
  have hs : ssort s.seen = ssort t.seen := ssort_perm h.seen
  have he : s.seen.isEmpty = t.seen.isEmpty := by
    have := h.seen.length_eq
    cases hs' : s.seen <;> cases ht' : t.seen <;> simp_all
  unfold runVerdictOf runKnown startGtEnd
  rw [h.sawStart, h.sawEnd, h.canon, h.node, hs, he, finalTs_congr h]

/-! ### Characterisation of the folded state -/

def isStart (r : String) : Rec → Bool | .pStart r' _ _ _ => r' == r | _ => false
def isEnd (r : String) : Rec → Bool | .pEnd r' _ => r' == r | _ => false
def serNode (r : String) : Rec → Option String | .ser r' n _ _ _ => if r' = r then some n else none | _ => none

theorem foldl_sawStart (r : String) (l : List Rec) (s : RunState) :
    (l.foldl (stepRun r) s).sawStart = (s.sawStart || l.any (isStart r)) := by
  induction l generalizing s with
  | nil => simp
  | cons a l ih =>
    rw [List.foldl_cons, ih]
    cases a with
    | pStart r' c k t =>
      simp only [stepRun, isStart, List.any_cons]
      by_cases h : r' = r
      · simp [h]
      · have : (r' == r) = false := by simpa using h
        simp [h, this]
    | pEnd r' t => simp only [stepRun, isStart, List.any_cons]; split <;> simp
    | ser r' n st t f => simp only [stepRun, isStart, List.any_cons]; split <;> simp
    | _ => simp [stepRun, isStart]

theorem foldl_sawEnd (r : String) (l : List Rec) (s : RunState) :
    (l.foldl (stepRun r) s).sawEnd = (s.sawEnd || l.any (isEnd r)) := by
  induction l generalizing s with
  | nil => simp
  | cons a l ih =>
    rw [List.foldl_cons, ih]
    cases a with
    | pEnd r' t =>
      simp only [stepRun, isEnd, List.any_cons]
      by_cases h : r' = r
      · simp [h]
      · have : (r' == r) = false := by simpa using h
        simp [h, this]
    | pStart r' c k t => simp only [stepRun, isEnd, List.any_cons]; split <;> simp
    | ser r' n st t f => simp only [stepRun, isEnd, List.any_cons]; split <;> simp
    | _ => simp [stepRun, isEnd]

theorem foldl_seen_mem (r : String) (l : List Rec) (s : RunState) (n : String) :
    n ∈ (l.foldl (stepRun r) s).seen ↔ n ∈ s.seen ∨ n ∈ l.filterMap (serNode r) := by
  induction l generalizing s with
  | nil => simp
  | cons a l ih =>
    rw [List.foldl_cons, ih]
    cases a with
    | ser r' m st t f =>
      simp only [stepRun, serNode, List.filterMap_cons]
      by_cases h : r' = r
      · simp only [h, if_true, List.mem_cons]
        constructor
        · rintro ((h | h) | h) <;> simp [h]
        · rintro (h | h | h) <;> simp [h]
      · simp [h]
    | pStart r' c k t => simp only [stepRun, serNode, List.filterMap_cons]; split <;> simp
    | pEnd r' t => simp only [stepRun, serNode, List.filterMap_cons]; split <;> simp
    | _ => simp [stepRun, serNode]

/-- The canonical list is the one carried by a `pipeline_start` of the run (here: when every
    `pipeline_start` of run `r` in the list carries `c`). -/
theorem foldl_canon (r : String) (c : List String) (l : List Rec) (s : RunState)
    (hall : ∀ c' fk ts, Rec.pStart r c' fk ts ∈ l → c' = c) :
    (l.foldl (stepRun r) s).canon = if l.any (isStart r) then c else s.canon := by
  induction l generalizing s with
  | nil => simp
  | cons a l ih =>
    rw [List.foldl_cons, ih _ (fun c' fk ts h => hall c' fk ts (List.mem_cons_of_mem _ h))]
    cases a with
    | pStart r' c' fk ts =>
      simp only [stepRun, isStart, List.any_cons]
      by_cases hr : r' = r
      · subst hr
        have := hall c' fk ts (by simp)
        simp [this]
      · simp [hr]
    | pEnd r' t => simp only [stepRun, isStart, List.any_cons, Bool.false_or]; by_cases h : r' = r <;> simp [h]
    | ser r' n st t f => simp only [stepRun, isStart, List.any_cons, Bool.false_or]; by_cases h : r' = r <;> simp [h]
    | _ => simp [stepRun, isStart]

end SemantivaModel.Aggregator
