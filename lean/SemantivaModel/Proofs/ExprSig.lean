import SemantivaModel.Model.ExprSig
/-! Helper lemmas for C12 (soundness and canonicity of the AC normal form). -/
namespace SemantivaModel.ExprSig

def isAC (op : BinOp) : Prop := op = .add ∨ op = .mul

def unit : BinOp → Int
  | .mul => 1
  | _ => 0

theorem isAC_of_ok {comm : List BinOp} (h : commOpsOK comm = true) {op : BinOp}
    (hc : comm.contains op = true) : isAC op := by
  simp only [commOpsOK, List.all_eq_true] at h
  have := h op (by simpa using hc)
  simp only [Bool.or_eq_true, beq_iff_eq] at this
  exact this

theorem evalBin_comm {op : BinOp} (h : isAC op) (a b : Option Int) : evalBin op a b = evalBin op b a := by
  rcases h with h | h <;> subst h <;> cases a <;> cases b <;> simp [evalBin, lift2, Int.add_comm, Int.mul_comm]

theorem evalBin_assoc {op : BinOp} (h : isAC op) (a b c : Option Int) :
    evalBin op (evalBin op a b) c = evalBin op a (evalBin op b c) := by
  rcases h with h | h <;> subst h <;> cases a <;> cases b <;> cases c <;>
    simp [evalBin, lift2, Int.add_assoc, Int.mul_assoc]

theorem evalBin_unit {op : BinOp} (h : isAC op) (a : Option Int) : evalBin op a (some (unit op)) = a := by
  rcases h with h | h <;> subst h <;> cases a <;> simp [evalBin, lift2, unit]

theorem evalBin_left_comm {op : BinOp} (h : isAC op) (a b c : Option Int) :
    evalBin op a (evalBin op b c) = evalBin op b (evalBin op a c) := by
  rw [← evalBin_assoc h, evalBin_comm h a b, evalBin_assoc h]

/-- Value of a bag of terms under an AC operator. -/
def agg (op : BinOp) (vs : List (Option Int)) : Option Int :=
  vs.foldr (fun v acc => evalBin op v acc) (some (unit op))

theorem agg_perm {op : BinOp} (h : isAC op) {l₁ l₂ : List (Option Int)} (p : l₁.Perm l₂) :
    agg op l₁ = agg op l₂ := by
  induction p with
  | nil => rfl
  | cons x _ ih => simp only [agg, List.foldr_cons] at ih ⊢; rw [ih]
  | swap x y l => simp only [agg, List.foldr_cons]; exact evalBin_left_comm h _ _ _
  | trans _ _ ih₁ ih₂ => exact ih₁.trans ih₂

theorem agg_append {op : BinOp} (h : isAC op) (l₁ l₂ : List (Option Int)) :
    agg op (l₁ ++ l₂) = evalBin op (agg op l₁) (agg op l₂) := by
  induction l₁ with
  | nil =>
    simp only [List.nil_append]
    show agg op l₂ = evalBin op (some (unit op)) (agg op l₂)
    rw [evalBin_comm h, evalBin_unit h]
  | cons x xs ih =>
    show evalBin op x (agg op (xs ++ l₂)) = evalBin op (evalBin op x (agg op xs)) (agg op l₂)
    rw [ih, evalBin_assoc h]

theorem eval_foldl_bin (ρ : Env) {op : BinOp} (h : isAC op) (xs : List Expr) (acc : Expr) :
    eval ρ (xs.foldl (fun a t => .bin op a t) acc) = evalBin op (eval ρ acc) (agg op (xs.map (eval ρ))) := by
  induction xs generalizing acc with
  | nil => simp [agg, evalBin_unit h]
  | cons t ts ih =>
    simp only [List.foldl_cons, List.map_cons]
    rw [ih]
    show evalBin op (evalBin op (eval ρ acc) (eval ρ t)) _ = evalBin op (eval ρ acc) (evalBin op (eval ρ t) _)
    rw [evalBin_assoc h]
    rfl

theorem eval_rebuild (ρ : Env) {op : BinOp} (h : isAC op) (xs : List Expr) (hne : xs ≠ []) :
    eval ρ (rebuild op xs) = agg op (xs.map (eval ρ)) := by
  cases xs with
  | nil => exact absurd rfl hne
  | cons x xs => simp only [rebuild]; rw [eval_foldl_bin ρ h]; rfl

theorem insertBy_perm (key : Expr → String) (x : Expr) (ys : List Expr) : (insertBy key x ys).Perm (x :: ys) := by
  induction ys with
  | nil => exact .refl _
  | cons y ys ih =>
    unfold insertBy
    split
    · exact .refl _
    · exact (ih.cons y).trans (.swap x y ys)

theorem sortBy_perm (key : Expr → String) (xs : List Expr) : (sortBy key xs).Perm xs := by
  induction xs with
  | nil => exact .refl _
  | cons x xs ih => exact (insertBy_perm key x _).trans (ih.cons x)

theorem insertBy_sorted (key : Expr → String) (x : Expr) (ys : List Expr)
    (h : ys.Pairwise (fun a b => key a ≤ key b)) : (insertBy key x ys).Pairwise (fun a b => key a ≤ key b) := by
  induction ys with
  | nil => simp [insertBy]
  | cons y ys ih =>
    unfold insertBy
    have hy := List.pairwise_cons.mp h
    split
    · rename_i hxy
      refine List.pairwise_cons.mpr ⟨?_, h⟩
      intro z hz
      rcases List.mem_cons.mp hz with rfl | hz
      · exact hxy
      · exact String.le_trans hxy (hy.1 z hz)
    · rename_i hxy
      have hyx : key y ≤ key x := (String.le_total _ _).resolve_left hxy
      refine List.pairwise_cons.mpr ⟨?_, ih hy.2⟩
      intro z hz
      rcases List.mem_cons.mp ((insertBy_perm key x ys).subset hz) with rfl | hz
      · exact hyx
      · exact hy.1 z hz

theorem sortBy_sorted (key : Expr → String) (xs : List Expr) :
    (sortBy key xs).Pairwise (fun a b => key a ≤ key b) := by
  induction xs with
  | nil => exact List.Pairwise.nil
  | cons x xs ih => exact insertBy_sorted key x _ ih

theorem sortBy_ne_nil (key : Expr → String) {xs : List Expr} (h : xs ≠ []) : sortBy key xs ≠ [] := by
  intro h'
  have := (sortBy_perm key xs).length_eq
  rw [h'] at this
  cases xs with
  | nil => exact h rfl
  | cons _ _ => simp at this

theorem eval_rebuild_sort (ρ : Env) (key : Expr → String) {op : BinOp} (h : isAC op) (xs : List Expr) (hne : xs ≠ []) :
    eval ρ (rebuild op (sortBy key xs)) = agg op (xs.map (eval ρ)) := by
  rw [eval_rebuild ρ h _ (sortBy_ne_nil key hne)]
  exact agg_perm h ((sortBy_perm key xs).map _)

theorem normTerms_ne_nil (comm : List BinOp) (key : Expr → String) (op : BinOp) :
    ∀ e : Expr, normTerms comm key op e ≠ []
  | .bin op' l r => by
    unfold normTerms
    split
    · intro h
      exact normTerms_ne_nil comm key op l (List.append_eq_nil_iff.mp h).1
    · split <;> simp
  | .var _ | .const _ | .neg _ | .call1 _ _ | .call2 _ _ _ | .cmp _ _ _ | .ite _ _ _ => by
    unfold normTerms; simp

/-! ### One-step unfolding lemmas -/

theorem norm_bin_comm {comm : List BinOp} {key : Expr → String} {op : BinOp} (h : comm.contains op = true) (l r : Expr) :
    norm comm key (.bin op l r) = rebuild op (sortBy key (normTerms comm key op l ++ normTerms comm key op r)) := by
  rw [norm]; simp only [h, if_true]

theorem norm_bin_noncomm {comm : List BinOp} {key : Expr → String} {op : BinOp} (h : ¬ comm.contains op = true) (l r : Expr) :
    norm comm key (.bin op l r) = .bin op (norm comm key l) (norm comm key r) := by
  rw [norm]; rw [if_neg h]

theorem normTerms_bin_same (comm : List BinOp) (key : Expr → String) (op : BinOp) (l r : Expr) :
    normTerms comm key op (.bin op l r) = normTerms comm key op l ++ normTerms comm key op r := by
  rw [normTerms]; simp only [if_true]

/-- `normTerms` of a node that is not an `op`-chain is the singleton of its normal form. -/
theorem normTerms_bin_ne (comm : List BinOp) (key : Expr → String) {op op' : BinOp} (h : op' ≠ op) (l r : Expr) :
    normTerms comm key op (.bin op' l r) = [norm comm key (.bin op' l r)] := by
  rw [normTerms, norm]
  simp only [h, if_false]
  split <;> rfl

/-! ### Sorting is canonical when keys are injective -/

theorem sortBy_eq_of_perm {key : Expr → String} (hinj : ∀ a b, key a = key b → a = b)
    {xs ys : List Expr} (p : xs.Perm ys) : sortBy key xs = sortBy key ys := by
  refine List.Perm.eq_of_pairwise ?_ (sortBy_sorted key xs) (sortBy_sorted key ys)
    ((sortBy_perm key xs).trans (p.trans (sortBy_perm key ys).symm))
  intro a b _ _ hab hba
  exact hinj a b (String.le_antisymm hab hba)

/-! ### Leaves are preserved as a multiset -/

theorem leaves_foldl_bin (op : BinOp) (xs : List Expr) (acc : Expr) :
    leaves (xs.foldl (fun a t => .bin op a t) acc) = leaves acc ++ xs.flatMap leaves := by
  induction xs generalizing acc with
  | nil => simp
  | cons t ts ih => simp only [List.foldl_cons, List.flatMap_cons]; rw [ih]; simp [leaves, List.append_assoc]

theorem leaves_rebuild (op : BinOp) (xs : List Expr) (hne : xs ≠ []) :
    leaves (rebuild op xs) = xs.flatMap leaves := by
  cases xs with
  | nil => exact absurd rfl hne
  | cons x xs => simp only [rebuild]; rw [leaves_foldl_bin]; simp

theorem flatMap_perm {xs ys : List Expr} (p : xs.Perm ys) : (xs.flatMap leaves).Perm (ys.flatMap leaves) := by
  induction p with
  | nil => exact .refl _
  | cons x _ ih => simp only [List.flatMap_cons]; exact ih.append_left _
  | swap x y l =>
    simp only [List.flatMap_cons]
    rw [← List.append_assoc, ← List.append_assoc]
    exact List.perm_append_comm.append_right _
  | trans _ _ ih₁ ih₂ => exact ih₁.trans ih₂

end SemantivaModel.ExprSig
