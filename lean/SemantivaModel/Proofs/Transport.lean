import SemantivaModel.Model.Transport
/-! Helper lemmas for C14: how `List.set` interacts with `flatten` / `flatMap` up to permutation. -/
namespace SemantivaModel.Transport

theorem getD_eq_getElem {α : Type} (l : List α) (d : α) (i : Nat) (h : i < l.length) : l.getD i d = l[i] := by
  simp [List.getD, List.getElem?_eq_getElem h]

theorem lt_of_getD_ne_nil {α : Type} (l : List (List α)) (q : Nat) (h : l.getD q [] ≠ []) : q < l.length := by
  rcases Nat.lt_or_ge q l.length with h' | h'
  · exact h'
  · exfalso; apply h; simp [List.getD, List.getElem?_eq_none h']

theorem flatten_set_perm {α : Type} (l : List (List α)) (q : Nat) (x ys : List α) (hq : q < l.length)
    (hx : x = l[q] ++ ys) : (l.set q x).flatten.Perm (l.flatten ++ ys) := by
  induction l generalizing q with
  | nil => simp at hq
  | cons a as ih =>
    cases q with
    | zero =>
      simp only [List.set_cons_zero, List.flatten_cons, List.getElem_cons_zero] at hx ⊢
      subst hx
      rw [List.append_assoc, List.append_assoc]
      exact List.Perm.append_left _ List.perm_append_comm
    | succ q =>
      simp only [List.set_cons_succ, List.flatten_cons, List.getElem_cons_succ, List.length_cons] at hx hq ⊢
      rw [List.append_assoc]
      exact List.Perm.append_left _ (ih q (Nat.lt_of_succ_lt_succ hq) hx)

theorem flatten_set_tail_perm {α : Type} (l : List (List α)) (q : Nat) (m : α) (tl : List α) (hq : q < l.length)
    (hx : l[q] = m :: tl) : (m :: (l.set q tl).flatten).Perm l.flatten := by
  induction l generalizing q with
  | nil => simp at hq
  | cons a as ih =>
    cases q with
    | zero =>
      simp only [List.set_cons_zero, List.flatten_cons, List.getElem_cons_zero] at hx ⊢
      subst hx
      exact .refl _
    | succ q =>
      simp only [List.set_cons_succ, List.flatten_cons, List.getElem_cons_succ, List.length_cons] at hx hq ⊢
      have := ih q (Nat.lt_of_succ_lt_succ hq) hx
      exact (List.perm_middle.symm).trans (List.Perm.append_left _ this)

theorem flatMap_set_perm {α β : Type} (f : α → List β) (l : List α) (j : Nat) (x : α) (ys : List β)
    (hj : j < l.length) (hx : f x = f l[j] ++ ys) : ((l.set j x).flatMap f).Perm (l.flatMap f ++ ys) := by
  induction l generalizing j with
  | nil => simp at hj
  | cons a as ih =>
    cases j with
    | zero =>
      simp only [List.set_cons_zero, List.flatMap_cons, List.getElem_cons_zero] at hx ⊢
      rw [hx, List.append_assoc, List.append_assoc]
      exact List.Perm.append_left _ List.perm_append_comm
    | succ j =>
      simp only [List.set_cons_succ, List.flatMap_cons, List.getElem_cons_succ, List.length_cons] at hx hj ⊢
      rw [List.append_assoc]
      exact List.Perm.append_left _ (ih j (Nat.lt_of_succ_lt_succ hj) hx)

theorem flatMap_set_eq {α β : Type} (f : α → List β) (l : List α) (j : Nat) (x : α)
    (hj : j < l.length) (hx : f x = f l[j]) : (l.set j x).flatMap f = l.flatMap f := by
  induction l generalizing j with
  | nil => simp at hj
  | cons a as ih =>
    cases j with
    | zero => simp only [List.set_cons_zero, List.flatMap_cons, List.getElem_cons_zero] at hx ⊢; rw [hx]
    | succ j =>
      simp only [List.set_cons_succ, List.flatMap_cons, List.getElem_cons_succ, List.length_cons] at hx hj ⊢
      rw [ih j (Nat.lt_of_succ_lt_succ hj) hx]

theorem getElem?_lt {α : Type} {l : List α} {i : Nat} {x : α} (h : l[i]? = some x) : i < l.length := by
  rcases Nat.lt_or_ge i l.length with h' | h'
  · exact h'
  · rw [List.getElem?_eq_none h'] at h; cases h

theorem getElem_of_getElem? {α : Type} {l : List α} {i : Nat} {x : α} (h : l[i]? = some x) :
    l[i]'(getElem?_lt h) = x := by
  have := List.getElem?_eq_getElem (getElem?_lt h)
  rw [this] at h; injection h

end SemantivaModel.Transport
