import SemantivaModel.Model.SafeEval
/-! Helper lemmas for C11. -/
namespace SemantivaModel.SafeEval

theorem total_nameChecked {P : Policy} {G : Grammar} (h : P.total G = true) : P.nameChecked = true := by
  simp [Policy.total] at h; exact h.1.1.1

theorem total_kind {P : Policy} {G : Grammar} (h : P.total G = true) {k : String}
    (hk : P.kinds.contains k = true) : (specKinds.contains k || carrierKinds.contains k) = true := by
  simp only [Policy.total, Bool.and_eq_true, List.all_eq_true] at h
  have := h.1.1.2 k (by simpa using hk)
  exact this

theorem total_func {P : Policy} {G : Grammar} (h : P.total G = true) {f : String}
    (hf : P.funcs.contains f = true) : specFuncs.contains f = true := by
  simp only [Policy.total, Bool.and_eq_true, List.all_eq_true] at h
  exact h.1.2 f (by simpa using hf)

theorem total_rule {P : Policy} {G : Grammar} (h : P.total G = true) {k f : String}
    (hk : P.kinds.contains k = true) (hf : (G.fieldsOf k).contains f = true)
    (hname : k ≠ "Name") (hcall : ¬ (k = "Call" ∧ f = "func")) : P.rule k f ≠ .ignored := by
  simp only [Policy.total, Bool.and_eq_true, List.all_eq_true] at h
  have := h.2 k (by simpa using hk) f (by simpa using hf)
  simp only [Bool.or_eq_true, Bool.and_eq_true, beq_iff_eq, bne_iff_ne] at this
  rcases this with (⟨h1, h2⟩ | h1) | h1
  · exact absurd ⟨h1, h2⟩ hcall
  · exact absurd h1 hname
  · exact h1

theorem isDirectCallTarget_mono {fs gs : List String} (h : ∀ f, fs.contains f = true → gs.contains f = true)
    (t : Tree) (ht : isDirectCallTarget fs t = true) : isDirectCallTarget gs t = true := by
  unfold isDirectCallTarget at *
  split at ht
  · rename_i f _
    exact h f ht
  · simp at ht

end SemantivaModel.SafeEval
