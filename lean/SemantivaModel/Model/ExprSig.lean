/-
Model of `semantiva/metadata/semantic_id.py : _dump_ast_commutative / normalize_expression_sig_v1`
(property C12) over the numeric expression fragment the property names:
variables, integer constants, `+ - * // % **`, unary minus, `abs/min/max`, comparisons, `if-else`.

`norm comm key e` mirrors the code: a maximal chain of one operator from `comm` is flattened,
its terms are normalised, *stably sorted by their dump string* and rebuilt left-associated;
every other node is rebuilt from its normalised children.  `comm` is regenerated from the real
code on every run (`Generated.C12.commOps`), `key` is `dump`, the mirror of `ast.dump`.

No imports: part of the compiled driver.
-/
namespace SemantivaModel.ExprSig

inductive BinOp | add | sub | mul | floordiv | mod | pow
  deriving DecidableEq, Repr, Inhabited

inductive CmpOp | eq | ne | lt | le | gt | ge
  deriving DecidableEq, Repr, Inhabited

inductive Fn1 | abs
  deriving DecidableEq, Repr, Inhabited
inductive Fn2 | min | max
  deriving DecidableEq, Repr, Inhabited

inductive Expr where
  | var (x : String)
  | const (n : Nat)                       -- `-3` parses as `neg (const 3)`
  | bin (op : BinOp) (l r : Expr)
  | neg (e : Expr)
  | call1 (f : Fn1) (a : Expr)
  | call2 (f : Fn2) (a b : Expr)
  | cmp (op : CmpOp) (l r : Expr)
  | ite (c t e : Expr)                    -- `t if c else e`
  deriving DecidableEq, Repr, Inhabited

/-! ### Evaluation (Python semantics on exact integers; `none` = raises or leaves the integers) -/

abbrev Env := String → Option Int

def lift2 (f : Int → Int → Int) : Option Int → Option Int → Option Int
  | some x, some y => some (f x y)
  | _, _ => none

def evalBin : BinOp → Option Int → Option Int → Option Int
  | .add, a, b => lift2 (· + ·) a b
  | .sub, a, b => lift2 (· - ·) a b
  | .mul, a, b => lift2 (· * ·) a b
  | .floordiv, some x, some y => if y = 0 then none else some (Int.fdiv x y)
  | .mod, some x, some y => if y = 0 then none else some (Int.fmod x y)
  | .pow, some x, some y => if y < 0 then none else some (x ^ y.toNat)
  | _, _, _ => none

def evalCmp : CmpOp → Int → Int → Bool
  | .eq, x, y => x == y
  | .ne, x, y => x != y
  | .lt, x, y => x < y
  | .le, x, y => x ≤ y
  | .gt, x, y => x > y
  | .ge, x, y => x ≥ y

def eval (ρ : Env) : Expr → Option Int
  | .var x => ρ x
  | .const n => some (Int.ofNat n)
  | .bin op l r => evalBin op (eval ρ l) (eval ρ r)
  | .neg e => (eval ρ e).map (fun x => -x)
  | .call1 .abs a => (eval ρ a).map (fun x => Int.ofNat x.natAbs)
  | .call2 .min a b => lift2 (fun x y => if y < x then y else x) (eval ρ a) (eval ρ b)
  | .call2 .max a b => lift2 (fun x y => if y > x then y else x) (eval ρ a) (eval ρ b)
  | .cmp op l r => lift2 (fun x y => if evalCmp op x y then 1 else 0) (eval ρ l) (eval ρ r)
  | .ite c t e =>
    match eval ρ c with
    | none => none
    | some v => if v ≠ 0 then eval ρ t else eval ρ e

/-! ### `ast.dump(node, include_attributes=False)` for this fragment (CPython 3.12 format) -/

def BinOp.name : BinOp → String
  | .add => "Add" | .sub => "Sub" | .mul => "Mult" | .floordiv => "FloorDiv" | .mod => "Mod" | .pow => "Pow"
def CmpOp.name : CmpOp → String
  | .eq => "Eq" | .ne => "NotEq" | .lt => "Lt" | .le => "LtE" | .gt => "Gt" | .ge => "GtE"
def Fn1.name : Fn1 → String | .abs => "abs"
def Fn2.name : Fn2 → String | .min => "min" | .max => "max"

def dumpName (x : String) : String := "Name(id='" ++ x ++ "', ctx=Load())"

def dump : Expr → String
  | .var x => dumpName x
  | .const n => "Constant(value=" ++ toString n ++ ")"
  | .bin op l r => "BinOp(left=" ++ dump l ++ ", op=" ++ op.name ++ "(), right=" ++ dump r ++ ")"
  | .neg e => "UnaryOp(op=USub(), operand=" ++ dump e ++ ")"
  | .call1 f a => "Call(func=" ++ dumpName f.name ++ ", args=[" ++ dump a ++ "], keywords=[])"
  | .call2 f a b => "Call(func=" ++ dumpName f.name ++ ", args=[" ++ dump a ++ ", " ++ dump b ++ "], keywords=[])"
  | .cmp op l r => "Compare(left=" ++ dump l ++ ", ops=[" ++ op.name ++ "()], comparators=[" ++ dump r ++ "])"
  | .ite c t e => "IfExp(test=" ++ dump c ++ ", body=" ++ dump t ++ ", orelse=" ++ dump e ++ ")"

/-! ### Normalisation -/

/-- Insert before the first element with a key that is not smaller (keeps equal keys in input order). -/
def insertBy (key : Expr → String) (x : Expr) : List Expr → List Expr
  | [] => [x]
  | y :: ys => if key x ≤ key y then x :: y :: ys else y :: insertBy key x ys

/-- Stable sort by key (Python's `list.sort(key=...)`), as a structurally recursive insertion sort
    so that it also evaluates inside the kernel. -/
def sortBy (key : Expr → String) (xs : List Expr) : List Expr :=
  xs.foldr (insertBy key) []

/-- Left-associated chain `((x₀ op x₁) op x₂) …`. -/
def rebuild (op : BinOp) : List Expr → Expr
  | [] => .const 0            -- never reached: a chain has at least one term
  | x :: xs => xs.foldl (fun acc t => .bin op acc t) x

mutual
def norm (comm : List BinOp) (key : Expr → String) : Expr → Expr
  | .var x => .var x
  | .const n => .const n
  | .bin op l r =>
    if comm.contains op then
      rebuild op (sortBy key (normTerms comm key op l ++ normTerms comm key op r))
    else .bin op (norm comm key l) (norm comm key r)
  | .neg e => .neg (norm comm key e)
  | .call1 f a => .call1 f (norm comm key a)
  | .call2 f a b => .call2 f (norm comm key a) (norm comm key b)
  | .cmp op l r => .cmp op (norm comm key l) (norm comm key r)
  | .ite c t e => .ite (norm comm key c) (norm comm key t) (norm comm key e)
termination_by structural e => e

/-- Normalised terms of the maximal `op`-chain rooted at the argument (`collect` + `norm` of the code). -/
def normTerms (comm : List BinOp) (key : Expr → String) (op : BinOp) : Expr → List Expr
  | .bin op' l r =>
    if op' = op then normTerms comm key op l ++ normTerms comm key op r
    else if comm.contains op' then
      [rebuild op' (sortBy key (normTerms comm key op' l ++ normTerms comm key op' r))]
    else [.bin op' (norm comm key l) (norm comm key r)]
  | .var x => [.var x]
  | .const n => [.const n]
  | .neg e => [.neg (norm comm key e)]
  | .call1 f a => [.call1 f (norm comm key a)]
  | .call2 f a b => [.call2 f (norm comm key a) (norm comm key b)]
  | .cmp o l r => [.cmp o (norm comm key l) (norm comm key r)]
  | .ite c t e => [.ite (norm comm key c) (norm comm key t) (norm comm key e)]
termination_by structural e => e
end

/-- ExpressionSigV1 of the model: the dump of the normal form. -/
def sig (comm : List BinOp) (e : Expr) : String := dump (norm comm dump e)

/-- Leaves (variables and constants) with multiplicity, left to right. -/
def leaves : Expr → List Expr
  | .var x => [.var x]
  | .const n => [.const n]
  | .bin _ l r => leaves l ++ leaves r
  | .neg e => leaves e
  | .call1 _ a => leaves a
  | .call2 _ a b => leaves a ++ leaves b
  | .cmp _ l r => leaves l ++ leaves r
  | .ite c t e => leaves c ++ leaves t ++ leaves e

/-- Side condition on the generated operator list: only `+` and `*` are flattened and sorted. -/
def commOpsOK (comm : List BinOp) : Bool := comm.all (fun o => o == .add || o == .mul)

end SemantivaModel.ExprSig
