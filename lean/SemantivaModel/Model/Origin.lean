import SemantivaModel.Model.Inspect
/-
Parameter origins (property C02, "the per-node facts are true"): what `build_pipeline_inspection`
reports for every parameter of every node — taken from the node configuration, from the context
(written by node j, or expected in the initial context) or from the processor default — as the
one-pass analysis the real inspection performs (`inspect_origin` with the running `key_origin` map),
and an execution that records the context after every node, so that "the value node i received is
the value node j left" can be stated.

Part of the compiled driver (no imports beyond the Inspect model).
-/
namespace SemantivaModel.Inspect
open SemantivaModel.Exec

inductive Origin where
  | config                   -- the node's own `parameters:` block
  | node (j : Nat)           -- the context, last written by node j (0-based)
  | initial                  -- the context, as supplied by the caller
  | default                  -- the processor's signature default
  deriving Repr, DecidableEq, Inhabited

/-- key ↦ index of the node that created it last and has not been deleted since (`key_origin`). -/
abbrev OMap := List (String × Nat)

structure OState where
  om : OMap
  gone : List String          -- deleted by an earlier node and not re-created since
  deriving Repr, Inhabited

def OState.init : OState := { om := [], gone := [] }

/-- The origin the one-pass inspection reports for parameter `p` of node `n`. -/
def originOf (n : Node) (om : OMap) (p : PSig) : Origin :=
  if (n.config.lookup p.name).isSome then .config
  else match om.lookup p.name with
    | some j => .node j
    | none => if p.dflt.isSome then .default else .initial

/-- Effect of node `n` (at index `i`) on the origin map: created keys now come from `i`, suppressed keys from nowhere. -/
def stepO (n : Node) (i : Nat) (st : OState) : OState :=
  let created := createdOf n
  let suppressed := suppressedOf n
  { om := (created.map (fun k => (k, i)) ++ st.om).filter (fun kv => !suppressed.contains kv.1),
    gone := (st.gone.filter (fun k => !created.contains k)) ++ suppressed }

def foldO : List Node → Nat → OState → OState
  | [], _, st => st
  | n :: ns, i, st => foldO ns (i + 1) (stepO n i st)

/-- The parameters whose origin the inspection reports for a node: the processor's parameters and the
    keys a context processor reads in order to delete them. -/
def reportedParams (n : Node) : List PSig :=
  n.params ++ ((mustBeInContext n).filter (fun k => !(n.params.map (·.name)).contains k)).map (fun k => ⟨k, none⟩)

/-- Per node, per reported parameter: the origin. -/
def originsFrom : List Node → Nat → OState → List (List (String × Origin))
  | [], _, _ => []
  | n :: ns, i, st => ((reportedParams n).map (fun p => (p.name, originOf n st.om p))) :: originsFrom ns (i + 1) (stepO n i st)

def origins (ns : List Node) : List (List (String × Origin)) := originsFrom ns 0 OState.init

/-- Second pass of the inspection: a signature default only applies while the context does not hold the name, so a
    defaulted parameter whose name the pipeline requires from the initial context (for any node: `req`) and that no
    earlier node deleted is reported as coming from the initial context. -/
def originOf2 (n : Node) (st : OState) (req : List String) (p : PSig) : Origin :=
  match originOf n st.om p with
  | .default => if req.contains p.name && !st.gone.contains p.name then .initial else .default
  | o => o

def originsFrom2 (req : List String) : List Node → Nat → OState → List (List (String × Origin))
  | [], _, _ => []
  | n :: ns, i, st => ((reportedParams n).map (fun p => (p.name, originOf2 n st req p))) :: originsFrom2 req ns (i + 1) (stepO n i st)

/-- What the inspection reports: two passes when the flow analysis yields the required keys, one pass otherwise. -/
def origins2 (ns : List Node) (dtype : String := "NoDataType") : List (List (String × Origin)) :=
  match analyse ns dtype with
  | .ok req => originsFrom2 req ns 0 OState.init
  | .error _ => origins ns

/-- Execution that also returns the context after every node (in order). -/
def execHist (tbl : ResolveTable) : List Node → Data × Ctx → Except Err ((Data × Ctx) × List Ctx)
  | [], s => .ok (s, [])
  | n :: ns, s =>
    match step tbl n s with
    | .error e => .error e
    | .ok s' =>
      match execHist tbl ns s' with
      | .error e => .error e
      | .ok (sf, h) => .ok (sf, s'.2 :: h)

end SemantivaModel.Inspect
