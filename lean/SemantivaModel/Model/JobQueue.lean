/-
The job-queue protocol of `QueueSemantivaOrchestrator` / `worker_loop` over a transport (property C15), at the
message level: the master's FIFO, the `jobs.<id>.cfg` messages, the jobs held by workers, the `jobs.<id>.status`
messages, the pending Futures and the completed ones.  Any interleaving of master and worker threads is a list of
events; which message a scan finds first is the event's index.  Part of the compiled driver.
-/
namespace SemantivaModel.JobQueue

structure Job where
  id : Nat
  payload : Nat
  deriving Repr, DecidableEq, Inhabited

/-- What running a pipeline directly on a payload gives. -/
inductive Res where
  | ok (v : Nat)
  | err (v : Nat)
  deriving Repr, DecidableEq, Inhabited

def Res.isOk : Res → Bool
  | .ok _ => true
  | .err _ => false

structure St where
  jobs : List Job := []                -- every job ever enqueued
  queued : List Job := []              -- the master's FIFO
  cfg : List Job := []                 -- published, not yet taken by a worker
  running : List (Nat × Job) := []     -- (worker, job) being executed
  status : List (Nat × Res) := []      -- status messages not yet collected: (job id, result)
  pending : List Nat := []             -- job ids whose Future is not completed
  done : List (Nat × Res) := []        -- completed Futures and what they completed with
  lost : List Nat := []                -- jobs dropped without a status message
  deriving Repr, Inhabited

inductive Ev where
  | enqueue (j : Job)
  | publish                            -- master: head of the FIFO becomes a cfg message
  | take (w : Nat) (i : Nat)           -- worker w pops the i-th cfg message
  | finish (i : Nat)                   -- the i-th running job finishes and its worker publishes (or not) a status
  | collect (i : Nat)                  -- master pops the i-th status message and resolves the Future it names
  deriving Repr, Inhabited

/-- `rf`: does a worker publish a status for a job whose pipeline raised?  `run`: direct execution. -/
def step (rf : Bool) (run : Nat → Res) (s : St) : Ev → Option St
  | .enqueue j =>
    if j.id ∈ s.jobs.map (·.id) then none
    else some { s with jobs := j :: s.jobs, queued := s.queued ++ [j], pending := j.id :: s.pending }
  | .publish =>
    match s.queued with
    | [] => none
    | j :: rest => some { s with queued := rest, cfg := s.cfg ++ [j] }
  | .take w i =>
    if h : i < s.cfg.length then
      some { s with cfg := s.cfg.eraseIdx i, running := (w, s.cfg[i]) :: s.running }
    else none
  | .finish i =>
    if h : i < s.running.length then
      let j := s.running[i].2
      let r := run j.payload
      if r.isOk || rf then
        some { s with running := s.running.eraseIdx i, status := s.status ++ [(j.id, r)] }
      else
        some { s with running := s.running.eraseIdx i, lost := j.id :: s.lost }
    else none
  | .collect i =>
    if h : i < s.status.length then
      let m := s.status[i]
      if m.1 ∈ s.pending then
        some { s with status := s.status.eraseIdx i, pending := s.pending.erase m.1, done := m :: s.done }
      else some { s with status := s.status.eraseIdx i }
    else none

def runEvents (rf : Bool) (run : Nat → Res) : St → List Ev → Option St
  | s, [] => some s
  | s, e :: es =>
    match step rf run s e with
    | some s' => runEvents rf run s' es
    | none => none

/-- Nothing can move: the FIFO, both channels and all workers are empty. -/
def quiescent (s : St) : Bool :=
  s.queued.isEmpty && s.cfg.isEmpty && s.running.isEmpty && s.status.isEmpty

end SemantivaModel.JobQueue
