import SemantivaModel.Model.Exec
import SemantivaModel.Model.Aggregator
/-
What the SER machinery of the orchestrator records about a node (property C07), as functions of the
reference execution of `Model/Exec.lean`:
  * the context delta         — `DeltaCollector.compute` on the pre/post snapshots
  * parameters and sources    — `_resolve_params_with_sources`, parametric in the table
                                (in node config, in context, has default) ↦ recorded source
                                that is re-extracted from the real code on every run
  * the built-in checks       — `_build_pre_checks`, `_build_post_checks`
  * the digest pre-images     — data / context before and after
  * timestamps                — the instant a generator writes for a clock reading
Part of the compiled driver.
-/
namespace SemantivaModel.Ser
open SemantivaModel.Exec SemantivaModel.Aggregator

/-! ### Context delta -/

def createdKeys (pre post : Ctx) : List String := ssort (post.keys.filter (fun k => !pre.has k))

def changed (pre post : Ctx) (k : String) : Bool :=
  match pre.get k, post.get k with
  | some a, some b => !(Val.beq a b)
  | _, _ => false

def updatedKeys (pre post : Ctx) : List String := ssort (post.keys.filter (changed pre post))

/-! ### Parameter provenance -/

structure ParamRec where
  name : String
  value : Val
  source : Channel
  deriving Repr, Inhabited

def recordParam (stbl : ResolveTable) (n : Node) (c : Ctx) (p : PSig) : Option ParamRec :=
  match (stbl.lookup ((n.config.lookup p.name).isSome, c.has p.name, p.dflt.isSome)).getD .none_ with
  | .config => (n.config.lookup p.name).map (fun v => ⟨p.name, v, .config⟩)
  | .context => (c.get p.name).map (fun v => ⟨p.name, v, .context⟩)
  | .default => p.dflt.map (fun v => ⟨p.name, v, .default⟩)
  | .none_ => none

def recordParams (stbl : ResolveTable) (n : Node) (c : Ctx) : List ParamRec :=
  n.params.filterMap (recordParam stbl n c)

/-! ### Built-in checks -/

/-- Keys the node can only obtain from the context: parameters neither configured nor defaulted. -/
def requiredKeys (n : Node) : List String :=
  ssort ((n.params.filter (fun p => (n.config.lookup p.name).isNone && p.dflt.isNone)).map (·.name))

def missingKeys (n : Node) (c : Ctx) : List String := (requiredKeys n).filter (fun k => !c.has k)

/-- The input / output types the SER checks use: context processors declare none. -/
def serInT (n : Node) : Option String := if n.kind.isCtxProc then none else some n.inT
def serOutT (n : Node) : Option String :=
  if n.kind.isCtxProc then none
  else match n.kind with
    | .probe => none
    | _ => some n.outT

def typeOk (t : Option String) (d : Data) : Bool :=
  match t with
  | none => true
  | some t => typeAccepts t d.ty

/-! ### The SER of one node -/

structure View where
  ok : Bool
  created : List String
  updated : List String
  params : List ParamRec
  expectedKeys : List String
  missing : List String
  inputTypeOk : Bool
  outputTypeOk : Bool
  writesRealized : Bool
  dataIn : Data
  dataOut : Data
  ctxPre : Ctx
  ctxPost : Ctx
  deriving Repr, Inhabited

def after (tbl : ResolveTable) (n : Node) (s : Data × Ctx) : Data × Ctx :=
  match step tbl n s with
  | .ok s' => s'
  | .error _ => s

def viewOf (tbl stbl : ResolveTable) (n : Node) (s : Data × Ctx) : View :=
  let s' := after tbl n s
  { ok := (match step tbl n s with | .ok _ => true | .error _ => false),
    created := createdKeys s.2 s'.2,
    updated := updatedKeys s.2 s'.2,
    params := recordParams stbl n s.2,
    expectedKeys := requiredKeys n,
    missing := missingKeys n s.2,
    inputTypeOk := typeOk (serInT n) s.1,
    outputTypeOk := typeOk (serOutT n) s'.1,
    writesRealized := (createdKeys s.2 s'.2 ++ updatedKeys s.2 s'.2).all (fun k => s'.2.has k),
    dataIn := s.1, dataOut := s'.1, ctxPre := s.2, ctxPost := s'.2 }

/-- The SER lines of a run: one per node entered, the failing node's included, none after it. -/
def serStream (tbl stbl : ResolveTable) : List Node → Data × Ctx → List View
  | [], _ => []
  | n :: ns, s =>
    viewOf tbl stbl n s ::
      (match step tbl n s with
       | .ok s' => serStream tbl stbl ns s'
       | .error _ => [])

/-! ### Timestamps -/

/-- What a generator writes for a clock reading `t` (true UTC instant, ms) on a host whose local time
    is `off` ms ahead of UTC: a generator that formats local time and appends "Z" denotes `t + off`. -/
def stamp (utc : Bool) (t off : Int) : Int := if utc then t else t + off

/-- One timestamped field of the stream: which generator wrote it (`true` = trace driver, `false` =
    orchestrator), the reading and the host offset at that moment. -/
structure Reading where
  byDriver : Bool
  t : Int
  off : Int
  deriving Repr

def denoted (driverUTC orchUTC : Bool) (r : Reading) : Int :=
  stamp (if r.byDriver then driverUTC else orchUTC) r.t r.off

end SemantivaModel.Ser
