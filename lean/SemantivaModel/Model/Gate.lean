import SemantivaModel.Model.Launch
/-
The pre-flight gate of `semantiva run` (property C17) as a decision table
  (what is wrong with the invocation, which no-execution flag is given) ↦ (exit code, does the node loop start?)
re-extracted from the real CLI on every run with one probe invocation per row, and the launch loop
behind it (shared with C09).  Part of the compiled driver.
-/
namespace SemantivaModel.Gate
open SemantivaModel.Launch

/-- The first documented problem of an invocation (at most one is injected per probe). -/
inductive Blocker | none_ | invalidConfig | missingKey | runSpaceInvalid | capExceeded
  deriving Repr, DecidableEq, Inhabited

inductive Flag | none_ | validate | dryRun | rsDryRun
  deriving Repr, DecidableEq, Inhabited

def allBlockers : List Blocker := [.none_, .invalidConfig, .missingKey, .runSpaceInvalid, .capExceeded]
def allFlags : List Flag := [.none_, .validate, .dryRun, .rsDryRun]

/-- (blocker, flag) ↦ (exit code, the node loop is entered) -/
abbrev GateTable := List ((Blocker × Flag) × (Nat × Bool))

def exitSuccess : Nat := 0
def exitConfig : Nat := 3
def exitRuntime : Nat := 4

/-- The documented gate: the loop is entered only for a clean invocation without a no-execution flag; a clean
    invocation with such a flag exits 0; a problem reported without such a flag exits with the configuration
    code; with a flag the run still never starts and the exit code is 0 or the configuration code. -/
def gateOK (t : GateTable) : Bool :=
  allBlockers.all fun b => allFlags.all fun f =>
    match t.lookup (b, f) with
    | some (code, enters) =>
      (enters == (b == .none_ && f == .none_))
      && (if b == .none_ then code == exitSuccess
          else if f == .none_ then code == exitConfig
          else code == exitSuccess || code == exitConfig)
    | none => false

/-- One invocation: the gate, then (if entered) the launch loop over the planned runs with the given outcomes.
    Returns (exit code, number of runs started). -/
def cliRun (t : GateTable) (b : Blocker) (f : Flag) (outcomes : List Bool) : Nat × Nat :=
  match t.lookup (b, f) with
  | some (code, enters) =>
    if enters then
      (if outcomes.any (!·) then exitRuntime else exitSuccess,
       completedOf outcomes + (if outcomes.any (!·) then 1 else 0))
    else (code, 0)
  | none => (1, 0)

end SemantivaModel.Gate
