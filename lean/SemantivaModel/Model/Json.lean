/-
JSON trees and the canonical form every Semantiva identity is hashed from
(`json.dumps(obj, sort_keys=True, separators=(",", ":"))`): properties C04, C05, C09.

Scalars are opaque tokens (their JSON text).  `norm` sorts the members of every object by key, at
every depth; `serialize` renders a tree (used only to hand pre-images to the harness, which hashes
them with hashlib/uuid5).

No imports: part of the compiled driver.
-/
namespace SemantivaModel.Json

inductive J where
  | atom (tok : String)                 -- null, booleans, numbers, strings: their JSON text
  | arr (xs : List J)
  | obj (ms : List (String × J))
  deriving Repr, Inhabited

abbrev Members := List (String × J)

def insertM (x : String × J) : Members → Members
  | [] => [x]
  | y :: ys => if x.1 ≤ y.1 then x :: y :: ys else y :: insertM x ys

def sortMembers (ms : Members) : Members := ms.foldr insertM []

mutual
/-- Sort object members by key, recursively. -/
def norm : J → J
  | .atom t => .atom t
  | .arr xs => .arr (normList xs)
  | .obj ms => .obj (sortMembers (normMembers ms))
def normList : List J → List J
  | [] => []
  | x :: xs => norm x :: normList xs
def normMembers : Members → Members
  | [] => []
  | (k, v) :: rest => (k, norm v) :: normMembers rest
end

def lookup (j : J) (k : String) : Option J :=
  match j with
  | .obj ms => ms.lookup k
  | _ => none

mutual
/-- Compact rendering, members in the order given (apply to `norm j` for the canonical text). -/
def serialize : J → String
  | .atom t => t
  | .arr xs => "[" ++ serializeList xs ++ "]"
  | .obj ms => "{" ++ serializeMembers ms ++ "}"
def serializeList : List J → String
  | [] => ""
  | [x] => serialize x
  | x :: y :: rest => serialize x ++ "," ++ serializeList (y :: rest)
def serializeMembers : Members → String
  | [] => ""
  | [(k, v)] => "\"" ++ k ++ "\":" ++ serialize v
  | (k, v) :: y :: rest => "\"" ++ k ++ "\":" ++ serialize v ++ "," ++ serializeMembers (y :: rest)
end

/-- The canonical text that is hashed. -/
def canonical (j : J) : String := serialize (norm j)

mutual
/-- Every object, at any depth, has pairwise distinct keys (true of anything parsed into a Python dict). -/
def wf : J → Bool
  | .atom _ => true
  | .arr xs => wfList xs
  | .obj ms => decide ((ms.map (·.1)).Nodup) && wfMembers ms
def wfList : List J → Bool
  | [] => true
  | x :: xs => wf x && wfList xs
def wfMembers : Members → Bool
  | [] => true
  | (_, v) :: rest => wf v && wfMembers rest
end

def str (s : String) : J := .atom ("\"" ++ s ++ "\"")
def num (n : Nat) : J := .atom (toString n)
def jnull : J := .atom "null"

end SemantivaModel.Json
