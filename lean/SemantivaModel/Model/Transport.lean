/-
Model of `semantiva/execution/transport/in_memory.py` (property C14): publishers and subscribers as
small-step threads over shared queues, at the granularity of the operations that are atomic in
CPython (a dict get-or-create done in C, `deque.append`, a test-and-pop done under the queue's
lock, a snapshot `list(d.items())`).  Which operations *are* atomic in the code at hand is recorded
in a `Shape`, regenerated from the source on every run (`Generated.C14.shape`).

A schedule is a list of thread ids of any length; scheduling a finished or unknown thread stutters.

No imports: part of the compiled driver.
-/
namespace SemantivaModel.Transport

abbrev Qid := Nat

structure Msg where
  pub : Nat          -- publishing thread
  chan : String
  seq : Nat          -- per-publisher sequence number (publication order)
  deriving Repr, DecidableEq, Inhabited

structure Shape where
  getOrCreateAtomic : Bool     -- queue lookup-or-create is one atomic step (no Python-level factory, no check-then-insert)
  testPopAtomic : Bool         -- emptiness test and popleft under the queue lock that also guards append
  appendLocked : Bool          -- append under the queue lock
  snapshotsItems : Bool        -- the subscriber iterates over a snapshot of the channel map
  filtersByPattern : Bool      -- only queues whose channel matches the pattern are popped
  yieldsEachPopped : Bool      -- every popped message is yielded (one pop per lock hold)
  deriving Repr, DecidableEq, Inhabited

def Shape.good (sh : Shape) : Bool :=
  sh.getOrCreateAtomic && sh.testPopAtomic && sh.appendLocked && sh.snapshotsItems && sh.filtersByPattern
    && sh.yieldsEachPopped

inductive PubPc
  | start                          -- about to look the channel's queue up
  | missDecided                    -- (racy) found the channel missing, factory not yet run
  | factoryRan (q : Qid)           -- (racy) fresh queue built, not yet stored
  | have_ (q : Qid)                -- holds the queue it will append to
  | done
  deriving Repr, DecidableEq, Inhabited

structure Pub where
  todo : List String               -- channels still to publish to (head = current)
  pc : PubPc
  nextSeq : Nat
  deriving Repr, Inhabited

inductive SubPc
  | idle                                               -- about to take a snapshot
  | scanning (todo : List (String × Qid))              -- walking the snapshot
  | tested (q : Qid) (rest : List (String × Qid))      -- (non-atomic) saw `q` non-empty, pop pending
  | holding (m : Msg)                                  -- popped, about to yield
  | exited
  | crashed                                            -- popleft on an empty deque
  deriving Repr, Inhabited

structure Sub where
  pattern : String
  pc : SubPc
  delivered : List Msg
  deriving Repr, Inhabited

structure TState where
  chanMap : List (String × Qid)      -- insertion-ordered channel map
  stores : List (List Msg)           -- queue contents by queue id (head = oldest)
  pubs : List Pub
  subs : List Sub
  appended : List Msg                -- history: every message whose append completed
  deriving Repr, Inhabited

inductive Tid | pub (i : Nat) | sub (j : Nat)
  deriving Repr, DecidableEq, Inhabited

def lookupChan (s : TState) (c : String) : Option Qid := s.chanMap.lookup c

def setChan (m : List (String × Qid)) (c : String) (q : Qid) : List (String × Qid) :=
  if (m.lookup c).isSome then m.map (fun kv => if kv.1 = c then (c, q) else kv) else m ++ [(c, q)]

/-- One step of publisher `i`. -/
def stepPub (sh : Shape) (s : TState) (i : Nat) : TState :=
  match s.pubs[i]? with
  | none => s
  | some p =>
    match p.pc, p.todo with
    | .done, _ => s
    | _, [] => { s with pubs := s.pubs.set i { p with pc := .done } }
    | .start, c :: _ =>
      match lookupChan s c with
      | some q => { s with pubs := s.pubs.set i { p with pc := .have_ q } }
      | none =>
        if sh.getOrCreateAtomic then
          { s with chanMap := s.chanMap ++ [(c, s.stores.length)], stores := s.stores ++ [[]],
                   pubs := s.pubs.set i { p with pc := .have_ s.stores.length } }
        else { s with pubs := s.pubs.set i { p with pc := .missDecided } }
    | .missDecided, _ :: _ =>
      { s with stores := s.stores ++ [[]], pubs := s.pubs.set i { p with pc := .factoryRan s.stores.length } }
    | .factoryRan q, c :: _ =>
      { s with chanMap := setChan s.chanMap c q, pubs := s.pubs.set i { p with pc := .have_ q } }
    | .have_ q, c :: rest =>
      let m : Msg := ⟨i, c, p.nextSeq⟩
      { s with stores := s.stores.set q ((s.stores.getD q []) ++ [m]),
               appended := s.appended ++ [m],
               pubs := s.pubs.set i { todo := rest, pc := if rest.isEmpty then .done else .start, nextSeq := p.nextSeq + 1 } }

/-- One step of subscriber `j`; `matches pattern channel` abstracts `fnmatch`. -/
def stepSub (sh : Shape) (matches_ : String → String → Bool) (s : TState) (j : Nat) : TState :=
  match s.subs[j]? with
  | none => s
  | some u =>
    match u.pc with
    | .exited => s
    | .crashed => s
    | .idle =>
      let snap := if sh.filtersByPattern then s.chanMap.filter (fun kv => matches_ u.pattern kv.1) else s.chanMap
      { s with subs := s.subs.set j { u with pc := .scanning snap } }
    | .scanning [] => { s with subs := s.subs.set j { u with pc := .exited } }
    | .scanning ((_, q) :: rest) =>
      match s.stores.getD q [] with
      | [] => { s with subs := s.subs.set j { u with pc := .scanning rest } }
      | m :: tl =>
        if sh.testPopAtomic then
          { s with stores := s.stores.set q tl, subs := s.subs.set j { u with pc := .holding m } }
        else { s with subs := s.subs.set j { u with pc := .tested q rest } }
    | .tested q _ =>
      match s.stores.getD q [] with
      | [] => { s with subs := s.subs.set j { u with pc := .crashed } }
      | m :: tl => { s with stores := s.stores.set q tl, subs := s.subs.set j { u with pc := .holding m } }
    | .holding m =>
      { s with subs := s.subs.set j { u with pc := .idle, delivered := u.delivered ++ [m] } }

def step (sh : Shape) (matches_ : String → String → Bool) (s : TState) : Tid → TState
  | .pub i => stepPub sh s i
  | .sub j => stepSub sh matches_ s j

def run (sh : Shape) (matches_ : String → String → Bool) (s : TState) (sched : List Tid) : TState :=
  sched.foldl (step sh matches_) s

def init (programs : List (List String)) (patterns : List String) : TState :=
  { chanMap := [], stores := [],
    pubs := programs.map (fun t => { todo := t, pc := if t.isEmpty then .done else .start, nextSeq := 0 }),
    subs := patterns.map (fun p => { pattern := p, pc := .idle, delivered := [] }),
    appended := [] }

/-- Messages a subscriber has popped but not yet yielded. -/
def inHand (u : Sub) : List Msg :=
  match u.pc with
  | .holding m => [m]
  | _ => []

/-- Everything that has left a queue, subscriber by subscriber. -/
def taken (s : TState) : List Msg := s.subs.flatMap (fun u => u.delivered ++ inHand u)

end SemantivaModel.Transport
