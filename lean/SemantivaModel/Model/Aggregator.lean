/-
Model of `semantiva/trace/aggregation/aggregator.py : TraceAggregator` (property C13).

The aggregator keeps, per run id, lifecycle flags, min/max timestamps, the canonical node list of
the run's `pipeline_start` and a map node id ↦ last status; per launch, flags and the set of run
ids.  The model is the projection of that dictionary-of-runs onto one run id (`stepRun r`) and one
launch key (`stepLaunch k`): records of other runs/launches leave the projection untouched.

The status decision rules are *tables* regenerated from the real `finalize_run`/`finalize_launch`
on every run (`Generated.C13`), indexed by the flags the code looks at.

No imports: part of the compiled driver.
-/
namespace SemantivaModel.Aggregator

inductive Rec where
  | rsStart (launch : String) (attempt : Nat)
  | rsEnd (launch : String) (attempt : Nat)
  | pStart (run : String) (canon : List String) (fk : Option (String × Nat)) (ts : Option Nat)
  | pEnd (run : String) (ts : Option Nat)
  | ser (run node status : String) (ts fin : Option Nat)
  | other
  deriving Repr, DecidableEq, Inhabited

def minOpt : Option Nat → Option Nat → Option Nat
  | none, b => b
  | a, none => a
  | some a, some b => some (if b < a then b else a)

def maxOpt : Option Nat → Option Nat → Option Nat
  | none, b => b
  | a, none => a
  | some a, some b => some (if b > a then b else a)

structure RunState where
  sawStart : Bool := false
  sawEnd : Bool := false
  canon : List String := []
  startTs : Option Nat := none
  endTs : Option Nat := none
  serMin : Option Nat := none
  serMax : Option Nat := none
  node : String → Option String := fun _ => none     -- node id ↦ last status
  seen : List String := []                             -- node ids in arrival order (with repeats)

def stepRun (r : String) (s : RunState) : Rec → RunState
  | .pStart r' canon _ ts =>
    if r' = r then { s with sawStart := true, canon := canon, startTs := minOpt s.startTs ts } else s
  | .pEnd r' ts =>
    if r' = r then { s with sawEnd := true, endTs := maxOpt s.endTs ts } else s
  | .ser r' n st ts fin =>
    if r' = r then
      { s with node := fun m => if m = n then some st else s.node m,
               seen := n :: s.seen,
               serMin := minOpt s.serMin ts,
               serMax := maxOpt (maxOpt s.serMax ts) fin }
    else s
  | _ => s

def aggRun (r : String) (rs : List Rec) : RunState := rs.foldl (stepRun r) {}

/-! ### Sorted, duplicate-free lists of strings (Python's `sorted(set(...))`) -/

def sinsert (x : String) : List String → List String
  | [] => [x]
  | y :: ys => if x < y then x :: y :: ys else if x = y then y :: ys else y :: sinsert x ys

def ssort (xs : List String) : List String := xs.foldr sinsert []

/-! ### Verdicts -/

inductive Status | complete | part | invalid
  deriving Repr, DecidableEq, Inhabited

/-- Status rule of a run: indexed by (saw start, saw end, any node observed). -/
abbrev RunTable := List ((Bool × Bool × Bool) × Status)
/-- Status rule of a launch: (saw start, saw end, any run, some run not complete). -/
abbrev LaunchTable := List ((Bool × Bool × Bool × Bool) × Status)

structure RunVerdict where
  known : Bool
  status : Status
  problems : List String
  missing : List String
  orphan : List String
  nonterminal : List String
  deriving Repr, DecidableEq, Inhabited

/-- Timestamps after the fallback synthesis `finalize_run` performs when an edge is missing. -/
def finalTs (s : RunState) : Option Nat × Option Nat :=
  if s.startTs.isNone || s.endTs.isNone then (minOpt s.startTs s.serMin, maxOpt s.endTs s.serMax)
  else (s.startTs, s.endTs)

/-- `finalize_run` also stores the synthesised timestamps back into the aggregate. -/
def finalizeState (s : RunState) : RunState :=
  { s with startTs := (finalTs s).1, endTs := (finalTs s).2 }

def startGtEnd (s : RunState) : Bool :=
  match finalTs s with
  | (some a, some b) => decide (a > b)
  | _ => false

def runKnown (s : RunState) : Bool := s.sawStart || s.sawEnd || !s.seen.isEmpty

def runVerdictOf (tbl : RunTable) (terminal : List String) (s : RunState) : RunVerdict :=
  if !runKnown s then
    { known := false, status := .invalid, problems := ["unknown_run"], missing := [], orphan := [], nonterminal := [] }
  else
    let observed := ssort s.seen
    let expected := ssort s.canon
    { known := true,
      status := (tbl.lookup (s.sawStart, s.sawEnd, !observed.isEmpty)).getD .invalid,
      problems := (if s.sawStart then [] else ["missing_pipeline_start"])
                  ++ (if s.sawEnd then [] else ["missing_pipeline_end"])
                  ++ (if startGtEnd s then ["start_time_gt_end_time"] else []),
      missing := if expected.isEmpty then [] else expected.filter (fun n => !observed.contains n),
      orphan := if expected.isEmpty then [] else observed.filter (fun n => !expected.contains n),
      nonterminal := observed.filter (fun n => match s.node n with
                                               | some st => !terminal.contains st
                                               | none => true) }

def runVerdict (tbl : RunTable) (terminal : List String) (r : String) (rs : List Rec) : RunVerdict :=
  runVerdictOf tbl terminal (aggRun r rs)

/-! ### Launches -/

structure LaunchState where
  sawStart : Bool := false
  sawEnd : Bool := false
  exists_ : Bool := false
  runs : List String := []

def stepLaunch (k : String × Nat) (s : LaunchState) : Rec → LaunchState
  | .rsStart l a => if (l, a) = k then { s with sawStart := true, exists_ := true } else s
  | .rsEnd l a => if (l, a) = k then { s with sawEnd := true, exists_ := true } else s
  | .pStart r _ (some fk) _ => if fk = k then { s with exists_ := true, runs := r :: s.runs } else s
  | _ => s

def aggLaunch (k : String × Nat) (rs : List Rec) : LaunchState := rs.foldl (stepLaunch k) {}

structure LaunchVerdict where
  known : Bool
  status : Status
  problems : List String
  runsTotal : Nat
  nComplete : Nat
  nPartial : Nat
  nInvalid : Nat
  deriving Repr, DecidableEq, Inhabited

def countStatus (st : Status) (vs : List Status) : Nat := (vs.filter (· == st)).length

def launchVerdict (rtbl : RunTable) (ltbl : LaunchTable) (terminal : List String)
    (k : String × Nat) (rs : List Rec) : LaunchVerdict :=
  let s := aggLaunch k rs
  if !s.exists_ then
    { known := false, status := .invalid, problems := ["unknown_launch"], runsTotal := 0, nComplete := 0, nPartial := 0, nInvalid := 0 }
  else
    let runs := ssort s.runs
    let sts := runs.map (fun r => (runVerdict rtbl terminal r rs).status)
    let nC := countStatus .complete sts
    let nP := countStatus .part sts
    let nI := countStatus .invalid sts
    { known := true,
      status := (ltbl.lookup (s.sawStart, s.sawEnd, !runs.isEmpty, decide (nP + nI > 0))).getD .invalid,
      problems := (if s.sawStart then [] else ["missing_run_space_start"])
                  ++ (if s.sawEnd then [] else ["missing_run_space_end"]),
      runsTotal := runs.length, nComplete := nC, nPartial := nP, nInvalid := nI }

/-! ### Side conditions on the generated tables (the documented verdict rules) -/

def runTableOK (t : RunTable) : Bool :=
  [true, false].all (fun n =>
    t.lookup (true, true, n) == some .complete
    && t.lookup (true, false, n) == some .part
    && t.lookup (false, true, n) == some .part)
  && t.lookup (false, false, false) == some .invalid
  && t.lookup (false, false, true) != some .complete
  && t.lookup (false, false, true) != none

def launchTableOK (t : LaunchTable) : Bool :=
  -- both edges: complete exactly when no run is partial/invalid ((no runs, some run bad) is unreachable)
  t.lookup (true, true, true, false) == some .complete && t.lookup (true, true, false, false) == some .complete
  && t.lookup (true, true, true, true) == some .part
  -- start only: partial
  && t.lookup (true, false, true, false) == some .part && t.lookup (true, false, true, true) == some .part
  && t.lookup (true, false, false, false) == some .part
  -- nothing complete without the start edge
  && [true, false].all (fun e => [true, false].all (fun r => [true, false].all (fun b =>
        t.lookup (false, e, r, b) != some .complete && t.lookup (false, e, r, b) != none)))

def terminalOK (terminal candidates : List String) : Bool :=
  candidates.all (fun c => terminal.contains c == ["succeeded", "error", "skipped", "cancelled"].contains c)

end SemantivaModel.Aggregator
