/-
Model of `semantiva/utils/safe_eval.py : _SafeVisitor` (property C11).

A Python AST is a `Tree`: a node kind (the class name), an optional identifier
(`Name.id`; `keyword.arg` is irrelevant) and named fields holding child nodes.
Only AST-valued children are represented (strings, numbers and `None` leaves of
the concrete AST are not nodes and are never visited by `ast.NodeVisitor`).

The visitor is described by a `Policy`, a finite table that the translator
(`translate/c11.py`) regenerates from the real `_SafeVisitor` on every run:

* `kinds`   – node kinds that the visitor lets through when it reaches them,
* `funcs`   – identifiers accepted as direct call targets,
* `rules`   – for every (kind, field): what the visitor does with that child position,
* `nameChecked` – whether a `Name` that is reached is tested against the declared variables.

No imports: this file is part of the compiled driver.
-/
namespace SemantivaModel.SafeEval

inductive Tree where
  | node (kind : String) (ident : Option String) (fields : List (String × List Tree))
  deriving Repr, Inhabited

namespace Tree
def kind : Tree → String | node k _ _ => k
def ident : Tree → Option String | node _ i _ => i
def fields : Tree → List (String × List Tree) | node _ _ fs => fs
end Tree

/-- What the visitor does with one child position. -/
inductive Rule where
  | visited      -- every child in this field is itself visited
  | ignored      -- children are not looked at
  | mustBeEmpty  -- any child in this field makes the visitor reject
  deriving Repr, DecidableEq, Inhabited

structure Policy where
  kinds : List String
  funcs : List String
  rules : List ((String × String) × Rule)
  nameChecked : Bool
  deriving Repr, Inhabited

def Policy.rule (P : Policy) (kind field : String) : Rule :=
  match P.rules.lookup (kind, field) with
  | some r => r
  | none => .ignored      -- a position the translator could not classify is treated as unvisited

/-- Is `t` a `Name` node whose identifier is one of `fs`? (the shape `visit_Call` demands of `func`) -/
def isDirectCallTarget (fs : List String) (t : Tree) : Bool :=
  match t with
  | .node "Name" (some f) _ => fs.contains f
  | _ => false

mutual
/-- Does the visitor described by `P` accept `t`, given the declared variable names? -/
def accepts (P : Policy) (names : List String) : Tree → Bool
  | .node kind ident fields =>
    if kind = "Name" then
      P.kinds.contains "Name" && (!P.nameChecked || (match ident with | some x => names.contains x | none => false))
    else if kind = "Call" then
      P.kinds.contains "Call" && acceptsCallFields P names fields
    else
      P.kinds.contains kind && acceptsFields P names kind fields

def acceptsFields (P : Policy) (names : List String) (kind : String) : List (String × List Tree) → Bool
  | [] => true
  | (f, cs) :: rest =>
    (match P.rule kind f with
     | .visited => acceptsList P names cs
     | .ignored => true
     | .mustBeEmpty => cs.isEmpty)
    && acceptsFields P names kind rest

/-- Fields of a `Call`: `func` must be one direct whitelisted name; the rest follow the table. -/
def acceptsCallFields (P : Policy) (names : List String) : List (String × List Tree) → Bool
  | [] => true
  | (f, cs) :: rest =>
    (if f = "func" then
       (match cs with
        | [c] => isDirectCallTarget P.funcs c
        | _ => false)
     else
       match P.rule "Call" f with
       | .visited => acceptsList P names cs
       | .ignored => true
       | .mustBeEmpty => cs.isEmpty)
    && acceptsCallFields P names rest

def acceptsList (P : Policy) (names : List String) : List Tree → Bool
  | [] => true
  | c :: cs => accepts P names c && acceptsList P names cs
end

/-! ### Specification side (independent of the policy) -/

/-- The documented whitelist of syntactic elements (wrappers, expression forms, operators). -/
def specKinds : List String :=
  ["Expression", "Module", "Expr", "Load",
   "BinOp", "UnaryOp", "BoolOp", "Compare", "IfExp", "Call", "Name", "Constant", "Tuple",
   "Add", "Sub", "Mult", "Div", "FloorDiv", "Mod", "Pow", "USub", "UAdd", "And", "Or",
   "Eq", "NotEq", "Lt", "LtE", "Gt", "GtE"]

/-- `keyword` is the carrier of a keyword argument, not a syntactic element of its own: a policy
    may let it through provided what it carries is visited. -/
def carrierKinds : List String := ["keyword"]

/-- The documented callable whitelist. -/
def specFuncs : List String := ["abs", "min", "max", "round", "float", "int", "str", "bool"]

mutual
/-- `Confined names t`: every node of `t`, at any depth and in any position, is a whitelisted
    element; every `Name` is a declared variable; every `Call` is a direct call of a whitelisted
    function. This is the statement of C11, written without reference to any visitor. -/
def confined (names : List String) : Tree → Bool
  | .node kind ident fields =>
    if kind = "Name" then
      (match ident with | some x => names.contains x | none => false)
    else if kind = "Call" then
      confinedCallFields names fields
    else
      (specKinds.contains kind || carrierKinds.contains kind) && confinedFields names fields

def confinedFields (names : List String) : List (String × List Tree) → Bool
  | [] => true
  | (_, cs) :: rest => confinedList names cs && confinedFields names rest

def confinedCallFields (names : List String) : List (String × List Tree) → Bool
  | [] => true
  | (f, cs) :: rest =>
    (if f = "func" then
       (match cs with
        | [c] => isDirectCallTarget specFuncs c
        | _ => false)
     else confinedList names cs)
    && confinedCallFields names rest

def confinedList (names : List String) : List Tree → Bool
  | [] => true
  | c :: cs => confined names c && confinedList names cs
end

/-- Grammar of the running interpreter: for each node kind, its AST-valued field names. -/
abbrev Grammar := List (String × List String)

def Grammar.fieldsOf (G : Grammar) (kind : String) : List String :=
  (G.lookup kind).getD []

mutual
/-- `t` only uses fields the grammar gives its kind (true of every tree `ast.parse` returns). -/
def wellFormed (G : Grammar) : Tree → Bool
  | .node kind _ fields => wellFormedFields G kind fields

def wellFormedFields (G : Grammar) (kind : String) : List (String × List Tree) → Bool
  | [] => true
  | (f, cs) :: rest => (G.fieldsOf kind).contains f && wellFormedList G cs && wellFormedFields G kind rest

def wellFormedList (G : Grammar) : List Tree → Bool
  | [] => true
  | c :: cs => wellFormed G c && wellFormedList G cs
end

/-- The decidable side condition on a policy: it lets through only documented kinds and
    functions, checks names, and visits (or forbids) every child position the grammar gives to a
    kind it lets through. -/
def Policy.total (P : Policy) (G : Grammar) : Bool :=
  P.nameChecked
  && P.kinds.all (fun k => specKinds.contains k || carrierKinds.contains k)
  && P.funcs.all (fun f => specFuncs.contains f)
  && P.kinds.all (fun k =>
      (G.fieldsOf k).all (fun f =>
        (k == "Call" && f == "func") || (k == "Name") || P.rule k f != .ignored))

/-- Positions that break `total`, for the failing-input search. -/
def Policy.holes (P : Policy) (G : Grammar) : List (String × String) :=
  (P.kinds.filter (fun k => !(specKinds.contains k || carrierKinds.contains k))).map (fun k => (k, "<kind>"))
  ++ (P.funcs.filter (fun f => !specFuncs.contains f)).map (fun f => ("Call", "<func " ++ f ++ ">"))
  ++ (if P.nameChecked then [] else [("Name", "<unchecked>")])
  ++ (P.kinds.flatMap (fun k => ((G.fieldsOf k).filter (fun f =>
        !((k == "Call" && f == "func") || (k == "Name") || P.rule k f != .ignored))).map (fun f => (k, f))))

end SemantivaModel.SafeEval
