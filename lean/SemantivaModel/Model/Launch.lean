import SemantivaModel.Model.Json
/-
Run-space launches (property C09).
  * the launch loop of `semantiva run` (cli `_run`), parametric in its lexical shape (re-extracted from
    the source on every run): run_space_start, one pipeline run per planned context in plan order until the
    first failure, run_space_end with planned / completed counts;
  * the pre-images of the run-space identifiers: RSCF v1 spec id over the *parsed* configuration,
    RSM v1 inputs id over the file fingerprints, launch id from an idempotency key.
Part of the compiled driver.
-/
namespace SemantivaModel.Launch
open SemantivaModel.Json

/-! ### The launch loop -/

structure LaunchShape where
  startBeforeLoop : Bool      -- emit_start is called before the try that contains the loop
  loopInTry : Bool            -- the loop over the planned runs is the body of a try …
  endInFinally : Bool         -- … whose finally emits run_space_end
  countAfterProcess : Bool    -- runs_completed is incremented after pipeline.process returned
  zeroBased : Bool            -- the index passed on is enumerate()'s, starting at 0
  handlersSwallow : Bool      -- the handlers turn the failure into an exit code (no re-raise past the finally)
  deriving Repr, DecidableEq, Inhabited

def LaunchShape.good (sh : LaunchShape) : Bool :=
  sh.startBeforeLoop && sh.loopInTry && sh.endInFinally && sh.countAfterProcess && sh.zeroBased && sh.handlersSwallow

inductive Ev where
  | rsStart (planned : Nat)
  | run (index : Nat) (ok : Bool)                       -- the bracket pipeline_start … pipeline_end of one run
  | rsEnd (planned completed : Nat) (failed : Bool)
  deriving Repr, DecidableEq, Inhabited

/-- The loop from position `i` with `completed` runs so far: (events, completed, failed). -/
def loop (sh : LaunchShape) : List Bool → Nat → Nat → List Ev × Nat × Bool
  | [], _, completed => ([], completed, false)
  | ok :: rest, i, completed =>
    let ev := Ev.run (if sh.zeroBased then i else i + 1) ok
    if ok then
      let r := loop sh rest (i + 1) (completed + 1)
      (ev :: r.1, r.2.1, r.2.2)
    else ([ev], (if sh.countAfterProcess then completed else completed + 1), true)

def runLaunch (sh : LaunchShape) (outcomes : List Bool) : List Ev :=
  let n := outcomes.length
  let r := loop sh outcomes 0 0
  (if sh.startBeforeLoop then [Ev.rsStart n] else [])
    ++ r.1
    ++ (if r.2.2 && !(sh.loopInTry && sh.endInFinally) then [] else [Ev.rsEnd n r.2.1 r.2.2])

/-- The documented stream: runs 0,1,… in plan order up to and including the first failing one. -/
def expectedRuns : List Bool → Nat → List Ev
  | [], _ => []
  | ok :: rest, i => Ev.run i ok :: (if ok then expectedRuns rest (i + 1) else [])

/-- number of runs that completed: the successes before the first failure -/
def completedOf : List Bool → Nat
  | [] => 0
  | ok :: rest => if ok then completedOf rest + 1 else 0

def expected (outcomes : List Bool) : List Ev :=
  Ev.rsStart outcomes.length :: expectedRuns outcomes 0
    ++ [Ev.rsEnd outcomes.length (completedOf outcomes) (outcomes.any (!·))]

/-! ### Identifier pre-images -/

structure SourceCfg where
  format : String
  path : String
  select : Option (List String)
  rename : Members                  -- string ↦ string
  mode : String
  deriving Repr, Inhabited

structure BlockCfg where
  mode : String
  context : Members                 -- key ↦ array of values
  source : Option SourceCfg
  deriving Repr, Inhabited

structure RSCfg where
  combine : String
  maxRuns : Nat
  dryRun : Bool
  blocks : List BlockCfg
  deriving Repr, Inhabited

def jbool (b : Bool) : J := .atom (if b then "true" else "false")

def sourceTree (s : SourceCfg) : J :=
  .obj [("format", str s.format), ("path", str s.path),
        ("select", match s.select with | some l => .arr (l.map str) | none => jnull),
        ("rename", .obj s.rename), ("mode", str s.mode)]

def blockTree (b : BlockCfg) : J :=
  .obj [("mode", str b.mode), ("context", .obj b.context),
        ("source", match b.source with | some s => sourceTree s | none => jnull)]

/-- `asdict(RunSpaceV1Config)`: the tree both the runtime and (when `inspectUsesParsed`) inspection hash. -/
def specTree (c : RSCfg) : J :=
  .obj [("combine", str c.combine), ("max_runs", num c.maxRuns), ("dry_run", jbool c.dryRun),
        ("blocks", .arr (c.blocks.map blockTree))]

def specPre (c : RSCfg) : String := "semantiva:rscf1:" ++ canonical (specTree c)

/-- What inspection hashes: the parsed configuration if the code does so, else the raw block as written. -/
def inspectPre (usesParsed : Bool) (raw : J) (parsed : RSCfg) : String :=
  if usesParsed then specPre parsed else "semantiva:rscf1:" ++ canonical raw

structure Fingerprint where
  role : String
  uri : String
  sha256 : String
  size : Nat
  deriving Repr, Inhabited

def fpTree (f : Fingerprint) : J :=
  .obj [("role", str f.role), ("uri", str f.uri), ("sha256", str f.sha256), ("size_bytes", num f.size)]

def fpInsert (x : Fingerprint) : List Fingerprint → List Fingerprint
  | [] => [x]
  | y :: ys => if x.role < y.role || (x.role == y.role && x.uri ≤ y.uri) then x :: y :: ys else y :: fpInsert x ys

def fpSort (fs : List Fingerprint) : List Fingerprint := fs.foldr fpInsert []

def inputsTree (specId : String) (fs : List Fingerprint) : J :=
  .obj [("spec_id", str specId), ("inputs", .arr ((fpSort fs).map fpTree))]

/-- json.dumps without sort_keys: members in construction order. -/
def inputsPre (specId : String) (fs : List Fingerprint) : String :=
  "semantiva:rsm1:" ++ serialize (inputsTree specId fs)

def launchPre (basis key : String) : String := "semantiva:rsl1:" ++ basis ++ ":" ++ key

end SemantivaModel.Launch
