/-
Model of the traced-run lifecycle of `SemantivaOrchestrator.execute` (properties C06, C10):
the template method written once, every structural choice read from a `LifecycleShape` that the
translator regenerates from the source on every run (`Generated.C06.shape`).

A run is driven by a fault `Plan`: whether constructing the nodes raises, and for each node whether
it returns or raises, with the *class* of what is raised (`Exception`-class, or a
`BaseException`-class abort such as `KeyboardInterrupt`).

No imports: part of the compiled driver.
-/
namespace SemantivaModel.Trace

inductive ExcClass | exception | base
  deriving Repr, DecidableEq, Inhabited

structure LifecycleShape where
  startBeforeConstruct : Bool   -- `on_pipeline_start` precedes `_instantiate_nodes`
  constructProtected : Bool     -- `_instantiate_nodes` is inside the try whose handler emits `pipeline_end` and whose finally closes
  nodeCatchesBase : Bool        -- the per-node handler also catches BaseException-class aborts
  pipeCatchesBase : Bool        -- the pipeline-level handler also catches BaseException-class aborts
  serOnSuccess : Bool           -- a SER is emitted after a node returns
  serOnError : Bool             -- a SER (status error) is emitted in the per-node handler
  nodeReraises : Bool           -- the per-node handler re-raises
  pipeReraises : Bool           -- the pipeline-level handler re-raises
  endOkAfterLoop : Bool         -- `pipeline_end` (ok) after the node loop
  endErrInHandler : Bool        -- `pipeline_end` (error) in the pipeline-level handler
  closeInFinally : Bool         -- flush/close in `finally`
  deriving Repr, DecidableEq, Inhabited

def LifecycleShape.good (sh : LifecycleShape) : Bool :=
  sh.startBeforeConstruct && sh.constructProtected && sh.nodeCatchesBase && sh.pipeCatchesBase && sh.serOnSuccess
    && sh.serOnError && sh.nodeReraises && sh.pipeReraises && sh.endOkAfterLoop && sh.endErrInHandler && sh.closeInFinally

structure Plan where
  construct : Option ExcClass := none          -- node construction raises
  nodes : List (Option ExcClass)               -- per node: `none` returns, `some c` raises an exception of class c
  deriving Repr, Inhabited

inductive Ev where
  | start
  | ser (node : Nat) (ok : Bool)
  | end_ (ok : Bool)
  deriving Repr, DecidableEq, Inhabited

structure Result where
  events : List Ev
  closed : Bool                       -- the trace driver was flushed and closed
  raised : Option ExcClass            -- what reaches the caller (`none` = the call returned)
  ran : Nat                           -- number of nodes whose execution started
  deriving Repr, DecidableEq, Inhabited

def catches (handlerCatchesBase : Bool) : ExcClass → Bool
  | .exception => true
  | .base => handlerCatchesBase

/-- The node loop from node `i` on. Returns (events, exception in flight, nodes started). -/
def loop (sh : LifecycleShape) : List (Option ExcClass) → Nat → List Ev × Option ExcClass × Nat
  | [], _ => ([], none, 0)
  | none :: rest, i =>
    let (evs, exc, k) := loop sh rest (i + 1)
    ((if sh.serOnSuccess then [Ev.ser i true] else []) ++ evs, exc, k + 1)
  | some c :: rest, i =>
    if catches sh.nodeCatchesBase c then
      let here := if sh.serOnError then [Ev.ser i false] else []
      if sh.nodeReraises then (here, some c, 1)
      else
        -- a handler that swallows lets the loop continue with the next node
        let (evs, exc, k) := loop sh rest (i + 1)
        (here ++ evs, exc, k + 1)
    else ([], some c, 1)

/-- The part of `execute` that sits inside the pipeline-level try: construction (when protected) and the loop. -/
def protectedBody (sh : LifecycleShape) (p : Plan) : List Ev × Option ExcClass × Nat :=
  match (if sh.constructProtected then p.construct else none) with
  | some c => ([], some c, 0)
  | none =>
    let (evs, exc, k) := loop sh p.nodes 0
    match exc with
    | some c => (evs, some c, k)
    | none => (evs ++ (if sh.endOkAfterLoop then [Ev.end_ true] else []), none, k)

def runTraced (sh : LifecycleShape) (p : Plan) : Result :=
  let startEv := [Ev.start]
  -- construction outside the protected region: nothing after the start is emitted, nothing is closed
  match (if sh.constructProtected then none else p.construct) with
  | some c =>
    { events := if sh.startBeforeConstruct then startEv else [], closed := false, raised := some c, ran := 0 }
  | none =>
    let (evs, exc, k) := protectedBody sh p
    match exc with
    | none => { events := startEv ++ evs, closed := sh.closeInFinally, raised := none, ran := k }
    | some c =>
      if catches sh.pipeCatchesBase c then
        { events := startEv ++ evs ++ (if sh.endErrInHandler then [Ev.end_ false] else []),
          closed := sh.closeInFinally,
          raised := if sh.pipeReraises then some c else none, ran := k }
      else { events := startEv ++ evs, closed := sh.closeInFinally, raised := some c, ran := k }

/-! ### The documented stream -/

/-- Index of the first failing node, if any. -/
def firstFailure : List (Option ExcClass) → Nat → Option (Nat × ExcClass)
  | [], _ => none
  | none :: rest, i => firstFailure rest (i + 1)
  | some c :: _, i => some (i, c)

/-- What the property prescribes for a plan: `pipeline_start`, one SER per node that started (all
    succeeded but a final failing one), exactly one `pipeline_end` saying ok iff the run returned; the
    original exception reaches the caller; the driver is closed. -/
def expected (p : Plan) : Result :=
  match p.construct with
  | some c => { events := [.start, .end_ false], closed := true, raised := some c, ran := 0 }
  | none =>
    match firstFailure p.nodes 0 with
    | none =>
      { events := [.start] ++ (List.range p.nodes.length).map (fun i => Ev.ser i true) ++ [.end_ true],
        closed := true, raised := none, ran := p.nodes.length }
    | some (j, c) =>
      { events := [.start] ++ (List.range j).map (fun i => Ev.ser i true) ++ [.ser j false, .end_ false],
        closed := true, raised := some c, ran := j + 1 }

/-! ### A failure *between* nodes: publishing a node's output raises

After node `k` returned (its SER written) the orchestrator forwards the output through its transport; that call may raise
(a remote transport that drops).  Where the call sits decides what the trace looks like: after the per-node `try` the
exception goes straight to the pipeline-level handler; inside it the per-node handler sees a node that already reported. -/

/-- Nodes `0 … k` return, then publishing node `k`'s output raises an exception of class `c`.
    `publishOutside`: the publish call sits after the per-node try (and inside the pipeline-level one). -/
def runPublishFault (sh : LifecycleShape) (publishOutside : Bool) (k : Nat) (c : ExcClass) : Result :=
  let oks := (List.range (k + 1)).map (fun i => Ev.ser i true)
  let body : List Ev × Option ExcClass :=
    if publishOutside then ((if sh.serOnSuccess then oks else []), some c)
    else if catches sh.nodeCatchesBase c then
      -- the per-node handler runs for a node whose success record is already written
      ((if sh.serOnSuccess then oks else []) ++ (if sh.serOnError then [Ev.ser k false] else []), if sh.nodeReraises then some c else none)
    else ((if sh.serOnSuccess then oks else []), some c)
  match body.2 with
  | none => { events := [Ev.start] ++ body.1 ++ (if sh.endOkAfterLoop then [Ev.end_ true] else []), closed := sh.closeInFinally, raised := none, ran := k + 1 }
  | some c' =>
    if catches sh.pipeCatchesBase c' then
      { events := [Ev.start] ++ body.1 ++ (if sh.endErrInHandler then [Ev.end_ false] else []), closed := sh.closeInFinally,
        raised := if sh.pipeReraises then some c' else none, ran := k + 1 }
    else { events := [Ev.start] ++ body.1, closed := sh.closeInFinally, raised := some c', ran := k + 1 }

/-- The documented stream for that failure: every started node has exactly one SER — it succeeded — and the run ends in error. -/
def expectedPublishFault (k : Nat) (c : ExcClass) : Result :=
  { events := [Ev.start] ++ (List.range (k + 1)).map (fun i => Ev.ser i true) ++ [Ev.end_ false], closed := true, raised := some c, ran := k + 1 }

end SemantivaModel.Trace
