/-
Model of `semantiva/execution/run_space.py : expand_run_space` (property C08).

Values are opaque tokens (`String`, the canonical JSON text of the value); a run is an ordered
list of (key, value) (the insertion order of the Python dict).  File parsing is outside the model:
a source enters as the columns the file holds, and the model applies `select` and `rename`.

`plan` performs every validation and computes block sizes *arithmetically*; `expand` checks the
cap on the planned total before it materialises anything.

No imports: part of the compiled driver.
-/
namespace SemantivaModel.RunSpace

abbrev Val := String
abbrev Cols := List (String × List Val)
abbrev Run := List (String × Val)

inductive Mode | byPos | comb
  deriving Repr, DecidableEq, Inhabited

inductive Err
  | mismatch          -- unequal list lengths / run counts where positions must align
  | dupWithin         -- a key in both context and source of one block
  | dupAcross         -- a key in two blocks
  | renameCollision
  | missingColumn
  | maxRuns (actual : Nat)
  deriving Repr, DecidableEq, Inhabited

structure Source where
  mode : Mode
  cols : Cols                          -- columns as loaded from the file
  select : Option (List String)
  rename : List (String × String)
  deriving Repr, Inhabited

structure Block where
  mode : Mode
  context : Cols
  source : Option Source
  deriving Repr, Inhabited

structure Spec where
  blocks : List Block
  combine : Mode
  maxRuns : Nat
  deriving Repr, Inhabited

/-! ### sorted keys -/

def insertCol (x : String × List Val) : Cols → Cols
  | [] => [x]
  | y :: ys => if x.1 ≤ y.1 then x :: y :: ys else y :: insertCol x ys

/-- Columns in `sorted(key)` order. -/
def sortCols (c : Cols) : Cols := c.foldr insertCol []

/-! ### select / rename -/

def applySelect (cols : Cols) : Option (List String) → Except Err Cols
  | none => pure cols
  | some keys =>
    if keys.all (fun k => (cols.lookup k).isSome) then
      pure (keys.filterMap (fun k => (cols.lookup k).map (fun vs => (k, vs))))
    else throw .missingColumn

def applyRename (cols : Cols) (ren : List (String × String)) : Except Err Cols :=
  cols.foldlM (fun (acc : Cols) (kv : String × List Val) =>
    let target := (ren.lookup kv.1).getD kv.1
    if (acc.lookup target).isSome then throw Err.renameCollision else pure (acc ++ [(target, kv.2)])) []

def loadSource (s : Source) : Except Err Cols := do
  let c ← applySelect s.cols s.select
  if s.rename.isEmpty then pure c else applyRename c s.rename

/-! ### expansion of one columnar mapping -/

/-- Cartesian product over the columns in the given order: first column slowest, last fastest. -/
def expandComb : Cols → List Run
  | [] => [[]]
  | (k, vs) :: rest => vs.flatMap (fun v => (expandComb rest).map (fun r => (k, v) :: r))

def combSize : Cols → Nat
  | [] => 1
  | (_, vs) :: rest => vs.length * combSize rest

def posRun (c : Cols) (i : Nat) : Run := c.map (fun kv => (kv.1, kv.2.getD i ""))

/-- Aligned positions: all columns must have one length `n`; run `i` takes position `i` of each. -/
def posSize : Cols → Except Err Nat
  | [] => pure 0
  | (_, vs) :: rest => if rest.all (fun kv => kv.2.length == vs.length) then pure vs.length else throw .mismatch

def expandPosN (c : Cols) (n : Nat) : List Run := (List.range n).map (posRun c)

def entriesSize (c : Cols) (m : Mode) : Except Err Nat :=
  match m with
  | .byPos => posSize (sortCols c)
  | .comb => pure (combSize (sortCols c))

/-- `_expand_entries` for a non-empty mapping (sizes already validated by `entriesSize`). -/
def expandEntries (c : Cols) (m : Mode) : List Run :=
  match m with
  | .byPos => match posSize (sortCols c) with
    | .ok n => expandPosN (sortCols c) n
    | .error _ => []
  | .comb => expandComb (sortCols c)

/-! ### blocks -/

structure BlockPlan where
  ctx : Cols
  src : Cols
  srcMode : Mode
  size : Nat
  deriving Repr, Inhabited

def keysOf (c : Cols) : List String := c.map (·.1)

def loadSrc (b : Block) : Except Err Cols :=
  match b.source with
  | none => .ok []
  | some s => loadSource s

def srcModeOf (b : Block) : Mode :=
  match b.source with
  | some s => s.mode
  | none => b.mode

/-- Size of an aligned block: context and source (when present) must give the same run count. -/
def posPlan (ctx src : Cols) (srcMode : Mode) : Except Err Nat :=
  match ctx.isEmpty, src.isEmpty with
  | true, true => .ok 0
  | false, true => entriesSize ctx .byPos
  | true, false => entriesSize src srcMode
  | false, false =>
    match entriesSize ctx .byPos with
    | .error e => .error e
    | .ok a =>
      match entriesSize src srcMode with
      | .error e => .error e
      | .ok c => if a = c then .ok a else .error .mismatch

/-- Size of a product block: (context product) × (source runs). -/
def combPlan (ctx src : Cols) (srcMode : Mode) : Except Err Nat :=
  match (if ctx.isEmpty then Except.ok 1 else entriesSize ctx .comb) with
  | .error e => .error e
  | .ok a =>
    match (if src.isEmpty then Except.ok 1 else entriesSize src srcMode) with
    | .error e => .error e
    | .ok c => .ok (a * c)

def blockSize (mode : Mode) (ctx src : Cols) (srcMode : Mode) : Except Err Nat :=
  match mode with
  | .byPos => posPlan ctx src srcMode
  | .comb => combPlan ctx src srcMode

/-- Validation and arithmetic size of one block (nothing is materialised). -/
def planBlock (b : Block) : Except Err BlockPlan :=
  match loadSrc b with
  | .error e => .error e
  | .ok src =>
    if (keysOf b.context).any (fun k => (keysOf src).contains k) then .error .dupWithin
    else
      match blockSize b.mode b.context src (srcModeOf b) with
      | .error e => .error e
      | .ok n => .ok ⟨b.context, src, srcModeOf b, n⟩

def zipRuns : List Run → List Run → List Run
  | a :: as, b :: bs => (a ++ b) :: zipRuns as bs
  | _, _ => []

def crossRuns (xs ys : List Run) : List Run := xs.flatMap (fun x => ys.map (fun y => x ++ y))

/-- Runs of one planned block. -/
def blockRuns (mode : Mode) (p : BlockPlan) : List Run :=
  match mode with
  | .byPos =>
    match p.ctx.isEmpty, p.src.isEmpty with
    | false, false => zipRuns (expandEntries p.ctx .byPos) (expandEntries p.src p.srcMode)
    | false, true => expandEntries p.ctx .byPos
    | true, false => expandEntries p.src p.srcMode
    | true, true => []
  | .comb =>
    crossRuns (if p.ctx.isEmpty then [[]] else expandEntries p.ctx .comb)
              (if p.src.isEmpty then [[]] else expandEntries p.src p.srcMode)

/-! ### the whole specification -/

def planBlocks : List Block → List String → Except Err (List (Mode × BlockPlan))
  | [], _ => pure []
  | b :: bs, seen => do
    let p ← planBlock b
    let keys := keysOf p.ctx ++ keysOf p.src
    if keys.any (fun k => seen.contains k) then throw .dupAcross
    let rest ← planBlocks bs (seen ++ keys)
    pure ((b.mode, p) :: rest)

/-- Planned number of runs, from block sizes alone. -/
def total (combine : Mode) (sizes : List Nat) : Except Err Nat :=
  match sizes with
  | [] => pure 1                       -- no blocks: the single empty run
  | s :: rest =>
    match combine with
    | .comb => pure ((s :: rest).foldl (· * ·) 1)
    | .byPos => if rest.all (· == s) then pure s else throw .mismatch

def combineRuns (combine : Mode) : List (List Run) → List Run
  | [] => [[]]
  | rs :: rest =>
    match combine with
    | .comb => rest.foldl crossRuns rs
    | .byPos => rest.foldl zipRuns rs

instance : DecidableEq (Except Err (List Run)) := fun a b =>
  match a, b with
  | .ok x, .ok y => if h : x = y then isTrue (by rw [h]) else isFalse (by intro e; injection e with e; exact h e)
  | .error x, .error y => if h : x = y then isTrue (by rw [h]) else isFalse (by intro e; injection e with e; exact h e)
  | .ok _, .error _ => isFalse (by intro e; cases e)
  | .error _, .ok _ => isFalse (by intro e; cases e)

def expand (s : Spec) : Except Err (List Run) := do
  let plans ← planBlocks s.blocks []
  let n ← total s.combine (plans.map (·.2.size))
  if n > s.maxRuns then throw (.maxRuns n)
  pure (combineRuns s.combine (plans.map (fun mp => blockRuns mp.1 mp.2)))

end SemantivaModel.RunSpace
