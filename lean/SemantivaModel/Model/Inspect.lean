import SemantivaModel.Model.Exec
/-
Reference flow analysis (property C02): what `build_pipeline_inspection` + `validate_pipeline`
must compute for their verdict to be sound — one forward pass tracking, in execution order,
the keys certainly present, the keys deleted and not re-created, and the static data type.

Part of the compiled driver (no imports beyond the Exec model).
-/
namespace SemantivaModel.Inspect
open SemantivaModel.Exec

/-- Context keys a node is declared to create. -/
def createdOf (n : Node) : List String :=
  match n.kind with
  | .rename _ dst => [dst]
  | .template _ out => [out]
  | .payloadSource key _ => [key]
  | .probe => n.contextKey.toList
  | .operation => n.declared
  | _ => []

/-- Context keys a node is declared to suppress. -/
def suppressedOf (n : Node) : List String :=
  match n.kind with
  | .rename src _ => [src]
  | .delete key => [key]
  | _ => []

/-- Keys that must be *in the context* (a configuration value does not help: the key is deleted). -/
def mustBeInContext (n : Node) : List String := suppressedOf n

structure AState where
  known : List String          -- created by an earlier node and not deleted since: certainly present
  gone : List String           -- deleted by an earlier node and not re-created since: certainly absent
  dtype : String               -- static type of the data in flight
  deriving Repr, Inhabited

inductive AErr where
  | construct (e : Err)        -- unknown parameter, probe without context key, …
  | typeMismatch               -- the node does not accept the data type in flight
  | requiresDeleted (k : String)
  deriving Repr, Inhabited

/-- Does the node change the static type of the data in flight? -/
def producesData (n : Node) : Bool :=
  match n.kind with
  | .dataSource | .payloadSource _ _ | .operation => true
  | _ => false

/-- Context keys node `n` needs from the context in state `st` and that no earlier node produced. -/
def neededKeys (n : Node) (st : AState) : List String :=
  let fromParams := (n.params.filter (fun p =>
      (n.config.lookup p.name).isNone && !st.known.contains p.name && p.dflt.isNone)).map (·.name)
  let fromDeletes := (mustBeInContext n).filter (fun k => !st.known.contains k)
  fromParams ++ fromDeletes

def stepA (n : Node) (st : AState) : Except AErr (List String × AState) :=
  match construct n with
  | some e => .error (.construct e)
  | none =>
    if !n.kind.isCtxProc && !typeAccepts n.inT st.dtype then .error .typeMismatch
    else
      let need := neededKeys n st
      match need.find? (fun k => st.gone.contains k) with
      | some k => .error (.requiresDeleted k)
      | none =>
        let created := createdOf n
        let suppressed := suppressedOf n
        .ok (need,
             { known := (st.known ++ created).filter (fun k => !suppressed.contains k),
               gone := (st.gone.filter (fun k => !created.contains k)) ++ suppressed,
               dtype := if producesData n then n.outT else st.dtype })

/-- Whole pipeline: the external requirements (keys the initial context must hold), or the first error. -/
def analyseFrom : List Node → Nat → AState → Except (Nat × AErr) (List String)
  | [], _, _ => .ok []
  | n :: ns, i, st =>
    match stepA n st with
    | .error e => .error (i, e)
    | .ok (need, st') =>
      match analyseFrom ns (i + 1) st' with
      | .error e => .error e
      | .ok rest => .ok (need ++ rest)

def initState (dtype : String) : AState := { known := [], gone := [], dtype := dtype }

def analyse (ns : List Node) (dtype : String := "NoDataType") : Except (Nat × AErr) (List String) :=
  analyseFrom ns 0 (initState dtype)

/-- Library well-formedness the soundness theorem needs: an operation really writes the keys it
    declares (the analysis, like the real inspection, trusts the declaration), and writing slicers —
    which write nothing on an empty collection — are outside the theorem. -/
def nodeWF (n : Node) : Bool :=
  match n.kind with
  | .operation =>
    n.declared.isEmpty ||
      (!n.sliced && (match n.beh with
                     | .termWrite _ key _ => n.declared == [key]
                     | _ => false))
  | _ => true

end SemantivaModel.Inspect
