import SemantivaModel.Model.RunSpace
import SemantivaModel.Model.Exec
import SemantivaModel.Model.ExprSig
/-
Model of `derive.parameter_sweep` nodes (property C03):
`semantiva/data_processors/parametric_sweep_factory.py` (`_iterate_sweep`, `_merge_call_parameters`,
the generated `_get_data` / `_process_logic`, `_publish_created_context`).

Sequence values are tokens (canonical JSON text). Materialising a *range* (numpy linspace/logspace)
is outside the model: ranges enter as the sequence the code published. Step enumeration reuses the
columnar machinery of the run-space model (sorted keys, last key fastest).

Part of the compiled driver.
-/
namespace SemantivaModel.Sweep
open SemantivaModel.RunSpace (Cols Run posSize expandPosN expandComb sortCols)
open SemantivaModel.Exec

/-- Expressions the harness uses: a tuple of variables (an injective encoding of the assignment) or
    an integer expression of the C12 fragment. -/
inductive SExpr where
  | tuple (xs : List String)
  | arith (e : ExprSig.Expr)
  deriving Repr, Inhabited

structure Spec where
  vars : Cols                          -- variable ↦ materialised sequence, in declaration order
  byPos : Bool                         -- mode by_position (else combinatorial)
  broadcast : Bool
  exprs : List (String × SExpr)        -- element parameter ↦ expression over the variables
  deriving Repr, Inhabited

def maxLen : Cols → Nat
  | [] => 0
  | (_, vs) :: rest => max vs.length (maxLen rest)

/-- Step `i` of a broadcast sweep: every variable at position `i` modulo its own length. -/
def cycleRun (c : Cols) (i : Nat) : Run := c.map (fun kv => (kv.1, kv.2.getD (i % kv.2.length) ""))

inductive SErr where
  | unequalLengths
  | expression (param : String)
  | element (e : Err)
  deriving Repr, Inhabited

/-- The documented sequence of variable assignments. -/
def iterate (s : Spec) : Except SErr (List Run) :=
  if s.byPos then
    if s.broadcast then .ok ((List.range (maxLen s.vars)).map (cycleRun s.vars))
    else
      match posSize s.vars with
      | .ok n => .ok (expandPosN s.vars n)
      | .error _ => .error .unequalLengths
  else .ok (expandComb (sortCols s.vars))

def evalS (asg : Run) : SExpr → Option Val
  | .tuple xs => some (.arr (xs.map (fun x => Val.atom ((asg.lookup x).getD "null"))))
  | .arith e => (ExprSig.eval (fun x => (asg.lookup x).bind String.toInt?) e).map (fun i => Val.atom (toString i))

def evalAll (asg : Run) : List (String × SExpr) → Except SErr (List (String × Val))
  | [] => .ok []
  | (p, e) :: rest =>
    match evalS asg e with
    | none => .error (.expression p)
    | some v =>
      match evalAll asg rest with
      | .error err => .error err
      | .ok vs => .ok ((p, v) :: vs)

/-- Right-biased merge: `over` wins. -/
def mergeParams (base over : List (String × Val)) : List (String × Val) :=
  base.filter (fun kv => (over.lookup kv.1).isNone) ++ over

/-- Call parameters of one element: computed-by-expression > node-level (already resolved config >
    context > default) , restricted to the names the element accepts, in the element's parameter order. -/
def callParams (elementParams : List String) (base computed : List (String × Val)) : List (Option Val) :=
  let merged := mergeParams base computed
  elementParams.map (fun p => merged.lookup p)

/-- One element: the wrapped processor's body applied to the data (none for sources) and the call parameters. -/
def element (beh : Beh) (declared : List String) (elementParams : List String) (data : Option Val)
    (base : List (String × Val)) (s : Spec) (asg : Run) : Except SErr (Val × List (String × Val)) :=
  match evalAll asg s.exprs with
  | .error e => .error e
  | .ok computed =>
    let ps := callParams elementParams base computed
    if ps.any Option.isNone then .error (.element (.unresolved "element parameter"))
    else
      match applyBeh beh declared data (ps.filterMap id) with
      | .error e => .error (.element e)
      | .ok r => .ok r

def elements (beh : Beh) (declared : List String) (elementParams : List String) (data : Option Val)
    (base : List (String × Val)) (s : Spec) : List Run → Except SErr (List Val × List (String × Val))
  | [] => .ok ([], [])
  | a :: rest =>
    match element beh declared elementParams data base s a with
    | .error e => .error e
    | .ok (v, w) =>
      match elements beh declared elementParams data base s rest with
      | .error e => .error e
      | .ok (vs, ws) => .ok (v :: vs, w ++ ws)

/-- `<var>_values` entries, one per variable. -/
def published (s : Spec) : List (String × Val) :=
  s.vars.map (fun kv => (kv.1 ++ "_values", Val.arr (kv.2.map Val.atom)))

end SemantivaModel.Sweep
