/-
Class generation (property C16): what the framework's factories make of a component, as functions on
*descriptors* — the facts about a class that the contract catalogue and the pipeline inspect:
component kind, input / output data type, context keys it creates, parameter names.
  comp        a component as written
  slice c T   `slice:<c>:<T>` (data_slicer_factory): element-wise application over a collection type T
  sweep c …   `derive.parameter_sweep` (parametric_sweep_factory)
`nodeOf` is the node wrapper `_pipeline_node_factory` generates (IO adapters, probe context-key binding).
`none` means the factory / node factory rejects the configuration.  Part of the compiled driver.
-/
namespace SemantivaModel.Factory

inductive Kind | dataSource | payloadSource | operation | probe | dataSink | payloadSink | ctxProc
  deriving Repr, DecidableEq, Inhabited

structure Desc where
  kind : Kind
  inT : String                    -- "NoDataType" for sources, "BaseDataType" for context processors
  outT : Option String            -- none: the class declares no output type (probes, context processors)
  created : List String           -- context keys the class declares it creates
  params : List String            -- processing parameter names
  deriving Repr, DecidableEq, Inhabited

structure NodeDesc where
  inT : Option String
  outT : Option String
  created : List String
  deriving Repr, DecidableEq, Inhabited

inductive Term where
  | comp (d : Desc)
  | slice (d : Desc) (coll : String)
  | sweep (d : Desc) (coll : Option String) (vars : List String)
  deriving Repr, Inhabited

def valuesKeys (vars : List String) : List String := vars.map (· ++ "_values")

def descOf : Term → Option Desc
  | .comp d => some d
  | .slice d coll =>
    match d.kind with
    | .operation => if d.outT = some d.inT then some { d with inT := coll, outT := some coll } else none
    | .probe => some { d with inT := coll }
    | _ => none
  | .sweep d coll vars =>
    match d.kind, coll with
    | .dataSource, some c => some { d with outT := some c, created := valuesKeys vars ++ d.created, params := [] }
    | .operation, some c => some { d with outT := some c, created := valuesKeys vars ++ d.created, params := [] }
    | .probe, none => some { d with created := valuesKeys vars ++ d.created, params := [] }
    | _, _ => none

/-- The node wrapper; `ck` is the node's `context_key`. -/
def nodeOf (d : Desc) (ck : Option String) : Option NodeDesc :=
  match d.kind, ck with
  | .dataSource, _ | .payloadSource, _ => some ⟨some "NoDataType", d.outT, d.created⟩      -- a context_key is ignored
  | .dataSink, _ | .payloadSink, _ => some ⟨some d.inT, some d.inT, d.created⟩
  | .operation, none => some ⟨some d.inT, d.outT, d.created⟩
  | .probe, some k => some ⟨some d.inT, some d.inT, [k]⟩
  | .ctxProc, _ => some ⟨none, none, d.created⟩
  | .operation, some _ => none                 -- "context_key must not be defined for DataOperation nodes"
  | .probe, none => none                       -- "Probe nodes must declare context_key"

/-! ### The contract catalogue on descriptors (error-level rules that read types and keys) -/

/-- SVA200 / SVA210 / SVA220 / SVA230: the class declares the data types its kind requires. -/
def procOK (d : Desc) : Bool :=
  match d.kind with
  | .dataSource | .payloadSource => d.outT.isSome
  | .dataSink | .payloadSink => d.inT != ""
  | .operation => d.inT != "" && d.outT.isSome
  | .probe => d.inT != ""
  | .ctxProc => true

/-- SVA300/301 (source nodes take no data, output matches the processor), SVA310/311 (sink nodes pass their input type
    through and match the processor), SVA320/321 (probe nodes likewise). -/
def nodeOK (d : Desc) (n : NodeDesc) : Bool :=
  match d.kind with
  | .dataSource | .payloadSource => n.inT == some "NoDataType" && n.outT == d.outT
  | .dataSink | .payloadSink => n.outT == n.inT && n.inT == some d.inT
  | .probe => n.outT == n.inT && n.inT == some d.inT
  | .operation => n.inT == some d.inT && n.outT == d.outT
  | .ctxProc => true

/-- The wrapper mirrors the keys the processor creates (a probe node creates exactly its bound key). -/
def keysMirror (d : Desc) (ck : Option String) (n : NodeDesc) : Bool :=
  match d.kind, ck with
  | .probe, some k => n.created == [k]
  | _, _ => n.created == d.created

/-- A component as written is well-formed when it passes the processor-level rules and has the shape of its kind. -/
def baseOK (d : Desc) : Bool :=
  procOK d &&
  (match d.kind with
   | .dataSource | .payloadSource => d.inT == "NoDataType"
   | .dataSink | .payloadSink => d.outT == some d.inT
   | .probe => d.outT == none
   | .ctxProc => d.outT == none
   | .operation => true)

end SemantivaModel.Factory
