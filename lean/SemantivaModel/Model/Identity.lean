import SemantivaModel.Model.Json
import SemantivaModel.Model.Aggregator
/-
Pre-images of the configuration identities (properties C04, C05): the payload trees the code feeds
to its hashes, as pure functions of the configuration.
  * node UUID        : uuid5(canonical(nodeCanon node index))                      (graph_builder.py)
  * pipeline id      : "plid-" + sha256(canonical(graph))                           (graph_builder.py)
  * node semantic id : sha256("semantiva:node-sem-v1:" + canonical(sweepMeta))       (semantic_id.py)
  * semantic id      : "plsemid-" + sha256("semantiva:pipeline-sem-v1:" + canonical(semanticPayload))
  * config id        : "plcid-" + sha256(canonical(configPayload))
The hash functions are outside the model: the harness hashes the pre-image strings with
hashlib/uuid and compares the resulting identifiers with the real ones.

Part of the compiled driver.
-/
namespace SemantivaModel.Identity
open SemantivaModel.Json

structure NodeCfg where
  processorRef : String
  params : J                   -- the effective parameter map (descriptors already as JSON)
  ports : J := .obj []
  role : String := "processor"
  deriving Repr, Inhabited

def nodeCanon (n : NodeCfg) (index : Nat) : J :=
  .obj [("role", str n.role), ("processor_ref", str n.processorRef), ("params", n.params), ("ports", n.ports),
        ("declaration_index", num index), ("declaration_subindex", num 0)]

def uuidPre (n : NodeCfg) (index : Nat) : String := canonical (nodeCanon n index)

/-- Sanitised sweep description of a node (what `_preprocessor_metadata` returns). -/
structure SweepCfg where
  elementRef : String
  exprSigs : List (String × String)        -- parameter ↦ ExpressionSigV1 ast text, in mapping order
  varDomains : Members                     -- variable ↦ domain signature, in mapping order
  mode : String
  broadcast : Bool
  collection : Option String
  requiredExternal : List String           -- in the wrapped processor's signature order
  contextKeys : List String                -- from_context keys, in the order of the variables mapping
  deriving Repr, Inhabited

def bool (b : Bool) : J := .atom (if b then "true" else "false")

/-- `sortedKeys` records whether the code sorts the `context_keys` list (regenerated from the code). -/
def sweepMeta (sortedKeys : Bool) (s : SweepCfg) : J :=
  .obj [("type", str "derive.parameter_sweep"), ("version", num 1), ("element_ref", str s.elementRef),
        ("param_expressions", .obj (s.exprSigs.map (fun kv =>
            (kv.1, J.obj [("sig", J.obj [("format", str "ExpressionSigV1"), ("ast", .atom kv.2)])])))),
        ("variables", .obj s.varDomains),
        ("mode", str s.mode), ("broadcast", bool s.broadcast),
        ("collection", match s.collection with | some c => str c | none => jnull),
        ("dependencies", .obj [("required_external_parameters", .arr (s.requiredExternal.map str)),
                               ("context_keys", .arr ((if sortedKeys then Aggregator.ssort s.contextKeys else s.contextKeys).map str))])]

def nodeSemPre (sortedKeys : Bool) (s : SweepCfg) : String :=
  "semantiva:node-sem-v1:" ++ canonical (sweepMeta sortedKeys s)

/-- One node as seen by the pipeline-level identities. -/
structure NodeId where
  uuid : String
  semid : String                 -- "none" for nodes without a derive preprocessor
  deriving Repr, Inhabited

/-- `withNodeSem` records whether the pipeline-level semantic payload includes the node semantic id of
    preprocessed nodes (regenerated from the code). -/
def semanticPayload (withNodeSem : Bool) (ns : List NodeId) : J :=
  .obj [("nodes", .arr (ns.map (fun n =>
      J.obj ([("name", jnull), ("node_uuid", str n.uuid), ("payload_from", jnull)]
             ++ (if withNodeSem && n.semid != "none" then [("node_semantic_id", str n.semid)] else [])))))]

def semanticPre (withNodeSem : Bool) (ns : List NodeId) : String :=
  "semantiva:pipeline-sem-v1:" ++ canonical (semanticPayload withNodeSem ns)

def insertPair (x : NodeId) : List NodeId → List NodeId
  | [] => [x]
  | y :: ys => if x.uuid ≤ y.uuid then x :: y :: ys else y :: insertPair x ys

/-- `sorted(pairs, key=uuid)` -/
def sortPairs (ns : List NodeId) : List NodeId := ns.foldr insertPair []

def configPayload (ns : List NodeId) : J :=
  .arr ((sortPairs ns).map (fun n => J.arr [str n.uuid, str n.semid]))

def configPre (ns : List NodeId) : String := canonical (configPayload ns)

/-- GraphV1 of a pipeline (linear edges), the pre-image of the pipeline id. -/
def graph (nodes : List (NodeCfg × String)) : J :=
  let uuids := nodes.map (·.2)
  .obj [("version", num 1),
        ("nodes", .arr (nodes.zipIdx.map (fun (nu, i) =>
            match nodeCanon nu.1 i with
            | .obj ms => J.obj (ms ++ [("node_uuid", str nu.2)])
            | j => j))),
        ("edges", .arr ((uuids.zip uuids.tail).map (fun st => J.obj [("source", str st.1), ("target", str st.2)])))]

def pipelineIdPre (nodes : List (NodeCfg × String)) : String := canonical (graph nodes)

end SemantivaModel.Identity
