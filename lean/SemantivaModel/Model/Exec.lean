/-
Model of pipeline execution (property C01; reused by C02, C06, C07, C10, C17):
`semantiva/pipeline/nodes/nodes.py`, `_param_resolution.py`, `context_processors/factory.py`,
`data_slicer_factory.py`, `io_operation_factory.py`, the node loop of `orchestrator.execute`.

Values are JSON-like trees whose scalars are opaque tokens (their canonical JSON text).  Processor
bodies are *term constructors* (`Beh`): the harness' component library is a free algebra, so the
model can compute every result exactly; the theorems of C01 do not depend on what the bodies compute.

The parameter-resolution precedence is a table regenerated from the real `resolve_runtime_value`
(`Generated.C01.resolveTable`), indexed by (in node config, in context, has default).

No imports: part of the compiled driver.
-/
namespace SemantivaModel.Exec

inductive Val where
  | atom (tok : String)
  | arr (xs : List Val)
  deriving Repr, Inhabited

mutual
def Val.beq : Val → Val → Bool
  | .atom a, .atom b => a == b
  | .arr xs, .arr ys => Val.beqList xs ys
  | _, _ => false
def Val.beqList : List Val → List Val → Bool
  | [], [] => true
  | x :: xs, y :: ys => Val.beq x y && Val.beqList xs ys
  | _, _ => false
end
instance : BEq Val := ⟨Val.beq⟩

def Val.null : Val := .atom "null"
def Val.isNull : Val → Bool
  | .atom "null" => true
  | _ => false
/-- JSON escapes of `json.dumps` for ASCII text. -/
def jsonEscape (s : String) : String :=
  String.ofList (s.toList.flatMap (fun c =>
    if c == '"' then ['\\', '"'] else if c == '\\' then ['\\', '\\'] else if c == '\n' then ['\\', 'n']
    else if c == '\t' then ['\\', 't'] else if c == '\r' then ['\\', 'r'] else [c]))

def Val.str (s : String) : Val := .atom ("\"" ++ jsonEscape s ++ "\"")

abbrev Ctx := List (String × Val)

def Ctx.get (c : Ctx) (k : String) : Option Val := c.lookup k
def Ctx.has (c : Ctx) (k : String) : Bool := (c.lookup k).isSome
def Ctx.set : Ctx → String → Val → Ctx
  | [], k, v => [(k, v)]
  | (k', v') :: rest, k, v => if k' = k then (k, v) :: rest else (k', v') :: Ctx.set rest k v
def Ctx.erase (c : Ctx) (k : String) : Ctx := c.filter (fun kv => kv.1 != k)
def Ctx.keys (c : Ctx) : List String := c.map (·.1)

inductive Data where
  | nodata
  | item (ty : String) (v : Val)
  | coll (ty : String) (xs : List Val)
  deriving Repr, Inhabited

def Data.ty : Data → String
  | .nodata => "NoDataType"
  | .item t _ => t
  | .coll t _ => t

/-- `issubclass(type(data), input_type)` for the harness' type lattice: everything is a BaseDataType. -/
def typeAccepts (inT dataT : String) : Bool := inT == "BaseDataType" || inT == dataT

structure PSig where
  name : String
  dflt : Option Val
  deriving Repr, Inhabited

/-- Body of a processor of the harness' term library. -/
inductive Beh where
  | term (tag : String)                       -- [tag, data, p₁, …]  (sources: [tag, p₁, …])
  | termWrite (tag key wtag : String)         -- as `term`, and notifies the context update key := [wtag, data, p₁, …]
  | merge (tag : String)                      -- collection → [tag, x₁, …, xₙ]
  | collOf (tag : String) (n : Nat)           -- source of the collection [[tag, p₁…, 0], …, [tag, p₁…, n-1]]
  | fail (cls : String)                       -- raises the processor's own error of class `cls`
  | echo                                      -- returns its first parameter as it is (null without parameters): falsy results included
  deriving Repr, Inhabited

/-- A piece of a `template:"…{key}…":out` string. -/
inductive TPart where
  | lit (s : String)
  | key (k : String)
  deriving Repr, Inhabited

inductive Kind where
  | dataSource
  | payloadSource (key ktag : String)         -- also injects key := [ktag, p₁, …]
  | operation
  | probe
  | dataSink
  | payloadSink
  | rename (src dst : String)
  | delete (key : String)
  | template (parts : List TPart) (out : String)
  deriving Repr, Inhabited

structure Node where
  kind : Kind
  params : List PSig
  inT : String
  outT : String
  elemT : String := ""                        -- element type when the node is a slicer
  declared : List String := []                -- context keys an operation declares
  beh : Beh := .term "?"
  config : List (String × Val) := []
  contextKey : Option String := none
  sliced : Bool := false
  deriving Repr, Inhabited

inductive Err where
  | unresolved (p : String)
  | typeGate
  | undeclaredWrite (k : String)
  | keyClash (k : String)
  | missingKey (k : String)
  | proc (cls : String)
  | unknownParam (ps : List String)
  | config (why : String)
  deriving Repr, Inhabited

/-- Errors the framework raises about the *flow* (as opposed to the processor's own error and to
    configuration errors detected while nodes are constructed). -/
def Err.isFlow : Err → Bool
  | .unresolved _ | .typeGate | .undeclaredWrite _ | .keyClash _ | .missingKey _ => true
  | _ => false

/-! ### Parameter resolution -/

inductive Channel | config | context | default | none_
  deriving Repr, DecidableEq, Inhabited

/-- (in node config, in context, has default) ↦ channel the value is taken from. -/
abbrev ResolveTable := List ((Bool × Bool × Bool) × Channel)

def channelOf (tbl : ResolveTable) (n : Node) (c : Ctx) (p : PSig) : Channel :=
  (tbl.lookup ((n.config.lookup p.name).isSome, c.has p.name, p.dflt.isSome)).getD .none_

def resolve (tbl : ResolveTable) (n : Node) (c : Ctx) (p : PSig) : Except Err Val :=
  match channelOf tbl n c p with
  | .config => match n.config.lookup p.name with
    | some v => .ok v
    | none => .error (.unresolved p.name)
  | .context => match c.get p.name with
    | some v => .ok v
    | none => .error (.unresolved p.name)
  | .default => match p.dflt with
    | some v => .ok v
    | none => .error (.unresolved p.name)
  | .none_ => .error (.unresolved p.name)

def resolveAll (tbl : ResolveTable) (n : Node) (c : Ctx) : List PSig → Except Err (List Val)
  | [] => .ok []
  | p :: ps =>
    match resolve tbl n c p with
    | .error e => .error e
    | .ok v =>
      match resolveAll tbl n c ps with
      | .error e => .error e
      | .ok vs => .ok (v :: vs)

/-- The documented precedence: node configuration > context > processor default > error. -/
def precedenceOK (tbl : ResolveTable) : Bool :=
  [true, false].all (fun c => [true, false].all (fun d => tbl.lookup (true, c, d) == some .config))
  && [true, false].all (fun d => tbl.lookup (false, true, d) == some .context)
  && tbl.lookup (false, false, true) == some .default
  && tbl.lookup (false, false, false) == some .none_

/-! ### Construction-time checks (`_pipeline_node_factory`, node `__init__`) -/

def Kind.isCtxProc : Kind → Bool
  | .rename _ _ | .delete _ | .template _ _ => true
  | _ => false

def construct (n : Node) : Option Err :=
  if n.kind.isCtxProc then none           -- rename/delete/template accept **kwargs: no parameter check
  else
    match n.kind, n.contextKey with
    | .probe, none => some (.config "probe without context_key")
    | .operation, some _ => some (.config "context_key on an operation")
    | _, _ =>
      let extras := (n.config.map (·.1)).filter (fun k => !(n.params.map (·.name)).contains k)
      if extras.isEmpty then none else some (.unknownParam extras)

def constructAll : List Node → Nat → Option (Nat × Err)
  | [], _ => none
  | n :: ns, i =>
    match construct n with
    | some e => some (i, e)
    | none => constructAll ns (i + 1)

/-! ### One node -/

def unquote (t : String) : String := String.ofList ((t.toList.drop 1).take (t.length - 2))

/-- The text a JSON string token denotes (the escapes `json.dumps` produces for ASCII text: `\"`, `\\`, `\n`, `\t`, `\r`). -/
def jsonUnescape : List Char → List Char
  | '\\' :: '"' :: rest => '"' :: jsonUnescape rest
  | '\\' :: '\\' :: rest => '\\' :: jsonUnescape rest
  | '\\' :: 'n' :: rest => '\n' :: jsonUnescape rest
  | '\\' :: 't' :: rest => '\t' :: jsonUnescape rest
  | '\\' :: 'r' :: rest => '\r' :: jsonUnescape rest
  | c :: rest => c :: jsonUnescape rest
  | [] => []

def strOfToken (t : String) : String := String.ofList (jsonUnescape (unquote t).toList)

/-- Python `repr` of a `str`: single quotes unless the text holds a single quote and no double quote; the quote in use,
    backslashes and the common control characters are escaped. -/
def pyStrRepr (s : String) : String :=
  let cs := s.toList
  let q : Char := if cs.contains '\'' && !cs.contains '"' then '"' else '\''
  let esc : Char → List Char := fun c =>
    if c == '\\' then ['\\', '\\'] else if c == q then ['\\', q]
    else if c == '\n' then ['\\', 'n'] else if c == '\t' then ['\\', 't'] else if c == '\r' then ['\\', 'r'] else [c]
  String.ofList (q :: (cs.flatMap esc) ++ [q])

def pyAtomRepr (t : String) : String :=
  if t.startsWith "\"" then pyStrRepr (strOfToken t)
  else if t == "null" then "None" else if t == "true" then "True" else if t == "false" then "False" else t

mutual
/-- Python `repr` of a JSON-native value. -/
def pyRepr : Val → String
  | .atom t => pyAtomRepr t
  | .arr xs => "[" ++ pyReprList xs ++ "]"
def pyReprList : List Val → String
  | [] => ""
  | [x] => pyRepr x
  | x :: y :: rest => pyRepr x ++ ", " ++ pyReprList (y :: rest)
end

/-- Python `str(value)`: strings as they are, everything else as `repr`. -/
def pyStr : Val → String
  | .atom t => if t.startsWith "\"" then strOfToken t else pyAtomRepr t
  | v => pyRepr v

def renderTemplate (parts : List TPart) (vals : List (String × Val)) : String :=
  parts.foldl (fun acc p => match p with
    | .lit s => acc ++ s
    | .key k => acc ++ pyStr ((vals.lookup k).getD Val.null)) ""

/-- Result of applying a body to one item (`v` = `none` for sources) and the resolved parameters:
    the produced term and the context writes the body asks for. -/
def applyBeh (b : Beh) (declared : List String) (v : Option Val) (ps : List Val) :
    Except Err (Val × List (String × Val)) :=
  let args := (match v with | some d => [d] | none => []) ++ ps
  match b with
  | .term tag => .ok (.arr (.atom ("\"" ++ tag ++ "\"") :: args), [])
  | .termWrite tag key wtag =>
    if declared.contains key then
      .ok (.arr (.atom ("\"" ++ tag ++ "\"") :: args), [(key, .arr (.atom ("\"" ++ wtag ++ "\"") :: args))])
    else .error (.undeclaredWrite key)
  | .merge tag => match v with
    | some (.arr xs) => .ok (.arr (.atom ("\"" ++ tag ++ "\"") :: xs), [])
    | _ => .error (.proc "merge of a non-collection")
  | .collOf tag n =>
    .ok (.arr ((List.range n).map (fun i => Val.arr (.atom ("\"" ++ tag ++ "\"") :: (ps ++ [.atom (toString i)])))), [])
  | .fail cls => .error (.proc cls)
  | .echo => .ok (ps.headD Val.null, [])

def applyWrites (c : Ctx) (ws : List (String × Val)) : Ctx := ws.foldl (fun acc kv => acc.set kv.1 kv.2) c

/-- Element-wise application for a slicer: results in order, context writes in order (last wins). -/
def mapBeh (b : Beh) (declared : List String) (ps : List Val) : List Val → Except Err (List Val × List (String × Val))
  | [] => .ok ([], [])
  | x :: xs =>
    match applyBeh b declared (some x) ps with
    | .error e => .error e
    | .ok (y, w) =>
      match mapBeh b declared ps xs with
      | .error e => .error e
      | .ok (ys, ws) => .ok (y :: ys, w ++ ws)

def dataVal : Data → Option Val
  | .nodata => none
  | .item _ v => some v
  | .coll _ xs => some (.arr xs)

def step (tbl : ResolveTable) (n : Node) (s : Data × Ctx) : Except Err (Data × Ctx) :=
  let (d, c) := s
  match n.kind with
  | .rename src dst =>
    (match resolve tbl n c ⟨src, none⟩ with
     | .error e => .error e
     | .ok v =>
       let c₁ := c.set dst v
       if c₁.has src then .ok (d, c₁.erase src) else .error (.missingKey src))
  | .delete key =>
    (match resolve tbl n c ⟨key, none⟩ with
     | .error e => .error e
     | .ok _ =>
       if c.has key then .ok (d, c.erase key) else .error (.missingKey key))
  | .template parts out =>
    (match resolveAll tbl n c n.params with
     | .error e => .error e
     | .ok vs => .ok (d, c.set out (Val.str (renderTemplate parts ((n.params.map (·.name)).zip vs)))))
  | _ =>
    if !typeAccepts n.inT d.ty then .error .typeGate
    else
      match resolveAll tbl n c n.params with
      | .error e => .error e
      | .ok ps =>
        match n.kind with
        | .dataSource =>
          (match applyBeh n.beh n.declared none ps with
           | .error e => .error e
           | .ok (v, _) =>
             .ok ((match n.beh with | .collOf _ _ => (match v with | .arr xs => Data.coll n.outT xs | _ => Data.item n.outT v)
                                    | _ => Data.item n.outT v), c))
        | .payloadSource key ktag =>
          (match applyBeh n.beh n.declared none ps with
           | .error e => .error e
           | .ok (v, _) =>
             if c.has key then .error (.keyClash key)
             else .ok (Data.item n.outT v, c.set key (.arr (.atom ("\"" ++ ktag ++ "\"") :: ps))))
        | .operation =>
          if n.sliced then
            (match d with
             | .coll _ xs =>
               (match mapBeh n.beh n.declared ps xs with
                | .error e => .error e
                | .ok (ys, ws) => .ok (Data.coll n.outT ys, applyWrites c ws))
             | _ => .error (.proc "slicer on a non-collection"))
          else
            (match applyBeh n.beh n.declared (dataVal d) ps with
             | .error e => .error e
             | .ok (v, ws) => .ok (Data.item n.outT v, applyWrites c ws))
        | .probe =>
          let ck := n.contextKey.getD ""
          if n.sliced then
            (match d with
             | .coll _ xs =>
               (match mapBeh n.beh n.declared ps xs with
                | .error e => .error e
                | .ok (ys, _) => .ok (d, c.set ck (.arr ys)))
             | _ => .error (.proc "slicer on a non-collection"))
          else
            (match applyBeh n.beh n.declared (dataVal d) ps with
             | .error e => .error e
             | .ok (v, _) => .ok (d, c.set ck v))
        | _ => .ok (d, c)        -- sinks: parameters resolved, data and context passed through

/-! ### The node loop: strictly sequential, abort at the first failure -/

def execFrom (tbl : ResolveTable) : List Node → Nat → Data × Ctx → Except (Nat × Err) (Data × Ctx)
  | [], _, s => .ok s
  | n :: ns, i, s =>
    match step tbl n s with
    | .error e => .error (i, e)
    | .ok s' => execFrom tbl ns (i + 1) s'

def exec (tbl : ResolveTable) (ns : List Node) (s : Data × Ctx) : Except (Nat × Err) (Data × Ctx) :=
  execFrom tbl ns 0 s

/-- What `Pipeline(nodes).process(payload)` does: all nodes are constructed first, then run in order. -/
inductive Outcome where
  | ok (d : Data) (c : Ctx)
  | constructError (node : Nat) (e : Err)      -- raised before any node runs
  | runError (node : Nat) (e : Err)            -- raised by node `node`; nodes after it never run
  deriving Repr, Inhabited

def runPipeline (tbl : ResolveTable) (ns : List Node) (s : Data × Ctx) : Outcome :=
  match constructAll ns 0 with
  | some (i, e) => .constructError i e
  | none =>
    match exec tbl ns s with
    | .ok (d, c) => .ok d c
    | .error (i, e) => .runError i e

end SemantivaModel.Exec
