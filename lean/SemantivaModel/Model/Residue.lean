/-
Per-run residue (property C18): the process-wide component registry as a list of class names, and what one
execution adds to it — every node / adapter / shorthand class it generates (`generated`), either always
(`caches = false`: a fresh class per execution, as the metaclass registers every class ever created) or only
when no class of that name is registered yet (`caches = true`).  Likewise the channels an in-memory transport
keeps per job.  Part of the compiled driver.
-/
namespace SemantivaModel.Residue

def addNew (reg : List String) : List String → List String
  | [] => reg
  | n :: ns => addNew (if n ∈ reg then reg else reg ++ [n]) ns

def runOnce (caches : Bool) (reg generated : List String) : List String :=
  if caches then addNew reg generated else reg ++ generated

def runs (caches : Bool) (generated : List String) : List String → Nat → List String
  | reg, 0 => reg
  | reg, n + 1 => runs caches generated (runOnce caches reg generated) n

/-- Channels left in the transport after `jobs` jobs were processed. -/
def channelsAfter (reclaims : Bool) (perJob jobs : Nat) : Nat := if reclaims then 0 else perJob * jobs

end SemantivaModel.Residue
