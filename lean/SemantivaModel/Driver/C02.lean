import SemantivaModel.Driver.C01
import SemantivaModel.Model.Inspect
import SemantivaModel.Model.Origin
namespace SemantivaModel.Driver.C02
open Lean SemantivaModel.Driver SemantivaModel.Exec SemantivaModel.Inspect

def dedup (xs : List String) : List String := xs.foldl (fun acc x => if acc.contains x then acc else acc ++ [x]) []

def aerrJson : AErr → Json
  | .construct e => Json.arr #[Json.str "construct", C01.errJson e]
  | .typeMismatch => jStrs ["typeMismatch"]
  | .requiresDeleted k => jStrs ["requiresDeleted", k]

def originJson : Origin → Json
  | .config => jStrs ["config"]
  | .node j => Json.arr #[Json.str "node", Json.num j]
  | .initial => jStrs ["initial"]
  | .default => jStrs ["default"]

def handle (op : String) (j : Json) : Except String Json := do
  match op with
  | "c02.analyse" =>
    let ns ← (← arrField j "nodes").toList.mapM C01.nodeOfJson
    let dtype := (strField j "dtype").toOption.getD "NoDataType"
    match analyse ns dtype with
    | .ok req => pure (Json.mkObj [("accepted", Json.bool true), ("required", jStrs (dedup req)),
                                   ("wf", Json.bool (ns.all nodeWF)),
                                   ("created", jList (fun n => jStrs (createdOf n)) ns),
                                   ("suppressed", jList (fun n => jStrs (suppressedOf n)) ns)])
    | .error (i, e) => pure (Json.mkObj [("accepted", Json.bool false), ("node", Json.num i), ("error", aerrJson e),
                                         ("required", jStrs [])])
  | "c02.origins" =>
    let ns ← (← arrField j "nodes").toList.mapM C01.nodeOfJson
    let dtype := (strField j "dtype").toOption.getD "NoDataType"
    let passes := (strField j "passes").toOption.getD "two"
    let rows := if passes == "one" then origins ns else origins2 ns dtype
    pure (jList (fun row => jList (fun (kv : String × Origin) => Json.arr #[Json.str kv.1, originJson kv.2]) row) rows)
  | _ => throw s!"c02: unknown op {op}"

end SemantivaModel.Driver.C02
