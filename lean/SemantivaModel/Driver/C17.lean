import SemantivaModel.Driver.Util
import SemantivaModel.Model.Gate
namespace SemantivaModel.Driver.C17
open Lean SemantivaModel.Driver SemantivaModel.Gate

def blockerOf : String → Except String Blocker
  | "none_" => pure .none_ | "invalidConfig" => pure .invalidConfig | "missingKey" => pure .missingKey
  | "runSpaceInvalid" => pure .runSpaceInvalid | "capExceeded" => pure .capExceeded
  | s => throw s!"blocker {s}"

def flagOf : String → Except String Flag
  | "none_" => pure .none_ | "validate" => pure .validate | "dryRun" => pure .dryRun | "rsDryRun" => pure .rsDryRun
  | s => throw s!"flag {s}"

def tableOfJson (j : Json) : Except String GateTable := do
  (← j.getArr?).toList.mapM fun e => do
    let a ← e.getArr?
    if a.size != 4 then throw "gate table row"
    pure ((← blockerOf (← a[0]!.getStr?), ← flagOf (← a[1]!.getStr?)), (← a[2]!.getNat?, ← a[3]!.getBool?))

def handle (op : String) (j : Json) : Except String Json := do
  match op with
  | "c17.run" =>
    let t ← tableOfJson (← field j "table")
    let b ← blockerOf (← strField j "blocker")
    let f ← flagOf (← strField j "flag")
    let os ← (← arrField j "outcomes").toList.mapM (·.getBool?)
    let r := cliRun t b f os
    let code : Nat := r.1
    let started : Nat := r.2
    pure (Lean.Json.mkObj [("code", Lean.Json.num code), ("started", Lean.Json.num started), ("gateOK", Lean.Json.bool (gateOK t))])
  | _ => throw s!"c17: unknown op {op}"

end SemantivaModel.Driver.C17
