import SemantivaModel.Driver.Util
import SemantivaModel.Model.ExprSig
namespace SemantivaModel.Driver.C12
open Lean SemantivaModel.Driver SemantivaModel.ExprSig

def binOfString : String → Except String BinOp
  | "add" => pure .add | "sub" => pure .sub | "mul" => pure .mul
  | "floordiv" => pure .floordiv | "mod" => pure .mod | "pow" => pure .pow
  | s => throw s!"unknown binop {s}"
def cmpOfString : String → Except String CmpOp
  | "eq" => pure .eq | "ne" => pure .ne | "lt" => pure .lt | "le" => pure .le | "gt" => pure .gt | "ge" => pure .ge
  | s => throw s!"unknown cmpop {s}"

partial def exprOfJson (j : Json) : Except String Expr := do
  let a ← j.getArr?
  if a.size == 0 then throw "expr: empty"
  let tag ← a[0]!.getStr?
  match tag, a.size with
  | "var", 2 => pure (.var (← a[1]!.getStr?))
  | "const", 2 => pure (.const (← a[1]!.getNat?))
  | "bin", 4 => pure (.bin (← binOfString (← a[1]!.getStr?)) (← exprOfJson a[2]!) (← exprOfJson a[3]!))
  | "neg", 2 => pure (.neg (← exprOfJson a[1]!))
  | "call1", 3 => match (← a[1]!.getStr?) with
    | "abs" => pure (.call1 .abs (← exprOfJson a[2]!))
    | s => throw s!"unknown fn1 {s}"
  | "call2", 4 => match (← a[1]!.getStr?) with
    | "min" => pure (.call2 .min (← exprOfJson a[2]!) (← exprOfJson a[3]!))
    | "max" => pure (.call2 .max (← exprOfJson a[2]!) (← exprOfJson a[3]!))
    | s => throw s!"unknown fn2 {s}"
  | "cmp", 4 => pure (.cmp (← cmpOfString (← a[1]!.getStr?)) (← exprOfJson a[2]!) (← exprOfJson a[3]!))
  | "ite", 4 => pure (.ite (← exprOfJson a[1]!) (← exprOfJson a[2]!) (← exprOfJson a[3]!))
  | t, _ => throw s!"expr: bad node {t}"

structure State where
  comm : List BinOp := [.add, .mul]

def handle (st : State) (op : String) (j : Json) : Except String (State × Json) := do
  match op with
  | "c12.setup" =>
    let ops ← (← strList (← field j "comm")).mapM binOfString
    pure ({ comm := ops }, Json.mkObj [("commOpsOK", Json.bool (commOpsOK ops))])
  | "c12.sig" =>
    let e ← exprOfJson (← field j "expr")
    pure (st, Json.mkObj [("sig", Json.str (sig st.comm e)), ("dump", Json.str (dump e))])
  | "c12.eval" =>
    let e ← exprOfJson (← field j "expr")
    let envj ← field j "env"
    let ρ : Env := fun x => match envj.getObjVal? x with
      | .ok v => v.getInt?.toOption
      | .error _ => none
    let v := eval ρ e
    let vn := eval ρ (norm st.comm dump e)
    let toJ : Option Int → Json := fun o => match o with | some i => Json.str (toString i) | none => Json.null
    pure (st, Json.mkObj [("value", toJ v), ("valueOfNorm", toJ vn)])
  | _ => throw s!"c12: unknown op {op}"

end SemantivaModel.Driver.C12
