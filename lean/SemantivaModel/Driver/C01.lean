import SemantivaModel.Driver.Util
import SemantivaModel.Model.Exec
namespace SemantivaModel.Driver.C01
open Lean SemantivaModel.Driver SemantivaModel.Exec

partial def valOfJson (j : Json) : Except String Val :=
  match j with
  | .arr a => do pure (.arr (← a.toList.mapM valOfJson))
  | .str s => pure (.atom s)
  | _ => throw "val: expected array or string token"

partial def valJson : Val → Json
  | .atom t => Json.str t
  | .arr xs => Json.arr (xs.map valJson).toArray

def optVal (j : Json) : Except String (Option Val) :=
  match j with
  | .null => pure none
  | v => some <$> valOfJson v

def kvList (j : Json) : Except String (List (String × Val)) := do
  (← j.getArr?).toList.mapM fun e => do
    let p ← e.getArr?
    if p.size != 2 then throw "kv: expected [key, value]"
    pure (← p[0]!.getStr?, ← valOfJson p[1]!)

def behOfJson (j : Json) : Except String Beh := do
  let a ← j.getArr?
  match (← a[0]!.getStr?), a.size with
  | "term", 2 => pure (.term (← a[1]!.getStr?))
  | "termWrite", 4 => pure (.termWrite (← a[1]!.getStr?) (← a[2]!.getStr?) (← a[3]!.getStr?))
  | "merge", 2 => pure (.merge (← a[1]!.getStr?))
  | "collOf", 3 => pure (.collOf (← a[1]!.getStr?) (← a[2]!.getNat?))
  | "fail", 2 => pure (.fail (← a[1]!.getStr?))
  | "echo", 1 => pure .echo
  | t, _ => throw s!"beh: {t}"

def kindOfJson (j : Json) : Except String Kind := do
  let a ← j.getArr?
  match (← a[0]!.getStr?), a.size with
  | "dataSource", 1 => pure .dataSource
  | "payloadSource", 3 => pure (.payloadSource (← a[1]!.getStr?) (← a[2]!.getStr?))
  | "operation", 1 => pure .operation
  | "probe", 1 => pure .probe
  | "dataSink", 1 => pure .dataSink
  | "payloadSink", 1 => pure .payloadSink
  | "rename", 3 => pure (.rename (← a[1]!.getStr?) (← a[2]!.getStr?))
  | "delete", 2 => pure (.delete (← a[1]!.getStr?))
  | "template", 3 =>
    let parts ← (← a[1]!.getArr?).toList.mapM fun p => do
      let q ← p.getArr?
      match (← q[0]!.getStr?) with
      | "lit" => pure (TPart.lit (← q[1]!.getStr?))
      | "key" => pure (TPart.key (← q[1]!.getStr?))
      | t => throw s!"tpart {t}"
    pure (.template parts (← a[2]!.getStr?))
  | t, _ => throw s!"kind: {t}"

def nodeOfJson (j : Json) : Except String Node := do
  let params ← (← arrField j "params").toList.mapM fun e => do
    let p ← e.getArr?
    if p.size != 2 then throw "param: expected [name, default]"
    pure ({ name := ← p[0]!.getStr?, dflt := ← optVal p[1]! } : PSig)
  let ck ← match optField j "contextKey" with
    | none => pure none
    | some v => some <$> v.getStr?
  pure { kind := ← kindOfJson (← field j "kind"), params := params, inT := ← strField j "inT", outT := ← strField j "outT",
         elemT := (strField j "elemT").toOption.getD "", declared := ← strList (← field j "declared"),
         beh := ← behOfJson (← field j "beh"), config := ← kvList (← field j "config"), contextKey := ck,
         sliced := ← boolField j "sliced" }

def channelOfString : String → Except String Channel
  | "config" => pure .config | "context" => pure .context | "default" => pure .default | "none" => pure .none_
  | s => throw s!"channel {s}"

def tableOfJson (j : Json) : Except String ResolveTable := do
  (← j.getArr?).toList.mapM fun e => do
    let a ← e.getArr?
    if a.size != 4 then throw "resolve table row"
    pure ((← a[0]!.getBool?, ← a[1]!.getBool?, ← a[2]!.getBool?), ← channelOfString (← a[3]!.getStr?))

def errJson : Err → Json
  | .unresolved p => jStrs ["unresolved", p]
  | .typeGate => jStrs ["typeGate"]
  | .undeclaredWrite k => jStrs ["undeclaredWrite", k]
  | .keyClash k => jStrs ["keyClash", k]
  | .missingKey k => jStrs ["missingKey", k]
  | .proc c => jStrs ["proc", c]
  | .unknownParam ps => Json.arr #[Json.str "unknownParam", jStrs ps]
  | .config w => jStrs ["config", w]

def dataJson : Data → Json
  | .nodata => jStrs ["nodata"]
  | .item t v => Json.arr #[Json.str "item", Json.str t, valJson v]
  | .coll t xs => Json.arr #[Json.str "coll", Json.str t, Json.arr (xs.map valJson).toArray]

def ctxJson (c : Ctx) : Json := jList (fun (kv : String × Val) => Json.arr #[Json.str kv.1, valJson kv.2]) c

def dataOfJson (j : Json) : Except String Data := do
  let a ← j.getArr?
  match (← a[0]!.getStr?), a.size with
  | "nodata", 1 => pure .nodata
  | "item", 3 => pure (.item (← a[1]!.getStr?) (← valOfJson a[2]!))
  | "coll", 3 => pure (.coll (← a[1]!.getStr?) (← (← a[2]!.getArr?).toList.mapM valOfJson))
  | t, _ => throw s!"data: {t}"

structure State where
  tbl : ResolveTable := []

def outcomeJson : Outcome → Json
  | .ok d c => Json.mkObj [("ok", Json.mkObj [("data", dataJson d), ("ctx", ctxJson c)])]
  | .constructError i e => Json.mkObj [("constructError", Json.arr #[Json.num i, errJson e])]
  | .runError i e => Json.mkObj [("runError", Json.arr #[Json.num i, errJson e])]

def handle (st : State) (op : String) (j : Json) : Except String (State × Json) := do
  match op with
  | "c01.setup" =>
    let t ← tableOfJson (← field j "resolveTable")
    pure ({ tbl := t }, Json.mkObj [("precedenceOK", Json.bool (precedenceOK t))])
  | "c01.run" =>
    let ns ← (← arrField j "nodes").toList.mapM nodeOfJson
    let c ← kvList (← field j "ctx")
    let d ← match optField j "data" with
      | none => pure Data.nodata
      | some v => dataOfJson v
    pure (st, outcomeJson (runPipeline st.tbl ns (d, c)))
  | _ => throw s!"c01: unknown op {op}"

end SemantivaModel.Driver.C01
