import SemantivaModel.Driver.Util
import SemantivaModel.Model.Aggregator
namespace SemantivaModel.Driver.C13
open Lean SemantivaModel.Driver SemantivaModel.Aggregator

def optNat (j : Json) : Except String (Option Nat) :=
  match j with
  | .null => pure none
  | v => some <$> v.getNat?

def statusOfString : String → Except String Status
  | "complete" => pure .complete | "partial" => pure .part | "invalid" => pure .invalid
  | s => throw s!"unknown status {s}"
def Status.str : Status → String
  | .complete => "complete" | .part => "partial" | .invalid => "invalid"

def recOfJson (j : Json) : Except String Rec := do
  let a ← j.getArr?
  if a.size == 0 then throw "rec: empty"
  match (← a[0]!.getStr?), a.size with
  | "rsStart", 3 => pure (.rsStart (← a[1]!.getStr?) (← a[2]!.getNat?))
  | "rsEnd", 3 => pure (.rsEnd (← a[1]!.getStr?) (← a[2]!.getNat?))
  | "pStart", 5 =>
    let fk ← match a[3]! with
      | .null => pure none
      | v => do
        let p ← v.getArr?
        if p.size != 2 then throw "fk: expected [launch, attempt]"
        pure (some (← p[0]!.getStr?, ← p[1]!.getNat?))
    pure (.pStart (← a[1]!.getStr?) (← strList a[2]!) fk (← optNat a[4]!))
  | "pEnd", 3 => pure (.pEnd (← a[1]!.getStr?) (← optNat a[2]!))
  | "ser", 6 => pure (.ser (← a[1]!.getStr?) (← a[2]!.getStr?) (← a[3]!.getStr?) (← optNat a[4]!) (← optNat a[5]!))
  | "other", _ => pure .other
  | t, _ => throw s!"rec: bad record {t}"

structure State where
  rtbl : RunTable := []
  ltbl : LaunchTable := []
  terminal : List String := []

def runVerdictJson (v : RunVerdict) : Json :=
  Json.mkObj [("known", Json.bool v.known), ("status", Json.str (Status.str v.status)), ("problems", jStrs v.problems),
    ("missing", jStrs v.missing), ("orphan", jStrs v.orphan), ("nonterminal", jStrs v.nonterminal)]

def launchVerdictJson (v : LaunchVerdict) : Json :=
  Json.mkObj [("known", Json.bool v.known), ("status", Json.str (Status.str v.status)), ("problems", jStrs v.problems),
    ("runs_total", Json.num v.runsTotal), ("complete", Json.num v.nComplete), ("partial", Json.num v.nPartial),
    ("invalid", Json.num v.nInvalid)]

def handle (st : State) (op : String) (j : Json) : Except String (State × Json) := do
  match op with
  | "c13.setup" =>
    let rt ← (← arrField j "runTable").toList.mapM fun e => do
      let a ← e.getArr?
      if a.size != 4 then throw "runTable row"
      pure ((← a[0]!.getBool?, ← a[1]!.getBool?, ← a[2]!.getBool?), ← statusOfString (← a[3]!.getStr?))
    let lt ← (← arrField j "launchTable").toList.mapM fun e => do
      let a ← e.getArr?
      if a.size != 5 then throw "launchTable row"
      pure ((← a[0]!.getBool?, ← a[1]!.getBool?, ← a[2]!.getBool?, ← a[3]!.getBool?), ← statusOfString (← a[4]!.getStr?))
    let term ← strList (← field j "terminal")
    pure ({ rtbl := rt, ltbl := lt, terminal := term },
      Json.mkObj [("runTableOK", Json.bool (runTableOK rt)), ("launchTableOK", Json.bool (launchTableOK lt))])
  | "c13.verdicts" =>
    let rs ← (← arrField j "records").toList.mapM recOfJson
    let runs ← strList (← field j "runs")
    let launches ← (← arrField j "launches").toList.mapM fun e => do
      let p ← e.getArr?
      if p.size != 2 then throw "launch key"
      pure (← p[0]!.getStr?, ← p[1]!.getNat?)
    let rv := runs.map fun r => runVerdictJson (runVerdict st.rtbl st.terminal r rs)
    let lv := launches.map fun k => launchVerdictJson (launchVerdict st.rtbl st.ltbl st.terminal k rs)
    pure (st, Json.mkObj [("runs", Json.arr rv.toArray), ("launches", Json.arr lv.toArray)])
  | _ => throw s!"c13: unknown op {op}"

end SemantivaModel.Driver.C13
