import SemantivaModel.Driver.C01
import SemantivaModel.Model.Ser
namespace SemantivaModel.Driver.C07
open Lean SemantivaModel.Driver SemantivaModel.Exec SemantivaModel.Ser

def channelName : Channel → String
  | .config => "node" | .context => "context" | .default => "default" | .none_ => "none"

def viewJson (v : View) : Json :=
  Json.mkObj [("ok", Json.bool v.ok), ("created", jStrs v.created), ("updated", jStrs v.updated),
    ("params", jList (fun (r : ParamRec) => Json.arr #[Json.str r.name, C01.valJson r.value, Json.str (channelName r.source)]) v.params),
    ("expectedKeys", jStrs v.expectedKeys), ("missing", jStrs v.missing),
    ("inputTypeOk", Json.bool v.inputTypeOk), ("outputTypeOk", Json.bool v.outputTypeOk),
    ("writesRealized", Json.bool v.writesRealized),
    ("dataIn", C01.dataJson v.dataIn), ("dataOut", C01.dataJson v.dataOut)]

/-- `c07.ser`: nodes, ctx, optional data, `resolveTable` (documented precedence, for the reference run) and
    `serTable` (as extracted from the SER machinery) → the SER views of the run. -/
def handle (op : String) (j : Json) : Except String Json := do
  match op with
  | "c07.ser" =>
    let tbl ← C01.tableOfJson (← field j "resolveTable")
    let stbl ← C01.tableOfJson (← field j "serTable")
    let ns ← (← arrField j "nodes").toList.mapM C01.nodeOfJson
    let c ← C01.kvList (← field j "ctx")
    let d ← match optField j "data" with
      | none => pure Data.nodata
      | some v => C01.dataOfJson v
    match constructAll ns 0 with
    | some _ => pure (Json.mkObj [("constructError", Json.bool true)])
    | none => pure (Json.mkObj [("sers", jList viewJson (serStream tbl stbl ns (d, c)))])
  | _ => throw s!"c07: unknown op {op}"

end SemantivaModel.Driver.C07
