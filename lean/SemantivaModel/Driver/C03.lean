import SemantivaModel.Driver.C01
import SemantivaModel.Driver.C12
import SemantivaModel.Model.Sweep
namespace SemantivaModel.Driver.C03
open Lean SemantivaModel.Driver SemantivaModel.Exec SemantivaModel.Sweep

/-- A variable as declared: an explicit sequence of tokens, or a context key to read at run time. -/
inductive VarDecl | seq (vs : List String) | ctx (key : String)

structure SweepNode where
  kind : String                      -- "source" | "operation" | "probe"
  vars : List (String × VarDecl)
  byPos : Bool
  broadcast : Bool
  exprs : List (String × SExpr)
  beh : Beh
  declared : List String
  elementParams : List PSig          -- all parameters of the wrapped processor (with defaults)
  inT : String
  outT : String
  config : List (String × Val)
  contextKey : Option String

def sexprOfJson (j : Json) : Except String SExpr := do
  let a ← j.getArr?
  match (← a[0]!.getStr?) with
  | "tuple" => pure (.tuple (← strList a[1]!))
  | "arith" => pure (.arith (← C12.exprOfJson a[1]!))
  | t => throw s!"sexpr {t}"

def sweepOfJson (j : Json) : Except String SweepNode := do
  let vars ← (← arrField j "vars").toList.mapM fun e => do
    let p ← e.getArr?
    let name ← p[0]!.getStr?
    let d ← p[1]!.getArr?
    match (← d[0]!.getStr?) with
    | "seq" => pure (name, VarDecl.seq (← strList d[1]!))
    | "ctx" => pure (name, VarDecl.ctx (← d[1]!.getStr?))
    | t => throw s!"vardecl {t}"
  let exprs ← (← arrField j "exprs").toList.mapM fun e => do
    let p ← e.getArr?
    pure (← p[0]!.getStr?, ← sexprOfJson p[1]!)
  let eps ← (← arrField j "elementParams").toList.mapM fun e => do
    let p ← e.getArr?
    pure ({ name := ← p[0]!.getStr?, dflt := ← C01.optVal p[1]! } : PSig)
  let ck ← match optField j "contextKey" with
    | none => pure none
    | some v => some <$> v.getStr?
  pure { kind := ← strField j "kind", vars := vars, byPos := ← boolField j "byPos", broadcast := ← boolField j "broadcast",
         exprs := exprs, beh := ← C01.behOfJson (← field j "beh"), declared := ← strList (← field j "declared"),
         elementParams := eps, inT := ← strField j "inT", outT := ← strField j "outT",
         config := ← C01.kvList (← field j "config"), contextKey := ck }

/-- tokens of a sequence held in the context -/
def seqTokens : Val → Option (List String)
  | .arr xs => xs.mapM (fun v => match v with | .atom t => some t | _ => none)
  | _ => none

inductive NodeJ | plain (n : Node) | sweep (s : SweepNode)

def sweepStep (tbl : ResolveTable) (sn : SweepNode) (s : Data × Ctx) : Except String (Data × Ctx) := do
  let (d, c) := s
  if !typeAccepts sn.inT d.ty then throw "flow:typeGate"
  -- the node-level view: a pseudo node carrying the config so that `resolve` applies
  let pseudo : Node := { kind := .operation, params := [], inT := sn.inT, outT := sn.outT, config := sn.config }
  -- from_context keys are ordinary processing parameters of the wrapper
  let vars ← sn.vars.mapM fun (name, decl) => match decl with
    | .seq vs => pure (name, vs)
    | .ctx key => match resolve tbl pseudo c ⟨key, none⟩ with
      | .ok v => match seqTokens v with
        | some (t :: ts) => pure (name, t :: ts)
        | _ => throw "proc:from_context value is not a non-empty sequence"
      | .error _ => throw "flow:unresolved"
  let bound := sn.exprs.map (·.1)
  let external := sn.elementParams.filter (fun p => !bound.contains p.name)
  let base ← external.mapM fun p => match resolve tbl pseudo c p with
    | .ok v => pure (p.name, v)
    | .error _ => throw "flow:unresolved"
  let spec : Spec := { vars := vars, byPos := sn.byPos, broadcast := sn.broadcast, exprs := sn.exprs }
  let runs ← match iterate spec with
    | .ok r => pure r
    | .error _ => throw "proc:unequal lengths"
  let (vs, ws) ← match elements sn.beh sn.declared (sn.elementParams.map (·.name)) (dataVal d) base spec runs with
    | .ok r => pure r
    | .error (.element (.undeclaredWrite _)) => throw "flow:undeclaredWrite"
    | .error _ => throw "proc:element"
  let c₁ := applyWrites (applyWrites c ws) (published spec)
  match sn.kind with
  | "probe" => pure (d, c₁.set (sn.contextKey.getD "") (.arr vs))
  | _ => pure (Data.coll sn.outT vs, c₁)

def handle (st : C01.State) (op : String) (j : Json) : Except String Json := do
  match op with
  | "c03.run" =>
    let ns ← (← arrField j "nodes").toList.mapM fun nj =>
      match nj.getObjVal? "sweep" with
      | .ok sj => NodeJ.sweep <$> sweepOfJson sj
      | .error _ => NodeJ.plain <$> C01.nodeOfJson nj
    let c ← C01.kvList (← field j "ctx")
    let rec go (ns : List NodeJ) (i : Nat) (s : Data × Ctx) : Json :=
      match ns with
      | [] => Json.mkObj [("ok", Json.mkObj [("data", C01.dataJson s.1), ("ctx", C01.ctxJson s.2)])]
      | .plain n :: rest =>
        match step st.tbl n s with
        | .ok s' => go rest (i + 1) s'
        | .error e => Json.mkObj [("runError", Json.arr #[Json.num i, C01.errJson e])]
      | .sweep sn :: rest =>
        match sweepStep st.tbl sn s with
        | .ok s' => go rest (i + 1) s'
        | .error e => Json.mkObj [("runError", Json.arr #[Json.num i, jStrs [(e.splitOn ":").headD "proc", e]])]
    -- construction checks of the plain nodes
    let plain := ns.filterMap (fun n => match n with | .plain p => some p | _ => none)
    match constructAll plain 0 with
    | some (i, e) => pure (Json.mkObj [("constructError", Json.arr #[Json.num i, C01.errJson e])])
    | none => pure (go ns 0 (Data.nodata, c))
  | "c03.iterate" =>
    let sn ← sweepOfJson (← field j "sweep")
    let vars := sn.vars.filterMap (fun (n, d) => match d with | .seq vs => some (n, vs) | _ => none)
    match iterate { vars := vars, byPos := sn.byPos, broadcast := sn.broadcast, exprs := [] } with
    | .ok runs => pure (Json.mkObj [("steps", jList (fun (r : RunSpace.Run) => jList (fun (kv : String × String) => jStrs [kv.1, kv.2]) r) runs)])
    | .error _ => pure (Json.mkObj [("error", Json.str "unequalLengths")])
  | _ => throw s!"c03: unknown op {op}"

end SemantivaModel.Driver.C03
