import Lean.Data.Json
/-! JSON helpers shared by the per-model driver handlers (compiled into `modeldriver`). -/
namespace SemantivaModel.Driver
open Lean

def field (j : Json) (k : String) : Except String Json := j.getObjVal? k
def strField (j : Json) (k : String) : Except String String := do (← field j k).getStr?
def boolField (j : Json) (k : String) : Except String Bool := do (← field j k).getBool?
def natField (j : Json) (k : String) : Except String Nat := do (← field j k).getNat?
def intField (j : Json) (k : String) : Except String Int := do (← field j k).getInt?
def arrField (j : Json) (k : String) : Except String (Array Json) := do (← field j k).getArr?
def optField (j : Json) (k : String) : Option Json :=
  match j.getObjVal? k with
  | .ok .null => none
  | .ok v => some v
  | .error _ => none

def strList (j : Json) : Except String (List String) := do
  let a ← j.getArr?
  a.toList.mapM (·.getStr?)

def jStrs (xs : List String) : Json := Json.arr (xs.map Json.str).toArray
def jList {α} (f : α → Json) (xs : List α) : Json := Json.arr (xs.map f).toArray

end SemantivaModel.Driver
