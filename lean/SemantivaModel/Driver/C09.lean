import SemantivaModel.Driver.C04
import SemantivaModel.Model.Launch
namespace SemantivaModel.Driver.C09
open Lean SemantivaModel.Driver SemantivaModel.Json SemantivaModel.Launch

def membersOfJson (j : Json) : Except String Members := do
  (← j.getArr?).toList.mapM fun e => do
    let p ← e.getArr?
    if p.size != 2 then throw "member: expected [key, value]"
    pure (← p[0]!.getStr?, ← C04.jOfJson p[1]!)

def sourceOfJson (j : Json) : Except String SourceCfg := do
  let sel ← match optField j "select" with
    | none => pure none
    | some v => some <$> strList v
  pure { format := ← strField j "format", path := ← strField j "path", select := sel,
         rename := ← membersOfJson (← field j "rename"), mode := ← strField j "mode" }

def blockOfJson (j : Json) : Except String BlockCfg := do
  let src ← match optField j "source" with
    | none => pure none
    | some v => some <$> sourceOfJson v
  pure { mode := ← strField j "mode", context := ← membersOfJson (← field j "context"), source := src }

def cfgOfJson (j : Json) : Except String RSCfg := do
  pure { combine := ← strField j "combine", maxRuns := ← natField j "maxRuns", dryRun := ← boolField j "dryRun",
         blocks := ← (← arrField j "blocks").toList.mapM blockOfJson }

def shapeOfJson (j : Json) : Except String LaunchShape := do
  pure { startBeforeLoop := ← boolField j "startBeforeLoop", loopInTry := ← boolField j "loopInTry",
         endInFinally := ← boolField j "endInFinally", countAfterProcess := ← boolField j "countAfterProcess",
         zeroBased := ← boolField j "zeroBased", handlersSwallow := ← boolField j "handlersSwallow" }

def evJson : Ev → Json
  | .rsStart n => Lean.Json.arr #[Lean.Json.str "rsStart", Lean.Json.num n]
  | .run i ok => Lean.Json.arr #[Lean.Json.str "run", Lean.Json.num i, Lean.Json.bool ok]
  | .rsEnd n c f => Lean.Json.arr #[Lean.Json.str "rsEnd", Lean.Json.num n, Lean.Json.num c, Lean.Json.bool f]

def handle (op : String) (j : Json) : Except String Json := do
  match op with
  | "c09.launch" =>
    let sh ← shapeOfJson (← field j "shape")
    let os ← (← arrField j "outcomes").toList.mapM (·.getBool?)
    pure (Lean.Json.mkObj [("events", jList evJson (runLaunch sh os)), ("expected", jList evJson (expected os))])
  | "c09.specPre" =>
    let c ← cfgOfJson (← field j "cfg")
    let raw ← C04.jOfJson (← field j "raw")
    pure (Lean.Json.mkObj [("specPre", Lean.Json.str (specPre c)), ("rawPre", Lean.Json.str (inspectPre false raw c)),
                      ("wf", Lean.Json.bool (wf (specTree c)))])
  | "c09.inputsPre" =>
    let fps ← (← arrField j "fps").toList.mapM fun e => do
      pure ({ role := ← strField e "role", uri := ← strField e "uri", sha256 := ← strField e "sha256", size := ← natField e "size" } : Fingerprint)
    pure (Lean.Json.mkObj [("inputsPre", Lean.Json.str (inputsPre (← strField j "specId") fps))])
  | "c09.launchPre" =>
    pure (Lean.Json.mkObj [("launchPre", Lean.Json.str (launchPre (← strField j "basis") (← strField j "key")))])
  | _ => throw s!"c09: unknown op {op}"

end SemantivaModel.Driver.C09
