import SemantivaModel.Driver.Util
import SemantivaModel.Model.Residue
namespace SemantivaModel.Driver.C18
open Lean SemantivaModel.Driver SemantivaModel.Residue

def handle (op : String) (j : Json) : Except String Json := do
  match op with
  | "c18.runs" =>
    let caches ← boolField j "caches"
    let g ← strList (← field j "generated")
    let reg ← strList (← field j "registry")
    let ns ← (← arrField j "counts").toList.mapM (·.getNat?)
    pure (Json.mkObj [("sizes", jList (fun (n : Nat) => Json.num (runs caches g reg n).length) ns)])
  | _ => throw s!"c18: unknown op {op}"

end SemantivaModel.Driver.C18
