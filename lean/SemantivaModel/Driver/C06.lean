import SemantivaModel.Driver.Util
import SemantivaModel.Model.Trace
namespace SemantivaModel.Driver.C06
open Lean SemantivaModel.Driver SemantivaModel.Trace

def shapeOfJson (j : Json) : Except String LifecycleShape := do
  pure { startBeforeConstruct := ← boolField j "startBeforeConstruct", constructProtected := ← boolField j "constructProtected",
         nodeCatchesBase := ← boolField j "nodeCatchesBase", pipeCatchesBase := ← boolField j "pipeCatchesBase",
         serOnSuccess := ← boolField j "serOnSuccess", serOnError := ← boolField j "serOnError",
         nodeReraises := ← boolField j "nodeReraises", pipeReraises := ← boolField j "pipeReraises",
         endOkAfterLoop := ← boolField j "endOkAfterLoop", endErrInHandler := ← boolField j "endErrInHandler",
         closeInFinally := ← boolField j "closeInFinally" }

def clsOfJson (j : Json) : Except String (Option ExcClass) :=
  match j with
  | .null => pure none
  | .str "exception" => pure (some .exception)
  | .str "base" => pure (some .base)
  | _ => throw "exception class"

def evStr : Ev → String
  | .start => "start"
  | .ser i true => s!"ser:{i}:succeeded"
  | .ser i false => s!"ser:{i}:error"
  | .end_ true => "end:ok"
  | .end_ false => "end:error"

def handle (op : String) (j : Json) : Except String Json := do
  match op with
  | "c06.run" =>
    let sh ← shapeOfJson (← field j "shape")
    let pj ← field j "plan"
    let construct ← clsOfJson ((pj.getObjVal? "construct").toOption.getD .null)
    let nodes ← (← arrField pj "nodes").toList.mapM clsOfJson
    let r := runTraced sh { construct := construct, nodes := nodes }
    pure (Json.mkObj [("events", jStrs (r.events.map evStr)), ("closed", Json.bool r.closed),
      ("raised", match r.raised with | none => Json.null | some .exception => Json.str "exception" | some .base => Json.str "base"),
      ("ran", Json.num r.ran), ("good", Json.bool sh.good)])
  | "c06.publishFault" =>
    let sh ← shapeOfJson (← field j "shape")
    let outside ← boolField j "publishOutside"
    let k ← natField j "k"
    let c ← clsOfJson (← field j "cls")
    match c with
    | none => throw "publish fault needs an exception class"
    | some c =>
      let r := runPublishFault sh outside k c
      pure (Json.mkObj [("events", jStrs (r.events.map evStr)), ("closed", Json.bool r.closed),
        ("raised", match r.raised with | none => Json.null | some .exception => Json.str "exception" | some .base => Json.str "base"),
        ("ran", Json.num r.ran)])
  | _ => throw s!"c06: unknown op {op}"

end SemantivaModel.Driver.C06
