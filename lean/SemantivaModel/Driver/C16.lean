import SemantivaModel.Driver.Util
import SemantivaModel.Model.Factory
namespace SemantivaModel.Driver.C16
open Lean SemantivaModel.Driver SemantivaModel.Factory

def kindOf : String → Except String Kind
  | "dataSource" => pure .dataSource | "payloadSource" => pure .payloadSource | "operation" => pure .operation
  | "probe" => pure .probe | "dataSink" => pure .dataSink | "payloadSink" => pure .payloadSink | "ctxProc" => pure .ctxProc
  | s => throw s!"kind {s}"

def optStr (j : Json) (k : String) : Except String (Option String) :=
  match optField j k with
  | none => pure none
  | some v => some <$> v.getStr?

def descOfJson (j : Json) : Except String Desc := do
  pure { kind := ← kindOf (← strField j "kind"), inT := ← strField j "inT", outT := ← optStr j "outT",
         created := ← strList (← field j "created"), params := ← strList (← field j "params") }

def optStrJson : Option String → Json
  | some s => Json.str s
  | none => Json.null

def descJson (d : Desc) : Json :=
  Json.mkObj [("inT", Json.str d.inT), ("outT", optStrJson d.outT), ("created", jStrs d.created), ("params", jStrs d.params)]

def nodeJson (n : NodeDesc) : Json :=
  Json.mkObj [("inT", optStrJson n.inT), ("outT", optStrJson n.outT), ("created", jStrs n.created)]

def handle (op : String) (j : Json) : Except String Json := do
  match op with
  | "c16.desc" =>
    let d ← descOfJson (← field j "d")
    let ck ← optStr j "ck"
    let t ← match (← strField j "t") with
      | "comp" => pure (Term.comp d)
      | "slice" => pure (Term.slice d (← strField j "coll"))
      | "sweep" => pure (Term.sweep d (← optStr j "coll") (← strList (← field j "vars")))
      | s => throw s!"term {s}"
    match descOf t with
    | none => pure (Json.mkObj [("desc", Json.null), ("baseOK", Json.bool (baseOK d))])
    | some d' =>
      match nodeOf d' ck with
      | none => pure (Json.mkObj [("desc", descJson d'), ("node", Json.null), ("baseOK", Json.bool (baseOK d)), ("procOK", Json.bool (procOK d'))])
      | some n => pure (Json.mkObj [("desc", descJson d'), ("node", nodeJson n), ("baseOK", Json.bool (baseOK d)),
                                    ("procOK", Json.bool (procOK d')), ("nodeOK", Json.bool (nodeOK d' n)), ("keysMirror", Json.bool (keysMirror d' ck n))])
  | _ => throw s!"c16: unknown op {op}"

end SemantivaModel.Driver.C16
