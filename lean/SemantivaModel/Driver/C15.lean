import SemantivaModel.Driver.Util
import SemantivaModel.Model.JobQueue
namespace SemantivaModel.Driver.C15
open Lean SemantivaModel.Driver SemantivaModel.JobQueue

/-- The harness names jobs; the model's events name positions: translate in the current state. -/
def toEv (s : St) (j : Json) : Except String (Option Ev) := do
  let a ← j.getArr?
  match (← a[0]!.getStr?) with
  | "enqueue" => pure (some (.enqueue ⟨← a[1]!.getNat?, ← a[2]!.getNat?⟩))
  | "publish" =>
    let k ← a[1]!.getNat?
    match s.queued with
    | j :: _ => pure (if j.id == k then some .publish else none)
    | [] => pure none
  | "take" =>
    let w ← a[1]!.getNat?
    let k ← a[2]!.getNat?
    pure ((s.cfg.findIdx? (·.id == k)).map (fun i => Ev.take w i))
  | "finish" =>
    let k ← a[2]!.getNat?
    pure ((s.running.findIdx? (·.2.id == k)).map (fun i => Ev.finish i))
  | "collect" =>
    let k ← a[1]!.getNat?
    pure ((s.status.findIdx? (·.1 == k)).map (fun i => Ev.collect i))
  | t => throw s!"event {t}"

def replay (rf : Bool) (run : Nat → Res) : St → List Json → Nat → Except String (St × Option Nat)
  | s, [], _ => pure (s, none)
  | s, e :: es, n => do
    match ← toEv s e with
    | none => pure (s, some n)
    | some ev =>
      match step rf run s ev with
      | none => pure (s, some n)
      | some s' => replay rf run s' es (n + 1)

def handle (op : String) (j : Json) : Except String Json := do
  match op with
  | "c15.replay" =>
    let rf ← boolField j "reportsFailure"
    let fails ← (← arrField j "fails").toList.mapM (·.getBool?)
    let run : Nat → Res := fun p => if fails.getD p false then .err p else .ok p
    let (s, stuck) ← replay rf run {} (← arrField j "events").toList 0
    pure (Json.mkObj [("stuckAt", match stuck with | some n => Json.num n | none => Json.null),
                      ("done", jList (fun (m : Nat × Res) => Json.arr #[Json.num m.1, Json.bool m.2.isOk]) s.done),
                      ("pending", jList (fun (n : Nat) => Json.num n) s.pending),
                      ("quiescent", Json.bool (quiescent s))])
  | _ => throw s!"c15: unknown op {op}"

end SemantivaModel.Driver.C15
