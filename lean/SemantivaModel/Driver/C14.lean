import SemantivaModel.Driver.Util
import SemantivaModel.Model.Transport
namespace SemantivaModel.Driver.C14
open Lean SemantivaModel.Driver SemantivaModel.Transport

/-- The fragment of fnmatch the harness uses: exact names, `*`, and `prefix*`. -/
def globMatch (pattern chan : String) : Bool :=
  if pattern == "*" then true
  else if pattern.endsWith "*" then chan.startsWith (pattern.take (pattern.length - 1))
  else pattern == chan

def shapeOfJson (j : Json) : Except String Shape := do
  pure { getOrCreateAtomic := ← boolField j "getOrCreateAtomic", testPopAtomic := ← boolField j "testPopAtomic",
         appendLocked := ← boolField j "appendLocked", snapshotsItems := ← boolField j "snapshotsItems",
         filtersByPattern := ← boolField j "filtersByPattern", yieldsEachPopped := ← boolField j "yieldsEachPopped" }

def tidOfJson (j : Json) : Except String Tid := do
  let a ← j.getArr?
  if a.size != 2 then throw "tid: expected [kind, index]"
  match (← a[0]!.getStr?) with
  | "p" => pure (.pub (← a[1]!.getNat?))
  | "s" => pure (.sub (← a[1]!.getNat?))
  | k => throw s!"tid kind {k}"

def msgJson (m : Msg) : Json := Json.arr #[Json.num m.pub, Json.str m.chan, Json.num m.seq]

def handle (op : String) (j : Json) : Except String Json := do
  match op with
  | "c14.run" =>
    let sh ← shapeOfJson (← field j "shape")
    let programs ← (← arrField j "programs").toList.mapM strList
    let patterns ← strList (← field j "patterns")
    let sched ← (← arrField j "schedule").toList.mapM tidOfJson
    let nmsg := (programs.map List.length).foldl (· + ·) 0
    let drainer := patterns.length
    let s0 := init programs (patterns ++ ["*"])
    let s1 := run sh globMatch s0 sched
    -- let every publisher finish, then drain with the catch-all subscriber
    let finishPubs := (List.range programs.length).flatMap (fun i => List.replicate (4 * nmsg + 4) (Tid.pub i))
    let s2 := run sh globMatch s1 finishPubs
    let fuel := 6 * (nmsg + programs.length + 4)
    let finishSubs := (List.range patterns.length).flatMap (fun j => List.replicate fuel (Tid.sub j))
    let s2 := run sh globMatch s2 finishSubs
    let s3 := run sh globMatch s2 (List.replicate fuel (Tid.sub drainer))
    pure (Json.mkObj [
      ("good", Json.bool sh.good),
      ("appended", jList msgJson s3.appended),
      ("delivered", jList (fun (u : Sub) => jList msgJson u.delivered) s3.subs),
      ("crashed", jList (fun (u : Sub) => Json.bool (match u.pc with | .crashed => true | _ => false)) s3.subs),
      ("left", jList (fun (q : List Msg) => jList msgJson q) s3.stores),
      ("chanMap", jList (fun (kv : String × Qid) => Json.arr #[Json.str kv.1, Json.num kv.2]) s3.chanMap)])
  | _ => throw s!"c14: unknown op {op}"

end SemantivaModel.Driver.C14
