import SemantivaModel.Driver.Util
import SemantivaModel.Model.Identity
namespace SemantivaModel.Driver.C04
open Lean SemantivaModel.Driver SemantivaModel.Json SemantivaModel.Identity

/-- {"t": token} | {"a": [...]} | {"o": [[key, value], ...]} -/
partial def jOfJson (j : Json) : Except String J := do
  match j.getObjVal? "t" with
  | .ok t => pure (.atom (← t.getStr?))
  | .error _ =>
    match j.getObjVal? "a" with
    | .ok a => do pure (.arr (← (← a.getArr?).toList.mapM jOfJson))
    | .error _ =>
      let o ← field j "o"
      let ms ← (← o.getArr?).toList.mapM fun e => do
        let p ← e.getArr?
        if p.size != 2 then throw "member: expected [key, value]"
        pure (← p[0]!.getStr?, ← jOfJson p[1]!)
      pure (.obj ms)

def sweepOfJson (j : Json) : Except String SweepCfg := do
  let exprs ← (← arrField j "exprSigs").toList.mapM fun e => do
    let p ← e.getArr?
    pure (← p[0]!.getStr?, ← p[1]!.getStr?)
  let vars ← (← arrField j "varDomains").toList.mapM fun e => do
    let p ← e.getArr?
    pure (← p[0]!.getStr?, ← jOfJson p[1]!)
  let coll ← match optField j "collection" with
    | none => pure none
    | some v => some <$> v.getStr?
  pure { elementRef := ← strField j "elementRef", exprSigs := exprs, varDomains := vars, mode := ← strField j "mode",
         broadcast := ← boolField j "broadcast", collection := coll,
         requiredExternal := ← strList (← field j "requiredExternal"), contextKeys := ← strList (← field j "contextKeys") }

def handle (op : String) (j : Json) : Except String Json := do
  match op with
  | "c04.pre" =>
    let sortedKeys ← boolField j "sortedKeys"
    let withNodeSem ← boolField j "withNodeSem"
    let nodes ← (← arrField j "nodes").toList.mapM fun nj => do
      let sw ← match optField nj "sweep" with
        | none => pure none
        | some s => some <$> sweepOfJson s
      pure (({ processorRef := ← strField nj "processor_ref", params := ← jOfJson (← field nj "params") } : NodeCfg), sw)
    let uuidPres := nodes.zipIdx.map (fun (n, i) => uuidPre n.1 i)
    let semPres := nodes.map (fun n => match n.2 with | some s => Lean.Json.str (nodeSemPre sortedKeys s) | none => Lean.Json.null)
    let base := [("uuidPre", jStrs uuidPres), ("nodeSemPre", Lean.Json.arr semPres.toArray)]
    match optField j "uuids", optField j "semids" with
    | some us, some ss =>
      let uuids ← strList us
      let semids ← strList ss
      let ids := (uuids.zip semids).map (fun p => ({ uuid := p.1, semid := p.2 } : NodeId))
      pure (Lean.Json.mkObj (base ++ [("graphPre", Lean.Json.str (pipelineIdPre ((nodes.map (·.1)).zip uuids))),
                                  ("semanticPre", Lean.Json.str (semanticPre withNodeSem ids)),
                                  ("configPre", Lean.Json.str (configPre ids))]))
    | _, _ => pure (Lean.Json.mkObj base)
  | "c04.canonical" =>
    let a ← jOfJson (← field j "value")
    pure (Lean.Json.mkObj [("canonical", Lean.Json.str (canonical a)), ("wf", Lean.Json.bool (wf a))])
  | _ => throw s!"c04: unknown op {op}"

end SemantivaModel.Driver.C04
