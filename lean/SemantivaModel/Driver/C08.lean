import SemantivaModel.Driver.Util
import SemantivaModel.Model.RunSpace
namespace SemantivaModel.Driver.C08
open Lean SemantivaModel.Driver SemantivaModel.RunSpace

def modeOfString : String → Except String Mode
  | "by_position" => pure .byPos
  | "combinatorial" => pure .comb
  | s => throw s!"unknown mode {s}"

def colsOfJson (j : Json) : Except String Cols := do
  (← j.getArr?).toList.mapM fun e => do
    let p ← e.getArr?
    if p.size != 2 then throw "cols: expected [key, values]"
    pure (← p[0]!.getStr?, ← strList p[1]!)

def sourceOfJson (j : Json) : Except String Source := do
  let sel ← match optField j "select" with
    | none => pure none
    | some v => some <$> strList v
  let ren ← (← arrField j "rename").toList.mapM fun e => do
    let p ← e.getArr?
    if p.size != 2 then throw "rename: expected [from, to]"
    pure (← p[0]!.getStr?, ← p[1]!.getStr?)
  pure { mode := ← modeOfString (← strField j "mode"), cols := ← colsOfJson (← field j "cols"), select := sel, rename := ren }

def blockOfJson (j : Json) : Except String Block := do
  let src ← match optField j "source" with
    | none => pure none
    | some v => some <$> sourceOfJson v
  pure { mode := ← modeOfString (← strField j "mode"), context := ← colsOfJson (← field j "context"), source := src }

def specOfJson (j : Json) : Except String Spec := do
  let bs ← (← arrField j "blocks").toList.mapM blockOfJson
  pure { blocks := bs, combine := ← modeOfString (← strField j "combine"), maxRuns := ← natField j "max_runs" }

def errJson : Err → Json
  | .mismatch => Json.str "mismatch"
  | .dupWithin => Json.str "dupWithin"
  | .dupAcross => Json.str "dupAcross"
  | .renameCollision => Json.str "renameCollision"
  | .missingColumn => Json.str "missingColumn"
  | .maxRuns n => Json.arr #[Json.str "maxRuns", Json.num n]

def handle (op : String) (j : Json) : Except String Json := do
  match op with
  | "c08.expand" =>
    let s ← specOfJson (← field j "spec")
    match expand s with
    | .ok runs => pure (Json.mkObj [("runs", jList (fun (r : Run) => jList (fun (kv : String × Val) => jStrs [kv.1, kv.2]) r) runs)])
    | .error e => pure (Json.mkObj [("error", errJson e)])
  | _ => throw s!"c08: unknown op {op}"

end SemantivaModel.Driver.C08
