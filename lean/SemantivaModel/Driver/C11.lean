import SemantivaModel.Driver.Util
import SemantivaModel.Model.SafeEval
namespace SemantivaModel.Driver.C11
open Lean SemantivaModel.Driver SemantivaModel.SafeEval

partial def treeOfJson (j : Json) : Except String Tree := do
  let a ← j.getArr?
  if a.size != 3 then throw "tree: expected [kind, ident, fields]"
  let kind ← a[0]!.getStr?
  let ident ← match a[1]! with
    | .null => pure none
    | v => (some <$> v.getStr?)
  let fs ← a[2]!.getArr?
  let fields ← fs.toList.mapM fun fj => do
    let p ← fj.getArr?
    if p.size != 2 then throw "tree: expected [field, children]"
    let name ← p[0]!.getStr?
    let cs ← p[1]!.getArr?
    let cs ← cs.toList.mapM treeOfJson
    pure (name, cs)
  pure (.node kind ident fields)

def ruleOfString : String → Except String Rule
  | "visited" => pure .visited
  | "ignored" => pure .ignored
  | "mustBeEmpty" => pure .mustBeEmpty
  | s => throw s!"unknown rule {s}"

def policyOfJson (j : Json) : Except String Policy := do
  let kinds ← strList (← field j "kinds")
  let funcs ← strList (← field j "funcs")
  let nameChecked ← boolField j "nameChecked"
  let rs ← arrField j "rules"
  let rules ← rs.toList.mapM fun r => do
    let a ← r.getArr?
    if a.size != 3 then throw "rule: expected [kind, field, rule]"
    pure ((← a[0]!.getStr?, ← a[1]!.getStr?), ← ruleOfString (← a[2]!.getStr?))
  pure { kinds, funcs, rules, nameChecked }

def grammarOfJson (j : Json) : Except String Grammar := do
  let a ← j.getArr?
  a.toList.mapM fun e => do
    let p ← e.getArr?
    if p.size != 2 then throw "grammar: expected [kind, fields]"
    pure (← p[0]!.getStr?, ← strList p[1]!)

structure State where
  policy : Policy := default
  grammar : Grammar := []

def handle (st : State) (op : String) (j : Json) : Except String (State × Json) := do
  match op with
  | "c11.setup" =>
    let p ← policyOfJson (← field j "policy")
    let g ← grammarOfJson (← field j "grammar")
    pure ({ policy := p, grammar := g },
      Json.mkObj [("total", Json.bool (p.total g)),
                  ("holes", jList (fun (h : String × String) => jStrs [h.1, h.2]) (p.holes g))])
  | "c11.accepts" =>
    let names ← strList (← field j "names")
    let t ← treeOfJson (← field j "tree")
    pure (st, Json.mkObj [("accepts", Json.bool (accepts st.policy names t)),
                          ("confined", Json.bool (confined names t)),
                          ("wf", Json.bool (wellFormed st.grammar t))])
  | _ => throw s!"c11: unknown op {op}"

end SemantivaModel.Driver.C11
