import SemantivaModel.Tie.C06
open SemantivaModel.Trace
#print axioms trace_wellformed
#print axioms bracketed
#print axioms always_closed
#print axioms SemantivaModel.Tie.C06.shape_good
#print axioms SemantivaModel.Tie.C06.C06_trace_wellformed
#print axioms SemantivaModel.Tie.C06.C06_bracketed
#print axioms SemantivaModel.Tie.C06.C06_always_closed
#print axioms publish_fault_wellformed
#print axioms publish_fault_one_ser_per_node
#print axioms SemantivaModel.Tie.C06.publish_outside
#print axioms SemantivaModel.Tie.C06.C06_publish_fault
#print axioms good_necessary_table
#print axioms good_necessary
#print axioms start_flag_unobservable
#print axioms trace_wellformed_iff
#print axioms SemantivaModel.Tie.C06.C06_tight
