import SemantivaModel.Tie.C13
open SemantivaModel.Aggregator
#print axioms run_verdict_perm_invariant
#print axioms launch_verdict_perm_invariant
#print axioms interleaving_invariant
#print axioms finalize_idempotent
#print axioms take_fullTrace
#print axioms prefix_started_verdict
#print axioms full_trace_verdict
#print axioms fullTrace_compat
#print axioms SemantivaModel.Tie.C13.runTable_ok
#print axioms SemantivaModel.Tie.C13.launchTable_ok
#print axioms SemantivaModel.Tie.C13.terminal_ok
#print axioms SemantivaModel.Tie.C13.C13_run_order_independent
#print axioms SemantivaModel.Tie.C13.C13_launch_order_independent
#print axioms SemantivaModel.Tie.C13.C13_prefix_started
#print axioms SemantivaModel.Tie.C13.C13_full_trace
#print axioms run_verdict_local
#print axioms launch_verdict_local
