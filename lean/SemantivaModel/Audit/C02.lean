import SemantivaModel.Tie.C02
open SemantivaModel.Inspect
#print axioms resolve_ok
#print axioms step_effect
#print axioms stepA_sound
#print axioms constructAll_of_analyse
#print axioms analyseFrom_sound
#print axioms analysis_sound
#print axioms key_delta_declared
#print axioms SemantivaModel.Tie.C02.C02_analysis_sound
