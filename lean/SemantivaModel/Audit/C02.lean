import SemantivaModel.Tie.C02
open SemantivaModel.Inspect
#print axioms resolve_ok
#print axioms step_effect
#print axioms stepA_sound
#print axioms constructAll_of_analyse
#print axioms analyseFrom_sound
#print axioms analysis_sound
#print axioms key_delta_declared
#print axioms SemantivaModel.Tie.C02.C02_analysis_sound
#print axioms step_frame_get
#print axioms step_suppressed_absent
#print axioms oinv_step
#print axioms oinv_execHist
#print axioms execHist_fst
#print axioms execHist_prefix
#print axioms origin_config_true
#print axioms origin_node_true
#print axioms origin_initial_true
#print axioms origin_default_true_partial
#print axioms simAO_prefix
#print axioms origin_initial_true_of_accepted
#print axioms origin_default_untrue_witness
#print axioms SemantivaModel.Tie.C02.C02_origin_node_true
#print axioms SemantivaModel.Tie.C02.C02_origin_initial_true
#print axioms SemantivaModel.Tie.C02.C02_origin_default_true_partial
