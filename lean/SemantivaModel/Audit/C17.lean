import SemantivaModel.Tie.C17
open SemantivaModel.Gate
#print axioms gateOK_row
#print axioms no_execution_when_rejected
#print axioms rejected_exit_code
#print axioms exit_zero_iff_all_completed
#print axioms runs_started
#print axioms SemantivaModel.Tie.C17.gate_ok
#print axioms SemantivaModel.Tie.C17.C17_no_execution
#print axioms SemantivaModel.Tie.C17.C17_exit_zero
