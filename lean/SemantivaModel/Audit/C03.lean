import SemantivaModel.Tie.C03
open SemantivaModel.Sweep
#print axioms iterate_comb
#print axioms comb_length
#print axioms comb_sorted_vars
#print axioms comb_keys
#print axioms comb_index
#print axioms pos_aligned
#print axioms pos_unequal_rejected
#print axioms pos_broadcast_cycles
#print axioms cycleRun_value
#print axioms merge_precedence
#print axioms elements_ordered
#print axioms published_every_var
#print axioms SemantivaModel.Tie.C03.C03_merge_precedence
