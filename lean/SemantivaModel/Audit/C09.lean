import SemantivaModel.Tie.C09
open SemantivaModel.Launch
#print axioms loop_good
#print axioms launch_wellformed
#print axioms bracketed
#print axioms indices_in_order
#print axioms nothing_after_failure
#print axioms counts_truthful
#print axioms expectedRuns_length
#print axioms inspect_eq_trace
#print axioms blockTree_context_perm
#print axioms specPre_key_order
#print axioms blockTree_injective
#print axioms specTree_injective
#print axioms context_value_sensitive
#print axioms fpTree_injective
#print axioms inputsTree_injective
#print axioms fpSort_perm
#print axioms SemantivaModel.Tie.C09.shape_good
#print axioms SemantivaModel.Tie.C09.inspect_parsed
#print axioms SemantivaModel.Tie.C09.C09_launch
#print axioms SemantivaModel.Tie.C09.C09_bracketed
#print axioms SemantivaModel.Tie.C09.C09_inspect_eq_trace
