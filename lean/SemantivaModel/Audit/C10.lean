import SemantivaModel.Tie.C10
open SemantivaModel.Trace
#print axioms trace_observational
#print axioms reuse_reproducible
#print axioms SemantivaModel.Tie.C10.shape_good
#print axioms SemantivaModel.Tie.C10.spec_not_mutated
#print axioms SemantivaModel.Tie.C10.C10_observational
#print axioms SemantivaModel.Tie.C10.C10_reuse
#print axioms reuse_reproducible_iff
#print axioms reuse_differs_without_copy
