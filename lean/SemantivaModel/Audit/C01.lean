import SemantivaModel.Tie.C01
open SemantivaModel.Exec
#print axioms execFrom_append
#print axioms exec_fails_exactly_there
#print axioms construct_error_runs_nothing
#print axioms resolve_precedence
#print axioms mapBeh_is_ordered_map
#print axioms probe_passes_data
#print axioms operation_frames_context
#print axioms sink_passes_through
#print axioms source_produces
#print axioms type_gate
#print axioms rename_touches_only_declared
#print axioms delete_touches_only_declared
#print axioms template_touches_only_declared
#print axioms SemantivaModel.Tie.C01.precedence_ok
#print axioms SemantivaModel.Tie.C01.C01_precedence
#print axioms SemantivaModel.Tie.C01.C01_fails_exactly_there
