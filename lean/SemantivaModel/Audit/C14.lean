import SemantivaModel.Tie.C14
open SemantivaModel.Transport
#print axioms conservation
#print axioms no_stranded_message
#print axioms only_matching_delivered
#print axioms no_half_tested
#print axioms per_publisher_channel_fifo
#print axioms exactly_once
#print axioms SemantivaModel.Tie.C14.shape_good
#print axioms SemantivaModel.Tie.C14.C14_exactly_once
#print axioms SemantivaModel.Tie.C14.C14_never_stranded
#print axioms SemantivaModel.Tie.C14.C14_only_matching
#print axioms SemantivaModel.Tie.C14.C14_fifo
