import SemantivaModel.Tie.C12
open SemantivaModel.ExprSig
#print axioms norm_sound
#print axioms normeq_implies_valeq
#print axioms sig_eq_implies_val_eq
#print axioms norm_acEquiv
#print axioms sig_acEquiv
#print axioms swap_noncomm_changes
#print axioms leaves_norm
#print axioms leaf_change_changes
#print axioms SemantivaModel.Tie.C12.commOps_ok
#print axioms SemantivaModel.Tie.C12.C12_norm_sound
#print axioms SemantivaModel.Tie.C12.C12_sig_eq_implies_val_eq
#print axioms SemantivaModel.Tie.C12.C12_commuted_forms_agree
#print axioms SemantivaModel.Tie.C12.commOps_has_add_mul
#print axioms SemantivaModel.Tie.C12.noncomm_not_flattened
