import SemantivaModel.Tie.C08
open SemantivaModel.RunSpace
#print axioms sortCols_sorted
#print axioms expandComb_length
#print axioms expandComb_getElem?
#print axioms expandComb_keys
#print axioms expandPosN_getElem?
#print axioms posSize_ok_iff
#print axioms posSize_mismatch
#print axioms blockRuns_length
#print axioms combineRuns_length
#print axioms expand_of_plan
#print axioms expand_validation_error
#print axioms expand_combine_mismatch
#print axioms expand_ok_le_cap
#print axioms SemantivaModel.Tie.C08.C08_cap
