import SemantivaModel.Tie.C11
open SemantivaModel.SafeEval
#print axioms accepts_confines
#print axioms unconfined_rejected
#print axioms accepted_reads_only_declared
#print axioms SemantivaModel.Tie.C11.policy_total
#print axioms SemantivaModel.Tie.C11.C11_accepts_confines
#print axioms SemantivaModel.Tie.C11.C11_reads_only_declared
