import SemantivaModel.Tie.C05
open SemantivaModel.Json SemantivaModel.Identity
#print axioms lookup_norm_obj
#print axioms field_eq_of_norm_eq
#print axioms nodeCanon_injective
#print axioms nodeCanon_distinct_positions
#print axioms sweepMeta_injective
#print axioms semanticPayload_injective
#print axioms SemantivaModel.Tie.C05.semantic_id_rolls_up_sweeps
#print axioms SemantivaModel.Tie.C05.C05_semantic_payload_injective
