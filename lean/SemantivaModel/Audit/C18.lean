import SemantivaModel.Tie.C18
open SemantivaModel.Residue
#print axioms addNew_subset
#print axioms addNew_mem
#print axioms addNew_fixed
#print axioms runOnce_idem
#print axioms runs_fixed
#print axioms cached_bounded
#print axioms uncached_linear
#print axioms channels_bounded
#print axioms channels_linear
#print axioms SemantivaModel.Tie.C18.C18_registry
#print axioms SemantivaModel.Tie.C18.C18_registry_growth
#print axioms SemantivaModel.Tie.C18.C18_channels
#print axioms cached_size_bound
#print axioms uncached_unbounded
