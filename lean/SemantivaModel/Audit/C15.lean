import SemantivaModel.Tie.C15
open SemantivaModel.JobQueue
#print axioms inv_init
#print axioms inv_step
#print axioms inv_reachable
#print axioms done_once
#print axioms done_own_result
#print axioms no_cross_talk
#print axioms quiescent_all_done
#print axioms lost_when_unreported
#print axioms SemantivaModel.Tie.C15.reports_failure
#print axioms SemantivaModel.Tie.C15.C15_done_once
#print axioms SemantivaModel.Tie.C15.C15_no_cross_talk
#print axioms SemantivaModel.Tie.C15.C15_no_caller_waits_forever
