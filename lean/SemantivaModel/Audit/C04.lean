import SemantivaModel.Tie.C04
open SemantivaModel.Json SemantivaModel.Identity
#print axioms sortMembers_eq_of_perm
#print axioms wf_permEq
#print axioms norm_permEq
#print axioms canonical_permEq
#print axioms identity_permEq
#print axioms uuidPre_permEq
#print axioms nodeSemPre_reorder
#print axioms configPre_order_independent
#print axioms SemantivaModel.Tie.C04.context_keys_sorted
#print axioms SemantivaModel.Tie.C04.C04_nodeSem_reorder
