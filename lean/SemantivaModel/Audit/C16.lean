import SemantivaModel.Tie.C16
open SemantivaModel.Factory
#print axioms descOf_kind
#print axioms generated_ok
#print axioms slice_preserves_created
#print axioms sweep_adds_values_keys
#print axioms rejected
#print axioms SemantivaModel.Tie.C16.C16_generated_ok
