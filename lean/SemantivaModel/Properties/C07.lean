import SemantivaModel.Model.Ser
import SemantivaModel.Properties.C01
import SemantivaModel.Proofs.Aggregator
/-!
# C07 — what a SER says about its node is true

For every node, every state and every pipeline (no bound on lengths):
* `created_iff`, `updated_iff`, `delta_sorted` — the recorded delta is exactly the difference of the two contexts;
* `recorded_iff_resolved` — with source tables satisfying the documented precedence, the SER lists a parameter with
  value `v` and source `ch` exactly when the node's own resolution passes `v` taken from channel `ch`;
* `required_present_iff`, `writes_realized`, `typeOk_iff` — the checks report PASS exactly when the condition holds;
* `stream_chain` — the data / context a SER digests as its input are those the previous SER digests as its
  output, so digests that are functions of content chain (`digest_chain`);
* `stream_shape` — one SER per node entered, all succeeded except possibly the last;
* `stamps_true`, `stamps_monotone` — UTC generators denote the reading itself, whatever the host offset, and
  non-decreasing readings give non-decreasing stamps.
-/
namespace SemantivaModel.Ser
open SemantivaModel.Exec SemantivaModel.Aggregator

/-! ## Structural equality of values -/

mutual
theorem Val.beq_iff : ∀ (a b : Val), Val.beq a b = true ↔ a = b
  | .atom a, .atom b => by simp [Val.beq]
  | .arr xs, .arr ys => by simp only [Val.beq, Val.arr.injEq]; exact Val.beqList_iff xs ys
  | .atom _, .arr _ => by simp [Val.beq]
  | .arr _, .atom _ => by simp [Val.beq]
theorem Val.beqList_iff : ∀ (xs ys : List Val), Val.beqList xs ys = true ↔ xs = ys
  | [], [] => by simp [Val.beqList]
  | x :: xs, y :: ys => by
    simp only [Val.beqList, Bool.and_eq_true, List.cons.injEq]
    rw [Val.beq_iff x y, Val.beqList_iff xs ys]
  | [], _ :: _ => by simp [Val.beqList]
  | _ :: _, [] => by simp [Val.beqList]
end

/-! ## 1. The delta is the difference -/

theorem has_iff_mem_keys (c : Ctx) (k : String) : c.has k = true ↔ k ∈ c.keys := by
  induction c with
  | nil => simp [Ctx.has, Ctx.keys, List.lookup]
  | cons kv rest ih =>
    obtain ⟨k', v⟩ := kv
    simp only [Ctx.has, Ctx.keys, List.lookup, List.map_cons, List.mem_cons] at ih ⊢
    by_cases h : k = k'
    · subst h; simp
    · have : (k == k') = false := by simpa using h
      simp only [this, h, false_or]
      exact ih

theorem created_iff (pre post : Ctx) (k : String) :
    k ∈ createdKeys pre post ↔ post.has k = true ∧ pre.has k = false := by
  simp only [createdKeys, mem_ssort, List.mem_filter, Bool.not_eq_true', has_iff_mem_keys]

theorem updated_iff (pre post : Ctx) (k : String) :
    k ∈ updatedKeys pre post ↔ ∃ a b, pre.get k = some a ∧ post.get k = some b ∧ a ≠ b := by
  simp only [updatedKeys, mem_ssort, List.mem_filter]
  constructor
  · rintro ⟨_, hch⟩
    unfold changed at hch
    split at hch
    · rename_i a b ha hb
      refine ⟨a, b, ha, hb, ?_⟩
      intro hab
      have := (Val.beq_iff a b).mpr hab
      simp [this] at hch
    · cases hch
  · rintro ⟨a, b, ha, hb, hab⟩
    refine ⟨?_, ?_⟩
    · rw [← has_iff_mem_keys]; simp [Ctx.has]; exact by simpa [Ctx.get] using congrArg Option.isSome hb
    · unfold changed
      simp only [ha, hb]
      have : Val.beq a b = false := by
        cases h : Val.beq a b
        · rfl
        · exact absurd ((Val.beq_iff a b).mp h) hab
      simp [this]

theorem delta_sorted (pre post : Ctx) :
    (createdKeys pre post).Pairwise (· < ·) ∧ (updatedKeys pre post).Pairwise (· < ·) :=
  ⟨ssort_sorted _, ssort_sorted _⟩

/-- A key is never both created and updated. -/
theorem created_updated_disjoint (pre post : Ctx) (k : String) :
    ¬ (k ∈ createdKeys pre post ∧ k ∈ updatedKeys pre post) := by
  rintro ⟨hc, hu⟩
  obtain ⟨a, _, ha, _, _⟩ := (updated_iff pre post k).mp hu
  have hpre := ((created_iff pre post k).mp hc).2
  have : pre.has k = true := by simp [Ctx.has]; simpa [Ctx.get] using congrArg Option.isSome ha
  rw [hpre] at this; cases this

/-- Every recorded write is present afterwards: `context_writes_realized` is PASS, and rightly so. -/
theorem writes_realized (tbl stbl : ResolveTable) (n : Node) (s : Data × Ctx) :
    (viewOf tbl stbl n s).writesRealized = true := by
  simp only [viewOf, List.all_eq_true, List.mem_append]
  rintro k (hk | hk)
  · exact ((created_iff _ _ k).mp hk).1
  · obtain ⟨_, b, _, hb, _⟩ := (updated_iff _ _ k).mp hk
    simp [Ctx.has]; exact by simpa [Ctx.get] using congrArg Option.isSome hb

/-! ## 2. Recorded parameters are the resolved parameters -/

/-- **C07 (provenance).** -/
theorem recorded_iff_resolved (tbl stbl : ResolveTable) (hT : precedenceOK tbl = true) (hS : precedenceOK stbl = true)
    (n : Node) (c : Ctx) (p : PSig) (v : Val) (ch : Channel) :
    recordParam stbl n c p = some ⟨p.name, v, ch⟩ ↔ (resolve tbl n c p = .ok v ∧ channelOf tbl n c p = ch) := by
  unfold recordParam resolve channelOf
  cases hcfg : n.config.lookup p.name with
  | some cv =>
    simp only [Option.isSome_some, lookup_of_ok_config hT, lookup_of_ok_config hS, Option.getD_some, Option.map_some,
      Option.some.injEq, ParamRec.mk.injEq, true_and, Except.ok.injEq]
  | none =>
    simp only [Option.isSome_none]
    cases hctx : c.lookup p.name with
    | some xv =>
      simp only [Ctx.has, hctx, Option.isSome_some, lookup_of_ok_context hT, lookup_of_ok_context hS, Option.getD_some, Ctx.get,
        Option.map_some, Option.some.injEq, ParamRec.mk.injEq, true_and, Except.ok.injEq]
    | none =>
      simp only [Ctx.has, hctx, Option.isSome_none]
      cases hd : p.dflt with
      | some dv =>
        simp only [Option.isSome_some, lookup_of_ok_default hT, lookup_of_ok_default hS, Option.getD_some, Option.map_some,
          Option.some.injEq, ParamRec.mk.injEq, true_and, Except.ok.injEq]
      | none =>
        simp only [Option.isSome_none, lookup_of_ok_none hT, lookup_of_ok_none hS, Option.getD_some]
        constructor
        · intro h; cases h
        · rintro ⟨h, _⟩; cases h

/-- Nothing is recorded for a parameter exactly when the node cannot resolve it. -/
theorem unrecorded_iff_unresolved (tbl stbl : ResolveTable) (hT : precedenceOK tbl = true) (hS : precedenceOK stbl = true)
    (n : Node) (c : Ctx) (p : PSig) :
    recordParam stbl n c p = none ↔ resolve tbl n c p = .error (.unresolved p.name) := by
  unfold recordParam resolve channelOf
  cases hcfg : n.config.lookup p.name with
  | some cv => simp [lookup_of_ok_config hT, lookup_of_ok_config hS]
  | none =>
    simp only [Option.isSome_none]
    cases hctx : c.lookup p.name with
    | some xv => simp [Ctx.has, Ctx.get, hctx, lookup_of_ok_context hT, lookup_of_ok_context hS]
    | none =>
      simp only [Ctx.has, hctx, Option.isSome_none]
      cases hd : p.dflt with
      | some dv => simp [lookup_of_ok_default hT, lookup_of_ok_default hS]
      | none => simp [lookup_of_ok_none hT, lookup_of_ok_none hS]

/-- Every entry of the recorded list is the record of one of the node's parameters, under its name. -/
theorem recordParams_mem (stbl : ResolveTable) (n : Node) (c : Ctx) (r : ParamRec) :
    r ∈ recordParams stbl n c ↔ ∃ p ∈ n.params, recordParam stbl n c p = some r := by
  simp [recordParams, List.mem_filterMap]

theorem recordParam_name (stbl : ResolveTable) (n : Node) (c : Ctx) (p : PSig) (r : ParamRec)
    (h : recordParam stbl n c p = some r) : r.name = p.name := by
  unfold recordParam at h
  split at h
  · cases hx : n.config.lookup p.name <;> simp [hx] at h; rw [← h]
  · cases hx : c.get p.name <;> simp [hx] at h; rw [← h]
  · cases hx : p.dflt <;> simp [hx] at h; rw [← h]
  · cases h

/-! ## 3. Checks -/

theorem required_present_iff (n : Node) (c : Ctx) :
    missingKeys n c = [] ↔ ∀ k ∈ requiredKeys n, c.has k = true := by
  simp [missingKeys, List.filter_eq_nil_iff]

theorem mem_requiredKeys (n : Node) (k : String) :
    k ∈ requiredKeys n ↔ ∃ p ∈ n.params, p.name = k ∧ n.config.lookup p.name = none ∧ p.dflt = none := by
  simp only [requiredKeys, mem_ssort, List.mem_map, List.mem_filter, Bool.and_eq_true, Option.isNone_iff_eq_none]
  constructor
  · rintro ⟨p, ⟨hp, h1, h2⟩, rfl⟩; exact ⟨p, hp, rfl, h1, h2⟩
  · rintro ⟨p, hp, rfl, h1, h2⟩; exact ⟨p, ⟨hp, h1, h2⟩, rfl⟩

/-- With the documented precedence, a parameter the node can neither configure nor default is reported
    missing exactly when the node's own resolution fails on it. -/
theorem missing_iff_unresolved (tbl : ResolveTable) (hT : precedenceOK tbl = true) (n : Node) (c : Ctx) (p : PSig)
    (hp : p ∈ n.params) (hcfg : n.config.lookup p.name = none) (hd : p.dflt = none) :
    p.name ∈ missingKeys n c ↔ resolve tbl n c p = .error (.unresolved p.name) := by
  have hprec := resolve_precedence tbl hT n c p
  constructor
  · intro hm
    simp only [missingKeys, List.mem_filter, Bool.not_eq_true'] at hm
    have hctx : c.get p.name = none := by
      have := hm.2; simp [Ctx.has] at this; simpa [Ctx.get] using this
    exact hprec.2.2.2 hcfg hctx hd
  · intro hr
    have hctx : c.get p.name = none := by
      cases hx : c.get p.name with
      | none => rfl
      | some v => rw [hprec.2.1 hcfg v hx] at hr; cases hr
    simp only [missingKeys, List.mem_filter, Bool.not_eq_true']
    refine ⟨(mem_requiredKeys n p.name).mpr ⟨p, hp, rfl, hcfg, hd⟩, ?_⟩
    simp [Ctx.has]; simpa [Ctx.get] using hctx

theorem typeOk_iff (t : Option String) (d : Data) :
    typeOk t d = true ↔ ∀ ty, t = some ty → typeAccepts ty d.ty = true := by
  cases t <;> simp [typeOk]

/-! ## 4. The stream -/

/-- consecutive SERs digest the same content at their boundary -/
def Chained : List View → Prop
  | [] => True
  | [_] => True
  | a :: b :: rest => (b.dataIn = a.dataOut ∧ b.ctxPre = a.ctxPost) ∧ Chained (b :: rest)

theorem viewOf_in (tbl stbl : ResolveTable) (n : Node) (s : Data × Ctx) :
    (viewOf tbl stbl n s).dataIn = s.1 ∧ (viewOf tbl stbl n s).ctxPre = s.2 := ⟨rfl, rfl⟩

theorem stream_head (tbl stbl : ResolveTable) (ns : List Node) (s : Data × Ctx) :
    ∀ v ∈ (serStream tbl stbl ns s).head?, v.dataIn = s.1 ∧ v.ctxPre = s.2 := by
  cases ns with
  | nil => simp [serStream]
  | cons n ns => simp [serStream, viewOf]

/-- **C07 (digest chain), on content.** -/
theorem stream_chain (tbl stbl : ResolveTable) (ns : List Node) (s : Data × Ctx) :
    Chained (serStream tbl stbl ns s) := by
  induction ns generalizing s with
  | nil => simp [serStream, Chained]
  | cons n ns ih =>
    simp only [serStream]
    cases hstep : step tbl n s with
    | error e => simp [Chained]
    | ok s' =>
      simp only []
      have hh := stream_head tbl stbl ns s'
      have ihs := ih s'
      cases hrest : serStream tbl stbl ns s' with
      | nil => simp [Chained]
      | cons b rest =>
        rw [hrest] at hh ihs
        have hb := hh b (by simp)
        refine ⟨⟨?_, ?_⟩, ihs⟩
        · rw [hb.1]; simp [viewOf, after, hstep]
        · rw [hb.2]; simp [viewOf, after, hstep]

/-- Digests that are functions of content chain along the stream. -/
theorem digest_chain {α : Type} (hd : Data → α) (hc : Ctx → α) (a b : View) (rest pre : List View)
    (tbl stbl : ResolveTable) (ns : List Node) (s : Data × Ctx)
    (h : serStream tbl stbl ns s = pre ++ a :: b :: rest) :
    hd b.dataIn = hd a.dataOut ∧ hc b.ctxPre = hc a.ctxPost := by
  have hch := stream_chain tbl stbl ns s
  rw [h] at hch
  clear h
  induction pre with
  | nil => obtain ⟨⟨h1, h2⟩, _⟩ := hch; exact ⟨by rw [h1], by rw [h2]⟩
  | cons x xs ih =>
    apply ih
    cases xs with
    | nil => exact hch.2
    | cons y ys => exact hch.2

/-- **C07 (one SER per node entered).** If the run fails at node `j`, there are `j+1` SERs, the last one
    `error` and all others `succeeded`; if it completes there is one `succeeded` SER per node. -/
theorem stream_shape (tbl stbl : ResolveTable) (ns : List Node) (i : Nat) (s : Data × Ctx) :
    (∀ s', execFrom tbl ns i s = .ok s' →
        (serStream tbl stbl ns s).length = ns.length ∧ ∀ v ∈ serStream tbl stbl ns s, v.ok = true)
    ∧ (∀ j e, execFrom tbl ns i s = .error (j, e) →
        (serStream tbl stbl ns s).length = j - i + 1
        ∧ ((serStream tbl stbl ns s).map (·.ok)) = List.replicate (j - i) true ++ [false]) := by
  induction ns generalizing i s with
  | nil =>
    refine ⟨?_, ?_⟩
    · intro s' _; simp [serStream]
    · intro j e h; simp [execFrom] at h
  | cons n ns ih =>
    refine ⟨?_, ?_⟩
    · intro s' h
      simp only [execFrom] at h
      cases hstep : step tbl n s with
      | error e => simp [hstep] at h
      | ok s₁ =>
        simp only [hstep] at h
        obtain ⟨hl, hall⟩ := (ih (i + 1) s₁).1 s' h
        simp only [serStream, hstep, List.length_cons, hl, List.mem_cons, true_and]
        rintro v (rfl | hv)
        · simp [viewOf, hstep]
        · exact hall v hv
    · intro j e h
      simp only [execFrom] at h
      cases hstep : step tbl n s with
      | error e' =>
        simp only [hstep, Except.error.injEq, Prod.mk.injEq] at h
        obtain ⟨rfl, rfl⟩ := h
        simp [serStream, hstep, viewOf]
      | ok s₁ =>
        simp only [hstep] at h
        obtain ⟨hl, hm⟩ := (ih (i + 1) s₁).2 j e h
        have hj : i + 1 ≤ j := by
          have := exec_fails_exactly_there tbl ns (i + 1) s₁ j e h
          omega
        simp only [serStream, hstep, List.length_cons, hl, List.map_cons, hm]
        refine ⟨by omega, ?_⟩
        have : j - i = (j - (i + 1)) + 1 := by omega
        rw [this, List.replicate_succ]
        simp [viewOf, hstep]

/-! ## 5. Timestamps -/

theorem stamps_true (r : Reading) : denoted true true r = r.t := by
  simp [denoted, stamp]

/-- Non-decreasing readings give non-decreasing stamps, whatever the host offsets (which may even change
    between readings, as at a daylight-saving switch). -/
theorem stamps_monotone (rs : List Reading) (h : (rs.map (·.t)).Pairwise (· ≤ ·)) :
    (rs.map (denoted true true)).Pairwise (· ≤ ·) := by
  have : rs.map (denoted true true) = rs.map (·.t) := List.map_congr_left (fun r _ => stamps_true r)
  rw [this]; exact h

/-- A local-time generator is wrong on every host that is not on UTC. -/
theorem local_stamp_wrong (byDriver : Bool) (t off : Int) (h : off ≠ 0) :
    denoted (!byDriver) byDriver ⟨byDriver, t, off⟩ ≠ t ∨ denoted byDriver (!byDriver) ⟨byDriver, t, off⟩ ≠ t := by
  cases byDriver <;> simp [denoted, stamp] <;> omega


/-! ## 6. The recorded delta lies within what the node declares (C07 ∘ C01) -/

/-- If every key outside `S` has the same value before and after, every created or updated key is in `S`. -/
theorem delta_within (pre post : Ctx) (S : String → Prop) (hframe : ∀ k, ¬ S k → post.get k = pre.get k) :
    (∀ k ∈ createdKeys pre post, S k) ∧ (∀ k ∈ updatedKeys pre post, S k) := by
  refine ⟨?_, ?_⟩
  · intro k hk
    apply Classical.byContradiction
    intro hS
    obtain ⟨hpost, hpre⟩ := (created_iff pre post k).mp hk
    have := hframe k hS
    simp only [Ctx.has, Ctx.get] at hpost hpre this
    rw [this] at hpost
    rw [hpost] at hpre; cases hpre
  · intro k hk
    apply Classical.byContradiction
    intro hS
    obtain ⟨a, b, ha, hb, hab⟩ := (updated_iff pre post k).mp hk
    have := hframe k hS
    rw [ha, hb] at this
    exact hab (Option.some.inj this).symm

/-- **An operation's SER** lists only keys the operation declares. -/
theorem ser_delta_operation (tbl stbl : ResolveTable) (n : Node) (s : Data × Ctx) (hk : n.kind = .operation)
    (hok : (viewOf tbl stbl n s).ok = true) :
    ∀ k, k ∈ (viewOf tbl stbl n s).created ∨ k ∈ (viewOf tbl stbl n s).updated → n.declared.contains k = true := by
  obtain ⟨d, c⟩ := s
  cases hstep : step tbl n (d, c) with
  | error e => simp [viewOf, hstep] at hok
  | ok s' =>
    obtain ⟨d', c'⟩ := s'
    have hframe := (operation_frames_context tbl n d d' c c' hk hstep).2
    have := delta_within c c' (fun k => n.declared.contains k = true) (by
      intro k hS; exact hframe k (by simpa using hS))
    intro k hk'
    simp only [viewOf, after, hstep] at hk'
    rcases hk' with h | h
    · exact this.1 k h
    · exact this.2 k h

/-- **A rename's SER** lists only its two keys; **a template's** only its output key; **a delete's** lists nothing. -/
theorem ser_delta_rename (tbl stbl : ResolveTable) (n : Node) (src dst : String) (s : Data × Ctx)
    (hk : n.kind = .rename src dst) (hok : (viewOf tbl stbl n s).ok = true) :
    ∀ k, k ∈ (viewOf tbl stbl n s).created ∨ k ∈ (viewOf tbl stbl n s).updated → k = src ∨ k = dst := by
  obtain ⟨d, c⟩ := s
  cases hstep : step tbl n (d, c) with
  | error e => simp [viewOf, hstep] at hok
  | ok s' =>
    obtain ⟨d', c'⟩ := s'
    have hframe := (rename_touches_only_declared tbl n src dst d d' c c' hk hstep).2
    have := delta_within c c' (fun k => k = src ∨ k = dst) (by
      intro k hS; exact hframe k (fun h => hS (Or.inl h)) (fun h => hS (Or.inr h)))
    intro k hk'
    simp only [viewOf, after, hstep] at hk'
    rcases hk' with h | h
    · exact this.1 k h
    · exact this.2 k h

theorem ser_delta_template (tbl stbl : ResolveTable) (n : Node) (parts : List TPart) (out : String) (s : Data × Ctx)
    (hk : n.kind = .template parts out) (hok : (viewOf tbl stbl n s).ok = true) :
    ∀ k, k ∈ (viewOf tbl stbl n s).created ∨ k ∈ (viewOf tbl stbl n s).updated → k = out := by
  obtain ⟨d, c⟩ := s
  cases hstep : step tbl n (d, c) with
  | error e => simp [viewOf, hstep] at hok
  | ok s' =>
    obtain ⟨d', c'⟩ := s'
    have hframe := (template_touches_only_declared tbl n parts out d d' c c' hk hstep).2.1
    have := delta_within c c' (fun k => k = out) (by intro k hS; exact hframe k hS)
    intro k hk'
    simp only [viewOf, after, hstep] at hk'
    rcases hk' with h | h
    · exact this.1 k h
    · exact this.2 k h

theorem ser_delta_delete (tbl stbl : ResolveTable) (n : Node) (key : String) (s : Data × Ctx)
    (hk : n.kind = .delete key) (hok : (viewOf tbl stbl n s).ok = true) :
    (viewOf tbl stbl n s).created = [] ∧ (viewOf tbl stbl n s).updated = [] := by
  obtain ⟨d, c⟩ := s
  cases hstep : step tbl n (d, c) with
  | error e => simp [viewOf, hstep] at hok
  | ok s' =>
    obtain ⟨d', c'⟩ := s'
    obtain ⟨_, hframe, hgone⟩ := delete_touches_only_declared tbl n key d d' c c' hk hstep
    have hin := delta_within c c' (fun k => k = key) (by intro k hS; exact hframe k hS)
    simp only [viewOf, after, hstep]
    refine ⟨List.eq_nil_iff_forall_not_mem.mpr ?_, List.eq_nil_iff_forall_not_mem.mpr ?_⟩
    · intro k hk'
      have hkk := hin.1 k hk'
      have hhas := ((created_iff c c' k).mp hk').1
      rw [hkk] at hhas
      have hnone : c'.lookup key = none := hgone
      simp [Ctx.has, hnone] at hhas
    · intro k hk'
      have hkk := hin.2 k hk'
      obtain ⟨_, b, _, hb, _⟩ := (updated_iff c c' k).mp hk'
      rw [hkk, hgone] at hb; cases hb

/-- **A probe's SER** (non-slicing) lists only the node's context key. -/
theorem ser_delta_probe (tbl stbl : ResolveTable) (n : Node) (s : Data × Ctx) (hk : n.kind = .probe) (hs : n.sliced = false)
    (hok : (viewOf tbl stbl n s).ok = true) :
    ∀ k, k ∈ (viewOf tbl stbl n s).created ∨ k ∈ (viewOf tbl stbl n s).updated → k = n.contextKey.getD "" := by
  obtain ⟨d, c⟩ := s
  cases hstep : step tbl n (d, c) with
  | error e => simp [viewOf, hstep] at hok
  | ok s' =>
    obtain ⟨d', c'⟩ := s'
    obtain ⟨_, v, hc'⟩ := probe_passes_data tbl n d d' c c' hk hs hstep
    have := delta_within c c' (fun k => k = n.contextKey.getD "") (by
      intro k hS; rw [hc']; exact Ctx.get_set_ne c _ k v hS)
    intro k hk'
    simp only [viewOf, after, hstep] at hk'
    rcases hk' with h | h
    · exact this.1 k h
    · exact this.2 k h

/-! ## Non-vacuity -/

example : createdKeys [("a", .atom "1")] [("a", .atom "2"), ("b", .atom "3")] = ["b"]
        ∧ updatedKeys [("a", .atom "1")] [("a", .atom "2"), ("b", .atom "3")] = ["a"] := by decide

end SemantivaModel.Ser
