import SemantivaModel.Model.Factory
/-!
# C16 — every class the factories generate satisfies the framework's own contracts

`generated_ok`: for every well-formed base component, every wrapping the factories accept (slicer over any
collection type, parameter sweep over any variables, with or without a collection) and every node binding the node
factory accepts, the generated processor descriptor passes the processor rules, the generated node passes the node
rules, and the node mirrors the processor's types and created keys.  `slice_preserves_created`,
`sweep_adds_values_keys`: what the factories do to the declared keys.
-/
namespace SemantivaModel.Factory

theorem descOf_kind (t : Term) (d' : Desc) (h : descOf t = some d') :
    d'.kind = (match t with | .comp d => d.kind | .slice d _ => d.kind | .sweep d _ _ => d.kind) := by
  cases t with
  | comp d => simp [descOf] at h; subst h; rfl
  | slice d coll =>
    simp only [descOf] at h
    split at h
    · split at h
      · injection h with h; subst h; rfl
      · cases h
    · injection h with h; subst h; rfl
    · cases h
  | sweep d coll vars =>
    simp only [descOf] at h
    split at h <;> first | (injection h with h; subst h; rfl) | cases h

/-- **C16.** -/
theorem generated_ok (t : Term) (ck : Option String) (d' : Desc) (n : NodeDesc)
    (hbase : baseOK (match t with | .comp d => d | .slice d _ => d | .sweep d _ _ => d) = true)
    (hcoll : match t with | .slice _ c => c ≠ "" | .sweep _ (some c) _ => c ≠ "" | _ => True)
    (hd : descOf t = some d') (hn : nodeOf d' ck = some n) :
    procOK d' = true ∧ nodeOK d' n = true ∧ keysMirror d' ck n = true := by
  cases t with
  | comp d =>
    simp only [descOf, Option.some.injEq] at hd; subst hd
    simp only [baseOK, Bool.and_eq_true] at hbase
    obtain ⟨hp, hshape⟩ := hbase
    refine ⟨hp, ?_, ?_⟩
    all_goals
      cases hk : d.kind <;> cases ck <;> simp [nodeOf, hk] at hn <;> subst hn <;> simp_all [nodeOK, keysMirror]
  | slice d coll =>
    simp only [baseOK, Bool.and_eq_true] at hbase
    obtain ⟨hp, hshape⟩ := hbase
    simp only [descOf] at hd
    cases hk : d.kind <;> simp only [hk] at hd
    case operation =>
      split at hd
      · cases hd
        cases ck <;> simp [nodeOf, hk] at hn
        subst hn
        simp_all [procOK, nodeOK, keysMirror]
      · cases hd
    case probe =>
      cases hd
      cases ck <;> simp [nodeOf, hk] at hn
      subst hn
      simp_all [procOK, nodeOK, keysMirror]
    all_goals cases hd
  | sweep d coll vars =>
    simp only [baseOK, Bool.and_eq_true] at hbase
    obtain ⟨hp, hshape⟩ := hbase
    simp only [descOf] at hd
    cases hk : d.kind <;> cases coll <;> simp only [hk] at hd <;> cases hd <;>
      (cases ck <;> simp [nodeOf, hk] at hn <;> subst hn <;> simp_all [procOK, nodeOK, keysMirror])

theorem slice_preserves_created (d d' : Desc) (coll : String) (h : descOf (.slice d coll) = some d') :
    d'.created = d.created ∧ d'.params = d.params ∧ d'.inT = coll := by
  simp only [descOf] at h
  split at h
  · split at h
    · injection h with h; subst h; exact ⟨rfl, rfl, rfl⟩
    · cases h
  · injection h with h; subst h; exact ⟨rfl, rfl, rfl⟩
  · cases h

theorem sweep_adds_values_keys (d d' : Desc) (coll : Option String) (vars : List String)
    (h : descOf (.sweep d coll vars) = some d') :
    d'.created = valuesKeys vars ++ d.created ∧ d'.inT = d.inT ∧ (∀ c, coll = some c → d'.outT = some c) := by
  simp only [descOf] at h
  split at h <;> first
    | (injection h with h; subst h; exact ⟨rfl, rfl, by intro c hc; simp_all⟩)
    | cases h

/-- What the factories reject: slicing anything but an operation with equal input and output type or a probe;
    sweeping sinks, payload sources and context processors; a probe sweep with a collection. -/
theorem rejected (d : Desc) (coll : String) :
    (d.kind = .dataSource ∨ d.kind = .dataSink ∨ d.kind = .payloadSource ∨ d.kind = .payloadSink ∨ d.kind = .ctxProc
      → descOf (.slice d coll) = none)
    ∧ (d.kind = .operation → d.outT ≠ some d.inT → descOf (.slice d coll) = none)
    ∧ (d.kind = .probe → ∀ vars, descOf (.sweep d (some coll) vars) = none) := by
  refine ⟨?_, ?_, ?_⟩
  · rintro (h | h | h | h | h) <;> simp [descOf, h]
  · intro h hne; simp [descOf, h, hne]
  · intro h vars; simp [descOf, h]

/-! ## Non-vacuity -/

example : baseOK ⟨.operation, "TData", some "TData", ["w"], ["a"]⟩ = true
    ∧ descOf (.slice ⟨.operation, "TData", some "TData", ["w"], ["a"]⟩ "TColl")
        = some ⟨.operation, "TColl", some "TColl", ["w"], ["a"]⟩
    ∧ nodeOf ⟨.probe, "TColl", none, [], []⟩ (some "k") = some ⟨some "TColl", some "TColl", ["k"]⟩ := by decide

end SemantivaModel.Factory
