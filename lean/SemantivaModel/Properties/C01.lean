import SemantivaModel.Model.Exec
/-!
# C01 — pipeline execution matches the documented dual-channel node semantics

The model *is* the documented semantics (validated against the real `Pipeline.process` by the
correspondence run).  The theorems below state, for pipelines of any length, any contexts and any
processor bodies, the laws the property lists.
-/
namespace SemantivaModel.Exec

/-! ## 1. Strictly sequential; the run fails at exactly the failing node; later nodes never run -/

theorem execFrom_append (tbl : ResolveTable) (ns ms : List Node) (i : Nat) (s : Data × Ctx) :
    execFrom tbl (ns ++ ms) i s =
      match execFrom tbl ns i s with
      | .ok s' => execFrom tbl ms (i + ns.length) s'
      | .error e => .error e := by
  induction ns generalizing i s with
  | nil => simp [execFrom]
  | cons n ns ih =>
    simp only [List.cons_append, execFrom]
    cases step tbl n s with
    | error e => rfl
    | ok s' =>
      simp only []
      rw [ih]
      simp only [List.length_cons]
      have : i + 1 + ns.length = i + (ns.length + 1) := by omega
      rw [this]

/-- **C01 (failure point).** If the run fails with `(j, e)`, then `j` is the index of a node of the
    pipeline, all nodes before it ran successfully (and their effect does not depend on what follows),
    node `j` itself fails with `e` on the state they produced, and nothing after `j` is executed. -/
theorem exec_fails_exactly_there (tbl : ResolveTable) (ns : List Node) (i : Nat) (s : Data × Ctx) (j : Nat) (e : Err)
    (h : execFrom tbl ns i s = .error (j, e)) :
    ∃ (k : Nat) (hk : k < ns.length) (s' : Data × Ctx),
      j = i + k ∧ execFrom tbl (ns.take k) i s = .ok s' ∧ step tbl ns[k] s' = .error e := by
  induction ns generalizing i s with
  | nil => simp [execFrom] at h
  | cons n ns ih =>
    simp only [execFrom] at h
    cases hs : step tbl n s with
    | error e' =>
      rw [hs] at h
      simp only at h
      injection h with h
      injection h with h1 h2
      refine ⟨0, by simp, s, by omega, by simp [execFrom], ?_⟩
      simp only [List.getElem_cons_zero]
      rw [hs, h2]
    | ok s' =>
      rw [hs] at h
      simp only at h
      obtain ⟨k, hk, s'', hj, hpre, hstep⟩ := ih (i + 1) s' h
      refine ⟨k + 1, by simp; omega, s'', by omega, ?_, ?_⟩
      · simp only [List.take_succ_cons, execFrom, hs]
        exact hpre
      · simpa using hstep

/-- A successful run is the left-to-right composition of its nodes. -/
theorem exec_ok_cons (tbl : ResolveTable) (n : Node) (ns : List Node) (i : Nat) (s s' : Data × Ctx)
    (h : step tbl n s = .ok s') : execFrom tbl (n :: ns) i s = execFrom tbl ns (i + 1) s' := by
  simp [execFrom, h]

/-- A node rejected at construction time stops the pipeline before any node runs. -/
theorem construct_error_runs_nothing (tbl : ResolveTable) (ns : List Node) (s : Data × Ctx) (i : Nat) (e : Err)
    (h : constructAll ns 0 = some (i, e)) : runPipeline tbl ns s = .constructError i e := by
  simp [runPipeline, h]

/-! ## 2. Parameter precedence: node configuration > context > processor default > error -/

theorem lookup_of_ok_config {tbl : ResolveTable} (h : precedenceOK tbl = true) (c d : Bool) :
    tbl.lookup (true, c, d) = some .config := by
  simp only [precedenceOK, List.all_cons, List.all_nil, Bool.and_true, Bool.and_eq_true, beq_iff_eq] at h
  cases c <;> cases d <;> simp [h.1.1.1]
theorem lookup_of_ok_context {tbl : ResolveTable} (h : precedenceOK tbl = true) (d : Bool) :
    tbl.lookup (false, true, d) = some .context := by
  simp only [precedenceOK, List.all_cons, List.all_nil, Bool.and_true, Bool.and_eq_true, beq_iff_eq] at h
  cases d <;> simp [h.1.1.2]
theorem lookup_of_ok_default {tbl : ResolveTable} (h : precedenceOK tbl = true) :
    tbl.lookup (false, false, true) = some .default := by
  simp only [precedenceOK, Bool.and_eq_true, beq_iff_eq] at h
  exact h.1.2
theorem lookup_of_ok_none {tbl : ResolveTable} (h : precedenceOK tbl = true) :
    tbl.lookup (false, false, false) = some .none_ := by
  simp only [precedenceOK, Bool.and_eq_true, beq_iff_eq] at h
  exact h.2

/-- **C01 (precedence).** With a table satisfying `precedenceOK`: a parameter present in the node
    configuration takes that value whatever the context holds; otherwise the context value;
    otherwise the processor default; otherwise the node fails with "unresolved". -/
theorem resolve_precedence (tbl : ResolveTable) (hT : precedenceOK tbl = true) (n : Node) (c : Ctx) (p : PSig) :
    (∀ v, n.config.lookup p.name = some v → resolve tbl n c p = .ok v)
    ∧ (n.config.lookup p.name = none → ∀ v, c.get p.name = some v → resolve tbl n c p = .ok v)
    ∧ (n.config.lookup p.name = none → c.get p.name = none → ∀ v, p.dflt = some v → resolve tbl n c p = .ok v)
    ∧ (n.config.lookup p.name = none → c.get p.name = none → p.dflt = none →
        resolve tbl n c p = .error (.unresolved p.name)) := by
  refine ⟨?_, ?_, ?_, ?_⟩
  · intro v hv
    simp only [resolve, channelOf, hv, Option.isSome_some, lookup_of_ok_config hT, Option.getD_some]
  · intro hcfg v hv
    have hv' : c.lookup p.name = some v := hv
    simp only [resolve, channelOf, hcfg, Option.isSome_none, Ctx.has, hv', Option.isSome_some, lookup_of_ok_context hT,
      Option.getD_some, Ctx.get]
  · intro hcfg hctx v hv
    have hctx' : c.lookup p.name = none := hctx
    simp only [resolve, channelOf, hcfg, Option.isSome_none, Ctx.has, hctx', hv, Option.isSome_some,
      lookup_of_ok_default hT, Option.getD_some]
  · intro hcfg hctx hd
    have hctx' : c.lookup p.name = none := hctx
    simp only [resolve, channelOf, hcfg, Option.isSome_none, Ctx.has, hctx', hd, lookup_of_ok_none hT, Option.getD_some]

/-! ## 3. Context bookkeeping lemmas -/

theorem Ctx.get_set_ne (c : Ctx) (k k' : String) (v : Val) (h : k' ≠ k) : (c.set k v).get k' = c.get k' := by
  induction c with
  | nil =>
    have : (k' == k) = false := by simpa using h
    simp [Ctx.set, Ctx.get, List.lookup, this]
  | cons kv rest ih =>
    obtain ⟨a, b⟩ := kv
    simp only [Ctx.set]
    split
    · rename_i hak
      subst hak
      have : (k' == a) = false := by simpa using h
      simp [Ctx.get, List.lookup, this]
    · simp only [Ctx.get, List.lookup] at ih ⊢
      cases (k' == a) <;> simp [ih]

theorem Ctx.get_set_self (c : Ctx) (k : String) (v : Val) : (c.set k v).get k = some v := by
  induction c with
  | nil => simp [Ctx.set, Ctx.get, List.lookup]
  | cons kv rest ih =>
    obtain ⟨a, b⟩ := kv
    simp only [Ctx.set]
    split
    · simp [Ctx.get, List.lookup]
    · rename_i hak
      have : (k == a) = false := by simpa using (fun e => hak e.symm)
      simp only [Ctx.get, List.lookup, this] at ih ⊢
      exact ih

theorem Ctx.get_erase_ne (c : Ctx) (k k' : String) (h : k' ≠ k) : (c.erase k).get k' = c.get k' := by
  induction c with
  | nil => rfl
  | cons kv rest ih =>
    obtain ⟨a, b⟩ := kv
    simp only [Ctx.erase, List.filter] at ih ⊢
    by_cases hak : a = k
    · subst hak
      have h1 : (k' == a) = false := by simpa using h
      simp only [bne_self_eq_false, Ctx.get, List.lookup, h1] at ih ⊢
      exact ih
    · have h2 : (a != k) = true := by simpa using hak
      simp only [h2, Ctx.get, List.lookup] at ih ⊢
      cases (k' == a) <;> simp [ih]

theorem Ctx.get_erase_self (c : Ctx) (k : String) : (c.erase k).get k = none := by
  induction c with
  | nil => rfl
  | cons kv rest ih =>
    obtain ⟨a, b⟩ := kv
    simp only [Ctx.erase, List.filter] at ih ⊢
    by_cases hak : a = k
    · subst hak
      simp only [bne_self_eq_false]
      exact ih
    · have h2 : (a != k) = true := by simpa using hak
      have h3 : (k == a) = false := by simpa using (fun e => hak e.symm)
      simp only [h2, Ctx.get, List.lookup, h3] at ih ⊢
      exact ih

theorem applyWrites_frame (c : Ctx) (ws : List (String × Val)) (k : String) (h : ∀ kv ∈ ws, kv.1 ≠ k) :
    (applyWrites c ws).get k = c.get k := by
  induction ws generalizing c with
  | nil => rfl
  | cons kv rest ih =>
    simp only [applyWrites, List.foldl_cons]
    have h1 := h kv (by simp)
    have := ih (c.set kv.1 kv.2) (fun kv' hkv' => h kv' (List.mem_cons_of_mem _ hkv'))
    simp only [applyWrites] at this
    rw [this, Ctx.get_set_ne _ _ _ _ (Ne.symm h1)]

/-! ## 4. Node kinds -/

theorem applyBeh_writes_declared (b : Beh) (declared : List String) (v : Option Val) (ps : List Val)
    (r : Val) (ws : List (String × Val)) (h : applyBeh b declared v ps = .ok (r, ws)) :
    ∀ kv ∈ ws, declared.contains kv.1 = true := by
  cases b with
  | term tag => simp only [applyBeh] at h; injection h with h; injection h with _ h2; subst h2; simp
  | termWrite tag key wtag =>
    simp only [applyBeh] at h
    split at h
    · rename_i hd
      injection h with h; injection h with _ h2; subst h2
      intro kv hkv; simp at hkv; subst hkv; exact hd
    · cases h
  | merge tag =>
    simp only [applyBeh] at h
    split at h
    · injection h with h; injection h with _ h2; subst h2; simp
    · cases h
  | collOf tag n => simp only [applyBeh] at h; injection h with h; injection h with _ h2; subst h2; simp
  | fail cls => simp [applyBeh] at h
  | echo => simp only [applyBeh] at h; injection h with h; injection h with _ h2; subst h2; simp

theorem mapBeh_writes_declared (b : Beh) (declared : List String) (ps : List Val) :
    ∀ (xs ys : List Val) (ws : List (String × Val)), mapBeh b declared ps xs = .ok (ys, ws) →
      ∀ kv ∈ ws, declared.contains kv.1 = true
  | [], ys, ws, h => by simp only [mapBeh] at h; injection h with h; injection h with _ h2; subst h2; simp
  | x :: xs, ys, ws, h => by
    simp only [mapBeh] at h
    split at h
    · cases h
    · rename_i y w hy
      split at h
      · cases h
      · rename_i ys' ws' hrest
        injection h with h; injection h with _ h2; subst h2
        intro kv hkv
        rcases List.mem_append.mp hkv with hkv | hkv
        · exact applyBeh_writes_declared b declared _ ps y w hy kv hkv
        · exact mapBeh_writes_declared b declared ps xs ys' ws' hrest kv hkv

/-- **C01 (slicers).** A slicer maps element-wise, in order: the i-th output element is the wrapped
    processor applied to the i-th input element with the same (once-resolved) parameters, and the
    output has as many elements as the input. -/
theorem mapBeh_is_ordered_map (b : Beh) (declared : List String) (ps : List Val) :
    ∀ (xs ys : List Val) (ws : List (String × Val)), mapBeh b declared ps xs = .ok (ys, ws) →
      ys.length = xs.length ∧
      ∀ (i : Nat) (hi : i < xs.length) (hi' : i < ys.length),
        ∃ w, applyBeh b declared (some xs[i]) ps = .ok (ys[i], w)
  | [], ys, ws, h => by
    simp only [mapBeh] at h; injection h with h; injection h with h1 _; subst h1
    exact ⟨rfl, by intro i hi; simp at hi⟩
  | x :: xs, ys, ws, h => by
    simp only [mapBeh] at h
    split at h
    · cases h
    · rename_i y w hy
      split at h
      · cases h
      · rename_i ys' ws' hrest
        injection h with h; injection h with h1 _; subst h1
        have ih := mapBeh_is_ordered_map b declared ps xs ys' ws' hrest
        refine ⟨by simp [ih.1], ?_⟩
        intro i hi hi'
        cases i with
        | zero => exact ⟨w, by simpa using hy⟩
        | succ i =>
          have := ih.2 i (by simpa using hi) (by simpa using hi')
          simpa using this

/-- **C01 (probes).** A (non-slicing) probe leaves the data unchanged and stores its result under the
    node's context key; every other context key is untouched. -/
theorem probe_passes_data (tbl : ResolveTable) (n : Node) (d d' : Data) (c c' : Ctx)
    (hk : n.kind = .probe) (hs : n.sliced = false) (h : step tbl n (d, c) = .ok (d', c')) :
    d' = d ∧ ∃ v, c' = c.set (n.contextKey.getD "") v := by
  simp only [step, hk, hs] at h
  split at h
  · cases h
  · split at h
    · cases h
    · simp only [Bool.false_eq_true, if_false] at h
      split at h
      · cases h
      · rename_i v ws _
        injection h with h; injection h with h1 h2
        exact ⟨h1.symm, v, h2.symm⟩

/-- **C01 (operations).** An operation replaces the data (typed by its declared output type) and may
    change only the context keys it declares; an attempt to write another key is the node's failure. -/
theorem operation_frames_context (tbl : ResolveTable) (n : Node) (d d' : Data) (c c' : Ctx)
    (hk : n.kind = .operation) (h : step tbl n (d, c) = .ok (d', c')) :
    d'.ty = n.outT ∧ ∀ k, n.declared.contains k = false → c'.get k = c.get k := by
  simp only [step, hk] at h
  split at h
  · cases h
  · split at h
    · cases h
    · rename_i ps _
      cases hsl : n.sliced with
      | true =>
        simp only [hsl, if_true] at h
        cases d with
        | coll t xs =>
          simp only at h
          cases hm : mapBeh n.beh n.declared ps xs with
          | error e => rw [hm] at h; cases h
          | ok r =>
            obtain ⟨ys, ws⟩ := r
            rw [hm] at h
            injection h with h; injection h with h1 h2
            subst h1; subst h2
            refine ⟨rfl, fun k hkd => applyWrites_frame c ws k ?_⟩
            intro kv hkv e
            have := mapBeh_writes_declared n.beh n.declared ps xs ys ws hm kv hkv
            rw [e, hkd] at this; cases this
        | nodata => simp at h
        | item t v => simp at h
      | false =>
        simp only [hsl, Bool.false_eq_true, if_false] at h
        cases ha : applyBeh n.beh n.declared (dataVal d) ps with
        | error e => rw [ha] at h; cases h
        | ok r =>
          obtain ⟨v, ws⟩ := r
          rw [ha] at h
          injection h with h; injection h with h1 h2
          subst h1; subst h2
          refine ⟨rfl, fun k hkd => applyWrites_frame c ws k ?_⟩
          intro kv hkv e
          have := applyBeh_writes_declared n.beh n.declared _ ps v ws ha kv hkv
          rw [e, hkd] at this; cases this

/-- **C01 (sinks).** Sinks pass data and context through unchanged. -/
theorem sink_passes_through (tbl : ResolveTable) (n : Node) (d d' : Data) (c c' : Ctx)
    (hk : n.kind = .dataSink ∨ n.kind = .payloadSink) (h : step tbl n (d, c) = .ok (d', c')) :
    d' = d ∧ c' = c := by
  rcases hk with hk | hk <;>
  · simp only [step, hk] at h
    split at h
    · cases h
    · split at h
      · cases h
      · injection h with h; injection h with h1 h2
        exact ⟨h1.symm, h2.symm⟩

/-- **C01 (data sources).** A data source produces data of its declared type and leaves the context alone. -/
theorem source_produces (tbl : ResolveTable) (n : Node) (d d' : Data) (c c' : Ctx)
    (hk : n.kind = .dataSource) (h : step tbl n (d, c) = .ok (d', c')) :
    d'.ty = n.outT ∧ c' = c ∧ typeAccepts n.inT d.ty = true := by
  simp only [step, hk] at h
  split at h
  · cases h
  · rename_i hgate
    split at h
    · cases h
    · split at h
      · cases h
      · rename_i v _ _
        injection h with h; injection h with h1 h2
        refine ⟨?_, h2.symm, by simpa using hgate⟩
        subst h1
        cases n.beh <;> simp only [Data.ty] <;> (try rfl)
        cases v <;> rfl

/-- **C01 (type gate).** A data node whose declared input type does not accept the current data fails
    with the type-gate error, before resolving any parameter or touching the context. -/
theorem type_gate (tbl : ResolveTable) (n : Node) (d : Data) (c : Ctx)
    (hk : n.kind.isCtxProc = false) (hg : typeAccepts n.inT d.ty = false) :
    step tbl n (d, c) = .error .typeGate := by
  cases hkind : n.kind with
  | rename _ _ => simp [Kind.isCtxProc, hkind] at hk
  | delete _ => simp [Kind.isCtxProc, hkind] at hk
  | template _ _ => simp [Kind.isCtxProc, hkind] at hk
  | dataSource => simp [step, hkind, hg]
  | payloadSource _ _ => simp [step, hkind, hg]
  | operation => simp [step, hkind, hg]
  | probe => simp [step, hkind, hg]
  | dataSink => simp [step, hkind, hg]
  | payloadSink => simp [step, hkind, hg]

/-- **C01 (context processors: rename).** `rename:s:d` leaves the data alone and touches no key
    other than `s` and `d`. -/
theorem rename_touches_only_declared (tbl : ResolveTable) (n : Node) (src dst : String) (d d' : Data) (c c' : Ctx)
    (hk : n.kind = .rename src dst) (h : step tbl n (d, c) = .ok (d', c')) :
    d' = d ∧ ∀ k, k ≠ src → k ≠ dst → c'.get k = c.get k := by
  simp only [step, hk] at h
  split at h
  · cases h
  · split at h
    · injection h with h; injection h with h1 h2
      refine ⟨h1.symm, fun k hs hd => ?_⟩
      rw [← h2, Ctx.get_erase_ne _ _ _ hs, Ctx.get_set_ne _ _ _ _ hd]
    · cases h

/-- **C01 (context processors: delete).** `delete:k` leaves the data alone, touches no other key, and
    `k` is gone afterwards. -/
theorem delete_touches_only_declared (tbl : ResolveTable) (n : Node) (key : String) (d d' : Data) (c c' : Ctx)
    (hk : n.kind = .delete key) (h : step tbl n (d, c) = .ok (d', c')) :
    d' = d ∧ (∀ k, k ≠ key → c'.get k = c.get k) ∧ c'.get key = none := by
  simp only [step, hk] at h
  split at h
  · cases h
  · split at h
    · injection h with h; injection h with h1 h2
      refine ⟨h1.symm, fun k hs => ?_, ?_⟩
      · rw [← h2, Ctx.get_erase_ne _ _ _ hs]
      · rw [← h2, Ctx.get_erase_self]
    · cases h

/-- **C01 (context processors: template).** `template:"…":out` writes exactly `out`. -/
theorem template_touches_only_declared (tbl : ResolveTable) (n : Node) (parts : List TPart) (out : String)
    (d d' : Data) (c c' : Ctx) (hk : n.kind = .template parts out) (h : step tbl n (d, c) = .ok (d', c')) :
    d' = d ∧ (∀ k, k ≠ out → c'.get k = c.get k) ∧ (c'.get out).isSome := by
  simp only [step, hk] at h
  split at h
  · cases h
  · injection h with h; injection h with h1 h2
    refine ⟨h1.symm, fun k hs => ?_, ?_⟩
    · rw [← h2, Ctx.get_set_ne _ _ _ _ hs]
    · rw [← h2, Ctx.get_set_self]; rfl

/-! ## 5. Non-vacuity -/

def demoTable : ResolveTable :=
  [((true, true, true), .config), ((true, true, false), .config), ((true, false, true), .config), ((true, false, false), .config),
   ((false, true, true), .context), ((false, true, false), .context), ((false, false, true), .default), ((false, false, false), .none_)]
example : precedenceOK demoTable = true := by decide
/-- a table that prefers the context over the node configuration is rejected by the side condition -/
example : precedenceOK (((true, true, true), .context) :: demoTable) = false := by decide

end SemantivaModel.Exec
