import SemantivaModel.Model.Gate
import SemantivaModel.Properties.C09
/-!
# C17 — the CLI never executes a configuration its pre-flight checks reject

For every gate table satisfying the decidable condition `gateOK` (re-decided on the table extracted from the real CLI):
* `no_execution_when_rejected` — if anything is wrong with the invocation, or a no-execution flag is given, no run starts,
  whatever the plan;
* `rejected_exit_code` — a problem without such a flag exits with the configuration code; a clean invocation with a flag exits 0;
* `exit_zero_iff_all_completed` — a clean invocation exits 0 exactly when every planned run completed, otherwise with the
  runtime code;
* `runs_started` — and starts exactly the runs up to and including the first failing one.
-/
namespace SemantivaModel.Gate
open SemantivaModel.Launch

theorem gateOK_row {t : GateTable} (h : gateOK t = true) (b : Blocker) (f : Flag) :
    ∃ code enters, t.lookup (b, f) = some (code, enters)
      ∧ enters = (b == .none_ && f == .none_)
      ∧ (if b == .none_ then code = exitSuccess
         else if f == .none_ then code = exitConfig
         else code = exitSuccess ∨ code = exitConfig) := by
  have hb : b ∈ allBlockers := by cases b <;> simp [allBlockers]
  have hf : f ∈ allFlags := by cases f <;> simp [allFlags]
  simp only [gateOK, List.all_eq_true] at h
  have := h b hb f hf
  cases hl : t.lookup (b, f) with
  | none => simp [hl] at this
  | some v =>
    obtain ⟨code, enters⟩ := v
    simp only [hl, Bool.and_eq_true, beq_iff_eq] at this
    refine ⟨code, enters, rfl, this.1, ?_⟩
    have h2 := this.2
    by_cases hbn : b = .none_
    · simp [hbn] at h2 ⊢; exact h2
    · by_cases hfn : f = .none_
      · simp [hbn, hfn] at h2 ⊢; exact h2
      · simp [hbn, hfn] at h2 ⊢; exact h2

/-- **C17 (gate).** -/
theorem no_execution_when_rejected (t : GateTable) (h : gateOK t = true) (b : Blocker) (f : Flag) (os : List Bool)
    (hrej : b ≠ .none_ ∨ f ≠ .none_) : (cliRun t b f os).2 = 0 := by
  obtain ⟨code, enters, hl, he, _⟩ := gateOK_row h b f
  have : enters = false := by
    rw [he]; rcases hrej with hb | hf
    · simp [hb]
    · simp [hf]
  simp [cliRun, hl, this]

theorem rejected_exit_code (t : GateTable) (h : gateOK t = true) (b : Blocker) (f : Flag) (os : List Bool) :
    (b ≠ .none_ → f = .none_ → (cliRun t b f os).1 = exitConfig)
    ∧ (b = .none_ → f ≠ .none_ → (cliRun t b f os).1 = exitSuccess)
    ∧ (b ≠ .none_ → (cliRun t b f os).1 ≠ exitRuntime) := by
  obtain ⟨code, enters, hl, he, hc⟩ := gateOK_row h b f
  refine ⟨?_, ?_, ?_⟩
  · intro hb hf
    subst hf
    have : enters = false := by rw [he]; simp [hb]
    simp [hb] at hc
    simp [cliRun, hl, this, hc]
  · intro hb hf
    subst hb
    have : enters = false := by rw [he]; simp [hf]
    simp at hc
    simp [cliRun, hl, this, hc]
  · intro hb
    have : enters = false := by rw [he]; simp [hb]
    simp only [cliRun, hl, this]
    simp only [hb, beq_iff_eq] at hc
    by_cases hf : f = .none_
    · simp [hf] at hc; simp [hc, exitConfig, exitRuntime]
    · simp [hf] at hc; rcases hc with hc | hc <;> simp [hc, exitConfig, exitRuntime, exitSuccess]

/-- **C17 (exit code of an executed invocation).** -/
theorem exit_zero_iff_all_completed (t : GateTable) (h : gateOK t = true) (os : List Bool) :
    ((cliRun t .none_ .none_ os).1 = exitSuccess ↔ completedOf os = os.length)
    ∧ ((cliRun t .none_ .none_ os).1 ≠ exitSuccess → (cliRun t .none_ .none_ os).1 = exitRuntime) := by
  obtain ⟨code, enters, hl, he, _⟩ := gateOK_row h .none_ .none_
  have : enters = true := by rw [he]; rfl
  have hct := (counts_truthful os).2
  simp only [cliRun, hl, this, if_true]
  cases hany : os.any (!·) with
  | false => simp [exitSuccess, hct.mpr hany]
  | true =>
    have : completedOf os ≠ os.length := fun hh => by rw [hct.mp hh] at hany; cases hany
    simp [exitSuccess, exitRuntime, this]

/-- The runs started are those up to and including the first failing one. -/
theorem runs_started (t : GateTable) (h : gateOK t = true) (os : List Bool) :
    (cliRun t .none_ .none_ os).2 = (expectedRuns os 0).length := by
  obtain ⟨code, enters, hl, he, _⟩ := gateOK_row h .none_ .none_
  have : enters = true := by rw [he]; rfl
  simp [cliRun, hl, this, expectedRuns_length]

end SemantivaModel.Gate
