import SemantivaModel.Proofs.Transport
/-!
# C14 — in-memory transport: every message exactly once, in channel order, under every interleaving

Invariants of the small-step model, proved for **every schedule** (a `List Tid` of any length) by
induction over the schedule; the ones that need it assume the decidable side condition `Shape.good`.
-/
namespace SemantivaModel.Transport

/-! ## 1. Queue references are valid (all shapes) -/

structure Valid (s : TState) : Prop where
  map : ∀ c q, (c, q) ∈ s.chanMap → q < s.stores.length
  pubs : ∀ (i : Nat) (p : Pub), s.pubs[i]? = some p → ∀ q : Qid, (p.pc = PubPc.have_ q ∨ p.pc = PubPc.factoryRan q) → q < s.stores.length

theorem lookup_mem {m : List (String × Qid)} {c : String} {q : Qid} (h : m.lookup c = some q) : (c, q) ∈ m := by
  induction m with
  | nil => simp at h
  | cons kv rest ih =>
    obtain ⟨k, v⟩ := kv
    simp only [List.lookup] at h
    split at h
    · rename_i heq
      injection h with h
      have : c = k := by simpa using heq
      subst this; subst h; simp
    · exact List.mem_cons_of_mem _ (ih h)

theorem mem_setChan {m : List (String × Qid)} {c : String} {q : Qid} {c' : String} {q' : Qid}
    (h : (c', q') ∈ setChan m c q) : (c', q') ∈ m ∨ q' = q := by
  unfold setChan at h
  split at h
  · simp only [List.mem_map] at h
    obtain ⟨kv, hkv, he⟩ := h
    split at he
    · injection he with _ h2; exact Or.inr h2.symm
    · subst he; exact Or.inl hkv
  · rcases List.mem_append.mp h with h | h
    · exact Or.inl h
    · simp at h; exact Or.inr h.2

theorem pubs_set_get {pubs : List Pub} {i : Nat} {p' : Pub} {k : Nat} {p : Pub}
    (h : (pubs.set i p')[k]? = some p) : (k = i ∧ p = p') ∨ (k ≠ i ∧ pubs[k]? = some p) := by
  by_cases hk : k = i
  · subst hk
    left
    have hlt : k < (pubs.set k p').length := getElem?_lt h
    rw [List.getElem?_eq_getElem hlt, List.getElem_set_self] at h
    injection h with h
    exact ⟨rfl, h.symm⟩
  · right
    rw [List.getElem?_set_ne (Ne.symm hk)] at h
    exact ⟨hk, h⟩

theorem valid_update {s s' : TState} (h : Valid s) (hlen : s.stores.length ≤ s'.stores.length)
    (hmap : ∀ c q, (c, q) ∈ s'.chanMap → (c, q) ∈ s.chanMap ∨ q < s'.stores.length)
    (hpubs : ∀ (k : Nat) (pk : Pub), s'.pubs[k]? = some pk →
      s.pubs[k]? = some pk ∨ ∀ q : Qid, (pk.pc = PubPc.have_ q ∨ pk.pc = PubPc.factoryRan q) → q < s'.stores.length) :
    Valid s' := by
  refine ⟨?_, ?_⟩
  · intro c q hm
    rcases hmap c q hm with hm | hm
    · exact Nat.lt_of_lt_of_le (h.map c q hm) hlen
    · exact hm
  · intro k pk hk q hq
    rcases hpubs k pk hk with hk' | hk'
    · exact Nat.lt_of_lt_of_le (h.pubs k pk hk' q hq) hlen
    · exact hk' q hq

theorem stepPub_valid (sh : Shape) (s : TState) (i : Nat) (h : Valid s) : Valid (stepPub sh s i) := by
  unfold stepPub
  cases hp : s.pubs[i]? with
  | none => exact h
  | some p =>
    simp only []
    -- the common shape of the `pubs` obligation: thread `i` got a new record, the others are untouched
    have setPub : ∀ (s' : TState) (p' : Pub), s'.pubs = s.pubs.set i p' →
        (∀ q : Qid, (p'.pc = PubPc.have_ q ∨ p'.pc = PubPc.factoryRan q) → q < s'.stores.length) →
        ∀ (k : Nat) (pk : Pub), s'.pubs[k]? = some pk →
          s.pubs[k]? = some pk ∨ ∀ q : Qid, (pk.pc = PubPc.have_ q ∨ pk.pc = PubPc.factoryRan q) → q < s'.stores.length := by
      intro s' p' hs' hp' k pk hk
      rw [hs'] at hk
      rcases pubs_set_get hk with ⟨_, rfl⟩ | ⟨_, hk'⟩
      · exact Or.inr hp'
      · exact Or.inl hk'
    cases hpc : p.pc <;> cases htodo : p.todo <;> simp only []
    case done.nil => exact h
    case done.cons => exact h
    case start.nil | missDecided.nil | factoryRan.nil | have_.nil =>
      exact valid_update h (Nat.le_refl _) (fun c q hm => Or.inl hm)
        (setPub _ _ rfl (by intro q hq; rcases hq with hq | hq <;> simp at hq))
    case start.cons c rest =>
      cases hl : lookupChan s c with
      | some q =>
        simp only []
        refine valid_update h (Nat.le_refl _) (fun c q hm => Or.inl hm) (setPub _ _ rfl ?_)
        intro q' hq'
        rcases hq' with hq' | hq'
        · simp only at hq'; injection hq' with hq'; subst hq'
          exact h.map _ _ (lookup_mem hl)
        · simp at hq'
      | none =>
        simp only []
        split
        · refine valid_update h (by simp) ?_ (setPub _ _ rfl ?_)
          · intro c' q' hm
            rcases List.mem_append.mp hm with hm | hm
            · exact Or.inl hm
            · right; simp at hm; rw [hm.2]; simp
          · intro q' hq'
            rcases hq' with hq' | hq'
            · simp only at hq'; injection hq' with hq'; subst hq'; simp
            · simp at hq'
        · exact valid_update h (Nat.le_refl _) (fun c q hm => Or.inl hm)
            (setPub _ _ rfl (by intro q hq; rcases hq with hq | hq <;> simp at hq))
    case missDecided.cons c rest =>
      refine valid_update h (by simp) (fun c q hm => Or.inl hm) (setPub _ _ rfl ?_)
      intro q' hq'
      rcases hq' with hq' | hq'
      · simp at hq'
      · simp only at hq'; injection hq' with hq'; subst hq'; simp
    case factoryRan.cons q c rest =>
      have hq : q < s.stores.length := h.pubs i p hp q (Or.inr hpc)
      refine valid_update h (Nat.le_refl _) ?_ (setPub _ _ rfl ?_)
      · intro c' q' hm
        rcases mem_setChan hm with hm | rfl
        · exact Or.inl hm
        · exact Or.inr hq
      · intro q' hq'
        rcases hq' with hq' | hq'
        · simp only at hq'; injection hq' with hq'; subst hq'; exact hq
        · simp at hq'
    case have_.cons q c rest =>
      refine valid_update h (by simp) (fun c q hm => Or.inl hm) (setPub _ _ rfl ?_)
      intro q' hq'
      rcases hq' with hq' | hq' <;> (simp only at hq'; split at hq' <;> simp at hq')

theorem stepSub_valid (sh : Shape) (mt : String → String → Bool) (s : TState) (j : Nat) (h : Valid s) :
    Valid (stepSub sh mt s j) := by
  unfold stepSub
  split
  · exact h
  · split
    all_goals first
      | exact h
      | exact ⟨h.map, h.pubs⟩
      | (split <;> first
          | exact ⟨h.map, h.pubs⟩
          | exact ⟨fun c q hm => by simp only [List.length_set]; exact h.map c q hm,
                   fun k pk hk q hq => by simp only [List.length_set]; exact h.pubs k pk hk q hq⟩
          | (split <;> first
              | exact ⟨h.map, h.pubs⟩
              | exact ⟨fun c q hm => by simp only [List.length_set]; exact h.map c q hm,
                       fun k pk hk q hq => by simp only [List.length_set]; exact h.pubs k pk hk q hq⟩))

theorem init_valid (programs : List (List String)) (patterns : List String) : Valid (init programs patterns) := by
  refine ⟨by intro c q h; simp [init] at h, ?_⟩
  intro i p hp q hq
  simp only [init, List.getElem?_map] at hp
  cases hprog : programs[i]? with
  | none => simp [hprog] at hp
  | some t =>
    simp only [hprog, Option.map_some] at hp
    injection hp with hp; subst hp
    rcases hq with hq | hq <;> (simp only at hq; split at hq <;> simp at hq)

theorem run_valid (sh : Shape) (mt : String → String → Bool) (s : TState) (sched : List Tid) (h : Valid s) :
    Valid (run sh mt s sched) := by
  induction sched generalizing s with
  | nil => exact h
  | cons t ts ih =>
    apply ih
    cases t with
    | pub i => exact stepPub_valid sh s i h
    | sub j => exact stepSub_valid sh mt s j h

/-! ## 2. Conservation: nothing is created, destroyed or duplicated (all shapes) -/

def Conserved (s : TState) : Prop := s.appended.Perm (s.stores.flatten ++ taken s)

theorem stepPub_conserved (sh : Shape) (s : TState) (i : Nat) (hv : Valid s) (h : Conserved s) :
    Conserved (stepPub sh s i) := by
  have h0 : s.appended.Perm (s.stores.flatten ++ taken s) := h
  unfold stepPub
  cases hp : s.pubs[i]? with
  | none => exact h
  | some p =>
    simp only []
    cases hpc : p.pc <;> cases htodo : p.todo <;> simp only []
    case done.nil => exact h
    case done.cons => exact h
    case start.nil | missDecided.nil | factoryRan.nil | have_.nil => exact h0
    case start.cons c rest =>
      cases hl : lookupChan s c with
      | some q => exact h0
      | none =>
        simp only []
        split
        · show s.appended.Perm ((s.stores ++ [[]]).flatten ++ taken s)
          simpa using h0
        · exact h0
    case missDecided.cons c rest =>
      show s.appended.Perm ((s.stores ++ [[]]).flatten ++ taken s)
      simpa using h0
    case factoryRan.cons q c rest => exact h0
    case have_.cons q c rest =>
      have hq : q < s.stores.length := hv.pubs i p hp q (Or.inl hpc)
      show (s.appended ++ [(⟨i, c, p.nextSeq⟩ : Msg)]).Perm
        ((s.stores.set q (s.stores.getD q [] ++ [(⟨i, c, p.nextSeq⟩ : Msg)])).flatten ++ taken s)
      have h1 := flatten_set_perm s.stores q (s.stores.getD q [] ++ [(⟨i, c, p.nextSeq⟩ : Msg)]) [(⟨i, c, p.nextSeq⟩ : Msg)] hq
        (by rw [getD_eq_getElem _ _ _ hq])
      refine (h0.append_right _).trans ?_
      refine List.Perm.trans ?_ (h1.symm.append_right _)
      rw [List.append_assoc, List.append_assoc]
      exact List.Perm.append_left _ List.perm_append_comm

theorem taken_set_eq (s : TState) (j : Nat) (u u' : Sub) (hu : s.subs[j]? = some u)
    (h : u'.delivered ++ inHand u' = u.delivered ++ inHand u) :
    (s.subs.set j u').flatMap (fun u => u.delivered ++ inHand u) = taken s := by
  have hj := getElem?_lt hu
  have := getElem_of_getElem? hu
  exact flatMap_set_eq _ s.subs j u' hj (by rw [this]; exact h)

theorem stepSub_conserved (sh : Shape) (mt : String → String → Bool) (s : TState) (j : Nat) (h : Conserved s) :
    Conserved (stepSub sh mt s j) := by
  unfold stepSub
  split
  · exact h
  · rename_i u hu
    have hj := getElem?_lt hu
    have hget := getElem_of_getElem? hu
    -- a subscriber update that leaves `delivered ++ inHand` alone leaves `taken` alone
    have keep : ∀ u' : Sub, u'.delivered ++ inHand u' = u.delivered ++ inHand u →
        Conserved { s with subs := s.subs.set j u' } := by
      intro u' he
      show s.appended.Perm (s.stores.flatten ++ (s.subs.set j u').flatMap _)
      rw [taken_set_eq s j u u' hu he]; exact h
    -- a pop moves one message from a queue into the subscriber's hand
    have pop : ∀ (q : Nat) (m : Msg) (tl : List Msg), s.stores.getD q [] = m :: tl → inHand u = [] →
        Conserved { s with stores := s.stores.set q tl, subs := s.subs.set j { u with pc := .holding m } } := by
      intro q m tl hq hh
      have hql : q < s.stores.length := lt_of_getD_ne_nil _ _ (by rw [hq]; simp)
      have hq' : s.stores[q] = m :: tl := by rw [← getD_eq_getElem _ [] _ hql]; exact hq
      show s.appended.Perm ((s.stores.set q tl).flatten ++ (s.subs.set j _).flatMap _)
      have h1 := flatten_set_tail_perm s.stores q m tl hql hq'
      have h2 := flatMap_set_perm (fun u => u.delivered ++ inHand u) s.subs j { u with pc := .holding m } [m] hj
        (by rw [hget]; show u.delivered ++ [m] = (u.delivered ++ inHand u) ++ [m]; rw [hh]; simp)
      have h0 : s.appended.Perm (s.stores.flatten ++ taken s) := h
      refine h0.trans ?_
      refine List.Perm.trans ?_ (List.Perm.append_left _ h2.symm)
      refine (h1.symm.append_right _).trans ?_
      show (m :: ((s.stores.set q tl).flatten ++ taken s)).Perm ((s.stores.set q tl).flatten ++ (taken s ++ [m]))
      refine List.Perm.trans (List.perm_append_comm (l₁ := [m])) ?_
      show (((s.stores.set q tl).flatten ++ taken s) ++ [m]).Perm _
      rw [List.append_assoc]
    split
    · exact h
    · exact h
    · exact keep _ (by rename_i hpc; simp [inHand, hpc])
    · exact keep _ (by rename_i hpc; simp [inHand, hpc])
    · rename_i hpc
      split
      · exact keep _ (by simp [inHand, hpc])
      · rename_i m tl hq
        split
        · exact pop _ m tl hq (by simp [inHand, hpc])
        · exact keep _ (by simp [inHand, hpc])
    · rename_i hpc
      split
      · exact keep _ (by simp [inHand, hpc])
      · rename_i m tl hq
        exact pop _ m tl hq (by simp [inHand, hpc])
    · rename_i m hpc
      exact keep _ (by simp [inHand, hpc])

theorem run_conserved (sh : Shape) (mt : String → String → Bool) (s : TState) (sched : List Tid)
    (hv : Valid s) (h : Conserved s) : Conserved (run sh mt s sched) := by
  induction sched generalizing s with
  | nil => exact h
  | cons t ts ih =>
    cases t with
    | pub i => exact ih _ (stepPub_valid sh s i hv) (stepPub_conserved sh s i hv h)
    | sub j => exact ih _ (stepSub_valid sh mt s j hv) (stepSub_conserved sh mt s j h)

/-- **C14 (conservation).** Under every schedule, the messages whose append completed are, as a
    multiset, exactly those still queued plus those taken by subscribers: none is destroyed and none
    is duplicated. (This holds for every shape: what a racy queue creation breaks is *reachability*
    of a queue, next section.) -/
theorem conservation (sh : Shape) (mt : String → String → Bool) (programs : List (List String))
    (patterns : List String) (sched : List Tid) :
    Conserved (run sh mt (init programs patterns) sched) :=
  run_conserved sh mt _ sched (init_valid programs patterns) (by simp [Conserved, init, taken, inHand])

/-! ## 3. Reachability and routing (good shapes): no message is ever stranded, none is mis-delivered -/

theorem lookup_append_some {m l : List (String × Qid)} {c : String} {q : Qid} (h : m.lookup c = some q) :
    (m ++ l).lookup c = some q := by
  induction m with
  | nil => simp at h
  | cons kv rest ih =>
    obtain ⟨k, v⟩ := kv
    simp only [List.cons_append, List.lookup] at h ⊢
    cases heq : (c == k) <;> simp only [heq] at h ⊢
    · exact ih h
    · exact h

theorem lookup_append_none {m : List (String × Qid)} {c : String} {q : Qid} (h : m.lookup c = none) :
    (m ++ [(c, q)]).lookup c = some q := by
  induction m with
  | nil => simp [List.lookup]
  | cons kv rest ih =>
    obtain ⟨k, v⟩ := kv
    simp only [List.cons_append, List.lookup] at h ⊢
    cases heq : (c == k) <;> simp only [heq] at h ⊢
    · exact ih h
    · cases h

theorem lookup_append_other {m : List (String × Qid)} {c c' : String} {q : Qid} (hne : c' ≠ c) :
    (m ++ [(c, q)]).lookup c' = m.lookup c' := by
  induction m with
  | nil =>
    have : (c' == c) = false := by simpa using hne
    simp [List.lookup, this]
  | cons kv rest ih =>
    obtain ⟨k, v⟩ := kv
    simp only [List.cons_append, List.lookup]
    cases heq : (c' == k) <;> simp only []
    exact ih

theorem mem_of_lookup_keys {m : List (String × Qid)} {c : String} {q : Qid} (h : (c, q) ∈ m) :
    c ∈ m.map (·.1) := List.mem_map.mpr ⟨(c, q), h, rfl⟩

theorem lookup_of_mem_nodup {m : List (String × Qid)} (hn : (m.map (·.1)).Nodup) {c : String} {q : Qid}
    (h : (c, q) ∈ m) : m.lookup c = some q := by
  induction m with
  | nil => simp at h
  | cons kv rest ih =>
    obtain ⟨k, v⟩ := kv
    simp only [List.map_cons, List.nodup_cons] at hn
    rcases List.mem_cons.mp h with h | h
    · injection h with h1 h2; subst h1; subst h2; simp [List.lookup]
    · have hne : c ≠ k := by
        intro e; rw [e] at h; exact hn.1 (mem_of_lookup_keys h)
      simp only [List.lookup]
      have : (c == k) = false := by simpa using hne
      simp only [this]
      exact ih hn.2 h

theorem lookup_none_not_key {m : List (String × Qid)} {c : String} (h : m.lookup c = none) : c ∉ m.map (·.1) := by
  induction m with
  | nil => simp
  | cons kv rest ih =>
    obtain ⟨k, v⟩ := kv
    simp only [List.lookup] at h
    cases heq : (c == k) <;> simp only [heq] at h
    · simp only [List.map_cons, List.mem_cons, not_or]
      exact ⟨by simpa using heq, ih h⟩
    · cases h

/-- The invariant that makes every queued message reachable and every delivery well-routed. -/
structure Reach (mt : String → String → Bool) (s : TState) : Prop where
  keys : (s.chanMap.map (·.1)).Nodup
  inj : ∀ c₁ c₂ q, lookupChan s c₁ = some q → lookupChan s c₂ = some q → c₁ = c₂
  placed : ∀ (q : Nat) (hq : q < s.stores.length) (m : Msg), m ∈ s.stores[q] → lookupChan s m.chan = some q
  pubRef : ∀ (i : Nat) (p : Pub), s.pubs[i]? = some p → ∀ (q : Qid) (c : String) (rest : List String),
    p.pc = PubPc.have_ q → p.todo = c :: rest → lookupChan s c = some q
  pubPc : ∀ (i : Nat) (p : Pub), s.pubs[i]? = some p → p.pc ≠ PubPc.missDecided ∧ ∀ q, p.pc ≠ PubPc.factoryRan q
  subRef : ∀ (j : Nat) (u : Sub), s.subs[j]? = some u → ∀ todo, u.pc = SubPc.scanning todo →
    ∀ c q, (c, q) ∈ todo → lookupChan s c = some q ∧ mt u.pattern c = true
  subPc : ∀ (j : Nat) (u : Sub), s.subs[j]? = some u → ∀ q rest, u.pc ≠ SubPc.tested q rest
  routed : ∀ (j : Nat) (u : Sub), s.subs[j]? = some u → ∀ m, m ∈ u.delivered ++ inHand u → mt u.pattern m.chan = true

theorem subs_set_get {subs : List Sub} {j : Nat} {u' : Sub} {k : Nat} {u : Sub}
    (h : (subs.set j u')[k]? = some u) : (k = j ∧ u = u') ∨ (k ≠ j ∧ subs[k]? = some u) := by
  by_cases hk : k = j
  · subst hk
    left
    have hlt : k < (subs.set k u').length := getElem?_lt h
    rw [List.getElem?_eq_getElem hlt, List.getElem_set_self] at h
    injection h with h
    exact ⟨rfl, h.symm⟩
  · right
    rw [List.getElem?_set_ne (Ne.symm hk)] at h
    exact ⟨hk, h⟩

theorem stepPub_reach (sh : Shape) (hg : sh.good = true) (mt : String → String → Bool) (s : TState) (i : Nat)
    (hv : Valid s) (h : Reach mt s) : Reach mt (stepPub sh s i) := by
  have hatomic : sh.getOrCreateAtomic = true := by
    simp only [Shape.good, Bool.and_eq_true] at hg; exact hg.1.1.1.1.1
  unfold stepPub
  cases hp : s.pubs[i]? with
  | none => exact h
  | some p =>
    simp only []
    have hpc' := h.pubPc i p hp
    -- replacing thread i's record by one that is not `have_`/`missDecided`/`factoryRan`, nothing else changes
    have plain : ∀ p' : Pub, (∀ q, p'.pc ≠ PubPc.have_ q) → p'.pc ≠ PubPc.missDecided → (∀ q, p'.pc ≠ PubPc.factoryRan q) →
        Reach mt { s with pubs := s.pubs.set i p' } := by
      intro p' h1 h2 h3
      refine ⟨h.keys, h.inj, h.placed, ?_, ?_, h.subRef, h.subPc, h.routed⟩
      · intro k pk hk q c rest hq ht
        rcases pubs_set_get hk with ⟨_, rfl⟩ | ⟨_, hk'⟩
        · exact absurd hq (h1 q)
        · exact h.pubRef k pk hk' q c rest hq ht
      · intro k pk hk
        rcases pubs_set_get hk with ⟨_, rfl⟩ | ⟨_, hk'⟩
        · exact ⟨h2, h3⟩
        · exact h.pubPc k pk hk'
    cases hpc : p.pc <;> cases htodo : p.todo <;> simp only []
    case done.nil => exact h
    case done.cons => exact h
    case start.nil | missDecided.nil | factoryRan.nil | have_.nil =>
      exact plain _ (by intro q; simp) (by simp) (by intro q; simp)
    case missDecided.cons => exact absurd hpc hpc'.1
    case factoryRan.cons q _ _ => exact absurd hpc (hpc'.2 q)
    case start.cons c rest =>
      cases hl : lookupChan s c with
      | some q =>
        simp only []
        refine ⟨h.keys, h.inj, h.placed, ?_, ?_, h.subRef, h.subPc, h.routed⟩
        · intro k pk hk q' c' rest' hq' ht'
          rcases pubs_set_get hk with ⟨_, rfl⟩ | ⟨_, hk'⟩
          · simp only at hq' ht'
            injection hq' with hq'; injection ht' with ht1 _
            subst hq'; subst ht1; exact hl
          · exact h.pubRef k pk hk' q' c' rest' hq' ht'
        · intro k pk hk
          rcases pubs_set_get hk with ⟨_, rfl⟩ | ⟨_, hk'⟩
          · exact ⟨by simp, by intro q; simp⟩
          · exact h.pubPc k pk hk'
      | none =>
        simp only [hatomic, if_true]
        have hl' : s.chanMap.lookup c = none := hl
        have keep : ∀ c' q', lookupChan s c' = some q' →
            (s.chanMap ++ [(c, s.stores.length)]).lookup c' = some q' := fun c' q' hh => lookup_append_some hh
        refine ⟨?_, ?_, ?_, ?_, ?_, ?_, h.subPc, h.routed⟩
        · show ((s.chanMap ++ [(c, s.stores.length)]).map (·.1)).Nodup
          simp only [List.map_append, List.map_cons, List.map_nil]
          refine List.nodup_append.mpr ⟨h.keys, by simp, ?_⟩
          intro a ha b hb
          simp at hb; subst hb
          intro e; subst e
          exact lookup_none_not_key hl' ha
        · intro c₁ c₂ q h1 h2
          have h1' : (s.chanMap ++ [(c, s.stores.length)]).lookup c₁ = some q := h1
          have h2' : (s.chanMap ++ [(c, s.stores.length)]).lookup c₂ = some q := h2
          by_cases e1 : c₁ = c <;> by_cases e2 : c₂ = c
          · rw [e1, e2]
          · exfalso
            rw [e1, lookup_append_none hl'] at h1'
            rw [lookup_append_other e2] at h2'
            injection h1' with h1'; subst h1'
            exact Nat.lt_irrefl _ (hv.map _ _ (lookup_mem h2'))
          · exfalso
            rw [e2, lookup_append_none hl'] at h2'
            rw [lookup_append_other e1] at h1'
            injection h2' with h2'; subst h2'
            exact Nat.lt_irrefl _ (hv.map _ _ (lookup_mem h1'))
          · rw [lookup_append_other e1] at h1'
            rw [lookup_append_other e2] at h2'
            exact h.inj c₁ c₂ q h1' h2'
        · intro q hq m hm
          show (s.chanMap ++ [(c, s.stores.length)]).lookup m.chan = some q
          by_cases hq' : q < s.stores.length
          · have : (s.stores ++ [[]])[q] = s.stores[q] := List.getElem_append_left hq'
            rw [this] at hm
            exact keep _ _ (h.placed q hq' m hm)
          · have hlen : (s.stores ++ [[]]).length = s.stores.length + 1 := by simp
            have hq3 : q < (s.stores ++ [[]]).length := hq
            have hq2 : q = s.stores.length := by omega
            subst hq2
            simp at hm
        · intro k pk hk q' c' rest' hq' ht'
          show (s.chanMap ++ [(c, s.stores.length)]).lookup c' = some q'
          rcases pubs_set_get hk with ⟨_, rfl⟩ | ⟨_, hk'⟩
          · simp only at hq' ht'
            injection hq' with hq'; injection ht' with ht1 _
            subst hq'; subst ht1
            exact lookup_append_none hl'
          · exact keep _ _ (h.pubRef k pk hk' q' c' rest' hq' ht')
        · intro k pk hk
          rcases pubs_set_get hk with ⟨_, rfl⟩ | ⟨_, hk'⟩
          · exact ⟨by simp, by intro q; simp⟩
          · exact h.pubPc k pk hk'
        · intro j u hu todo ht c' q' hm
          have := h.subRef j u hu todo ht c' q' hm
          exact ⟨keep _ _ this.1, this.2⟩
    case have_.cons q c rest =>
      have hq : q < s.stores.length := hv.pubs i p hp q (Or.inl hpc)
      have hc : lookupChan s c = some q := h.pubRef i p hp q c rest hpc htodo
      refine ⟨h.keys, h.inj, ?_, ?_, ?_, h.subRef, h.subPc, h.routed⟩
      · intro q' hq' m hm
        show lookupChan s m.chan = some q'
        simp only [List.length_set] at hq'
        simp only [List.getElem_set] at hm
        split at hm
        · rename_i heq
          subst heq
          rcases List.mem_append.mp hm with hm | hm
          · rw [getD_eq_getElem _ _ _ hq] at hm
            exact h.placed q hq m hm
          · simp at hm; subst hm; exact hc
        · exact h.placed q' hq' m hm
      · intro k pk hk q' c' rest' hq' ht'
        rcases pubs_set_get hk with ⟨_, rfl⟩ | ⟨_, hk'⟩
        · simp only at hq'; split at hq' <;> simp at hq'
        · exact h.pubRef k pk hk' q' c' rest' hq' ht'
      · intro k pk hk
        rcases pubs_set_get hk with ⟨_, rfl⟩ | ⟨_, hk'⟩
        · constructor
          · simp only; split <;> simp
          · intro q'; simp only; split <;> simp
        · exact h.pubPc k pk hk'

theorem stepSub_reach (sh : Shape) (hg : sh.good = true) (mt : String → String → Bool) (s : TState) (j : Nat)
    (h : Reach mt s) : Reach mt (stepSub sh mt s j) := by
  have hatomic : sh.testPopAtomic = true := by
    simp only [Shape.good, Bool.and_eq_true] at hg; exact hg.1.1.1.1.2
  have hfilter : sh.filtersByPattern = true := by
    simp only [Shape.good, Bool.and_eq_true] at hg; exact hg.1.2
  unfold stepSub
  cases hu : s.subs[j]? with
  | none => exact h
  | some u =>
    simp only []
    -- replacing subscriber j's record, queues untouched
    have setSub : ∀ u' : Sub, u'.pattern = u.pattern →
        (∀ todo, u'.pc = SubPc.scanning todo → ∀ c q, (c, q) ∈ todo → lookupChan s c = some q ∧ mt u.pattern c = true) →
        (∀ q rest, u'.pc ≠ SubPc.tested q rest) →
        (∀ m, m ∈ u'.delivered ++ inHand u' → mt u.pattern m.chan = true) →
        Reach mt { s with subs := s.subs.set j u' } := by
      intro u' hpat h1 h2 h3
      refine ⟨h.keys, h.inj, h.placed, h.pubRef, h.pubPc, ?_, ?_, ?_⟩
      · intro k uk hk todo ht c q hm
        rcases subs_set_get hk with ⟨_, rfl⟩ | ⟨_, hk'⟩
        · rw [hpat]; exact h1 todo ht c q hm
        · exact h.subRef k uk hk' todo ht c q hm
      · intro k uk hk
        rcases subs_set_get hk with ⟨_, rfl⟩ | ⟨_, hk'⟩
        · exact h2
        · exact h.subPc k uk hk'
      · intro k uk hk m hm
        rcases subs_set_get hk with ⟨_, rfl⟩ | ⟨_, hk'⟩
        · rw [hpat]; exact h3 m hm
        · exact h.routed k uk hk' m hm
    have hrouted := h.routed j u hu
    cases hpc : u.pc with
    | exited => exact h
    | crashed => exact h
    | tested q rest => exact absurd hpc (h.subPc j u hu q rest)
    | idle =>
      simp only [hfilter, if_true]
      refine setSub _ rfl ?_ (by intro q rest; simp) ?_
      · intro todo ht c q hm
        simp only at ht
        injection ht with ht; subst ht
        have hm' := List.mem_filter.mp hm
        exact ⟨lookup_of_mem_nodup h.keys hm'.1, by simpa using hm'.2⟩
      · intro m hm
        exact hrouted m (by simpa [inHand, hpc] using hm)
    | holding m =>
      simp only []
      refine setSub _ rfl (by intro todo ht; simp at ht) (by intro q rest; simp) ?_
      intro m' hm'
      exact hrouted m' (by simpa [inHand, hpc] using hm')
    | scanning todo =>
      cases todo with
      | nil =>
        simp only []
        refine setSub _ rfl (by intro todo ht; simp at ht) (by intro q rest; simp) ?_
        intro m hm
        exact hrouted m (by simpa [inHand, hpc] using hm)
      | cons cq rest =>
        obtain ⟨c, q⟩ := cq
        simp only []
        have href := h.subRef j u hu _ hpc
        cases hst : s.stores.getD q [] with
        | nil =>
          simp only []
          refine setSub _ rfl ?_ (by intro q rest; simp) ?_
          · intro todo ht c' q' hm
            simp only at ht
            injection ht with ht; subst ht
            exact href c' q' (List.mem_cons_of_mem _ hm)
          · intro m hm
            exact hrouted m (by simpa [inHand, hpc] using hm)
        | cons m tl =>
          simp only [hatomic, if_true]
          have hql : q < s.stores.length := lt_of_getD_ne_nil _ _ (by rw [hst]; simp)
          have hq' : s.stores[q] = m :: tl := by rw [← getD_eq_getElem _ [] _ hql]; exact hst
          have hmc : m.chan = c := by
            have h1 := h.placed q hql m (by rw [hq']; simp)
            have h2 := (href c q (by simp)).1
            exact h.inj _ _ _ h1 h2
          refine ⟨h.keys, h.inj, ?_, h.pubRef, h.pubPc, ?_, ?_, ?_⟩
          · intro q' hq'' m' hm'
            show lookupChan s m'.chan = some q'
            simp only [List.length_set] at hq''
            simp only [List.getElem_set] at hm'
            split at hm'
            · rename_i heq
              subst heq
              exact h.placed q hql m' (by rw [hq']; exact List.mem_cons_of_mem _ hm')
            · exact h.placed q' hq'' m' hm'
          · intro k uk hk todo ht c' q'' hm
            rcases subs_set_get hk with ⟨_, rfl⟩ | ⟨_, hk'⟩
            · simp at ht
            · exact h.subRef k uk hk' todo ht c' q'' hm
          · intro k uk hk
            rcases subs_set_get hk with ⟨_, rfl⟩ | ⟨_, hk'⟩
            · intro q rest; simp
            · exact h.subPc k uk hk'
          · intro k uk hk m' hm'
            rcases subs_set_get hk with ⟨_, rfl⟩ | ⟨_, hk'⟩
            · simp only [inHand, List.mem_append, List.mem_cons, List.mem_nil_iff, or_false] at hm'
              rcases hm' with hm' | hm'
              · exact hrouted m' (List.mem_append_left _ hm')
              · subst hm'
                rw [hmc]
                exact (href c q (by simp)).2
            · exact h.routed k uk hk' m' hm'

theorem init_reach (mt : String → String → Bool) (programs : List (List String)) (patterns : List String) :
    Reach mt (init programs patterns) := by
  refine ⟨by simp [init], ?_, ?_, ?_, ?_, ?_, ?_, ?_⟩
  · intro c₁ c₂ q h1; simp [init, lookupChan] at h1
  · intro q hq; simp [init] at hq
  · intro i p hp q c rest hq
    simp only [init, List.getElem?_map] at hp
    cases hprog : programs[i]? with
    | none => simp [hprog] at hp
    | some t =>
      simp only [hprog, Option.map_some] at hp
      injection hp with hp; subst hp
      simp only at hq; split at hq <;> simp at hq
  · intro i p hp
    simp only [init, List.getElem?_map] at hp
    cases hprog : programs[i]? with
    | none => simp [hprog] at hp
    | some t =>
      simp only [hprog, Option.map_some] at hp
      injection hp with hp; subst hp
      constructor
      · simp only; split <;> simp
      · intro q; simp only; split <;> simp
  · intro j u hu todo ht
    simp only [init, List.getElem?_map] at hu
    cases hpat : patterns[j]? with
    | none => simp [hpat] at hu
    | some t =>
      simp only [hpat, Option.map_some] at hu
      injection hu with hu; subst hu
      simp at ht
  · intro j u hu q rest
    simp only [init, List.getElem?_map] at hu
    cases hpat : patterns[j]? with
    | none => simp [hpat] at hu
    | some t =>
      simp only [hpat, Option.map_some] at hu
      injection hu with hu; subst hu
      simp
  · intro j u hu m hm
    simp only [init, List.getElem?_map] at hu
    cases hpat : patterns[j]? with
    | none => simp [hpat] at hu
    | some t =>
      simp only [hpat, Option.map_some] at hu
      injection hu with hu; subst hu
      simp [inHand] at hm

theorem run_reach (sh : Shape) (hg : sh.good = true) (mt : String → String → Bool) (s : TState) (sched : List Tid)
    (hv : Valid s) (h : Reach mt s) : Reach mt (run sh mt s sched) := by
  induction sched generalizing s with
  | nil => exact h
  | cons t ts ih =>
    cases t with
    | pub i => exact ih _ (stepPub_valid sh s i hv) (stepPub_reach sh hg mt s i hv h)
    | sub j => exact ih _ (stepSub_valid sh mt s j hv) (stepSub_reach sh hg mt s j h)

/-- **C14 (never lost).** With a good shape, under every schedule every message still queued sits in
    the queue the channel map names for its channel — so any later subscription whose pattern matches
    that channel will find it; no message is stranded in a queue nobody can reach. -/
theorem no_stranded_message (sh : Shape) (hg : sh.good = true) (mt : String → String → Bool)
    (programs : List (List String)) (patterns : List String) (sched : List Tid) :
    let s := run sh mt (init programs patterns) sched
    ∀ (q : Nat) (hq : q < s.stores.length) (m : Msg), m ∈ s.stores[q] → lookupChan s m.chan = some q :=
  (run_reach sh hg mt _ sched (init_valid programs patterns) (init_reach mt programs patterns)).placed

/-- **C14 (only matching channels).** Whatever a subscription has taken matches its pattern. -/
theorem only_matching_delivered (sh : Shape) (hg : sh.good = true) (mt : String → String → Bool)
    (programs : List (List String)) (patterns : List String) (sched : List Tid) :
    let s := run sh mt (init programs patterns) sched
    ∀ (j : Nat) (u : Sub), s.subs[j]? = some u → ∀ m, m ∈ u.delivered ++ inHand u → mt u.pattern m.chan = true :=
  (run_reach sh hg mt _ sched (init_valid programs patterns) (init_reach mt programs patterns)).routed

/-- With a good shape no subscriber ever pops an empty queue (the `crashed` state needs the
    non-atomic test-then-pop, which `good` excludes via `subPc`). -/
theorem no_half_tested (sh : Shape) (hg : sh.good = true) (mt : String → String → Bool)
    (programs : List (List String)) (patterns : List String) (sched : List Tid) :
    let s := run sh mt (init programs patterns) sched
    ∀ (j : Nat) (u : Sub), s.subs[j]? = some u → ∀ q rest, u.pc ≠ SubPc.tested q rest :=
  (run_reach sh hg mt _ sched (init_valid programs patterns) (init_reach mt programs patterns)).subPc

/-! ## 4. Publication order is preserved per (publisher, channel) -/

def SameSrc (a b : Msg) : Prop := a.pub = b.pub → a.chan = b.chan → a.seq < b.seq

def tk (u : Sub) : List Msg := u.delivered ++ inHand u

structure Fifo (s : TState) : Prop where
  nodup : s.appended.Nodup
  fresh : ∀ (i : Nat) (p : Pub), s.pubs[i]? = some p → ∀ m ∈ s.appended, m.pub = i → m.seq < p.nextSeq
  queue : ∀ (q : Nat) (hq : q < s.stores.length), (s.stores[q]).Pairwise (fun a b => a.pub = b.pub → a.seq < b.seq)
  taken : ∀ (j : Nat) (u : Sub), s.subs[j]? = some u → (tk u).Pairwise SameSrc
  ahead : ∀ (j : Nat) (u : Sub), s.subs[j]? = some u → ∀ a ∈ tk u, ∀ (q : Nat) (hq : q < s.stores.length),
    ∀ b ∈ s.stores[q], SameSrc a b

theorem mem_stores_appended {s : TState} (h : Conserved s) {q : Nat} (hq : q < s.stores.length) {m : Msg}
    (hm : m ∈ s.stores[q]) : m ∈ s.appended := by
  have : m ∈ s.stores.flatten := List.mem_flatten.mpr ⟨_, List.getElem_mem hq, hm⟩
  exact (List.Perm.mem_iff h).mpr (List.mem_append_left _ this)

theorem mem_taken_appended {s : TState} (h : Conserved s) {j : Nat} {u : Sub} (hu : s.subs[j]? = some u) {m : Msg}
    (hm : m ∈ tk u) : m ∈ s.appended := by
  have hj := getElem?_lt hu
  have hget := getElem_of_getElem? hu
  have : m ∈ taken s := by
    unfold taken
    exact List.mem_flatMap.mpr ⟨u, by rw [← hget]; exact List.getElem_mem hj, hm⟩
  exact (List.Perm.mem_iff h).mpr (List.mem_append_right _ this)

theorem stepPub_fifo (sh : Shape) (s : TState) (i : Nat) (hv : Valid s) (hc : Conserved s) (h : Fifo s) :
    Fifo (stepPub sh s i) := by
  unfold stepPub
  cases hp : s.pubs[i]? with
  | none => exact h
  | some p =>
    simp only []
    -- thread i's record changes but not its `nextSeq`; queues, history and subscribers untouched
    have plain : ∀ p' : Pub, p'.nextSeq = p.nextSeq → Fifo { s with pubs := s.pubs.set i p' } := by
      intro p' hn
      refine ⟨h.nodup, ?_, h.queue, h.taken, h.ahead⟩
      intro k pk hk m hm hmk
      rcases pubs_set_get hk with ⟨rfl, rfl⟩ | ⟨_, hk'⟩
      · rw [hn]; exact h.fresh k p hp m hm hmk
      · exact h.fresh k pk hk' m hm hmk
    -- a fresh empty queue is appended
    have grow : ∀ (cm : List (String × Qid)) (p' : Pub), p'.nextSeq = p.nextSeq →
        Fifo { s with chanMap := cm, stores := s.stores ++ [[]], pubs := s.pubs.set i p' } := by
      intro cm p' hn
      have hget : ∀ (q : Nat) (hq : q < (s.stores ++ [[]]).length),
          (q < s.stores.length ∧ ∃ hq', (s.stores ++ [[]])[q] = s.stores[q]'hq') ∨ (s.stores ++ [[]])[q] = [] := by
        intro q hq
        by_cases hq' : q < s.stores.length
        · exact Or.inl ⟨hq', hq', List.getElem_append_left hq'⟩
        · right
          have hlen : (s.stores ++ [[]]).length = s.stores.length + 1 := by simp
          have : q = s.stores.length := by omega
          subst this; simp
      refine ⟨h.nodup, ?_, ?_, h.taken, ?_⟩
      · intro k pk hk m hm hmk
        rcases pubs_set_get hk with ⟨rfl, rfl⟩ | ⟨_, hk'⟩
        · rw [hn]; exact h.fresh k p hp m hm hmk
        · exact h.fresh k pk hk' m hm hmk
      · intro q hq
        rcases hget q hq with ⟨hq', _, he⟩ | he
        · show ((s.stores ++ [[]])[q]).Pairwise _
          rw [he]; exact h.queue q hq'
        · show ((s.stores ++ [[]])[q]).Pairwise _
          rw [he]; exact List.Pairwise.nil
      · intro j u hu a ha q hq b hb
        rcases hget q hq with ⟨hq', _, he⟩ | he
        · have hb' : b ∈ (s.stores ++ [[]])[q] := hb
          rw [he] at hb'
          exact h.ahead j u hu a ha q hq' b hb'
        · have hb' : b ∈ (s.stores ++ [[]])[q] := hb
          rw [he] at hb'; simp at hb'
    cases hpc : p.pc <;> cases htodo : p.todo <;> simp only []
    case done.nil => exact h
    case done.cons => exact h
    case start.nil | missDecided.nil | factoryRan.nil | have_.nil => exact plain _ rfl
    case start.cons c rest =>
      cases hl : lookupChan s c with
      | some q => exact plain _ rfl
      | none =>
        simp only []
        split
        · exact grow _ _ rfl
        · exact plain _ rfl
    case missDecided.cons c rest => exact grow _ _ rfl
    case factoryRan.cons q c rest =>
      have := plain { todo := c :: rest, pc := PubPc.have_ q, nextSeq := p.nextSeq } rfl
      exact ⟨this.nodup, this.fresh, this.queue, this.taken, this.ahead⟩
    case have_.cons q c rest =>
      have hq : q < s.stores.length := hv.pubs i p hp q (Or.inl hpc)
      have hseq : ∀ m ∈ s.appended, m.pub = i → m.seq < p.nextSeq := h.fresh i p hp
      refine ⟨?_, ?_, ?_, h.taken, ?_⟩
      · show (s.appended ++ [(⟨i, c, p.nextSeq⟩ : Msg)]).Nodup
        refine List.nodup_append.mpr ⟨h.nodup, by simp, ?_⟩
        intro a ha b hb
        simp at hb; subst hb
        intro e; subst e
        exact Nat.lt_irrefl _ (hseq _ ha rfl)
      · intro k pk hk m hm hmk
        have hm0 : m ∈ s.appended ++ [(⟨i, c, p.nextSeq⟩ : Msg)] := hm
        clear hm
        rcases List.mem_append.mp hm0 with hm1 | hm1
        · rcases pubs_set_get hk with ⟨rfl, rfl⟩ | ⟨_, hk'⟩
          · exact Nat.lt_succ_of_lt (hseq m hm1 hmk)
          · exact h.fresh k pk hk' m hm1 hmk
        · simp at hm1; subst hm1
          rcases pubs_set_get hk with ⟨rfl, rfl⟩ | ⟨hne, hk'⟩
          · exact Nat.lt_succ_self _
          · exact absurd hmk.symm hne
      · intro q' hq'
        simp only [List.length_set] at hq'
        show ((s.stores.set q (s.stores.getD q [] ++ [(⟨i, c, p.nextSeq⟩ : Msg)]))[q']'(by simpa using hq')).Pairwise _
        simp only [List.getElem_set]
        split
        · rename_i heq; subst heq
          rw [getD_eq_getElem _ _ _ hq]
          refine List.pairwise_append.mpr ⟨h.queue q hq, by simp, ?_⟩
          intro a ha b hb hab
          simp at hb; subst hb
          exact hseq a (mem_stores_appended hc hq ha) hab
        · exact h.queue q' hq'
      · intro j u hu a ha q' hq' b hb
        simp only [List.length_set] at hq'
        have hb' : b ∈ (s.stores.set q (s.stores.getD q [] ++ [(⟨i, c, p.nextSeq⟩ : Msg)]))[q']'(by simpa using hq') := hb
        simp only [List.getElem_set] at hb'
        split at hb'
        · rename_i heq; subst heq
          rw [getD_eq_getElem _ _ _ hq] at hb'
          rcases List.mem_append.mp hb' with hb' | hb'
          · exact h.ahead j u hu a ha q hq b hb'
          · simp at hb'; subst hb'
            intro hab _
            exact hseq a (mem_taken_appended hc hu ha) hab
        · exact h.ahead j u hu a ha q' hq' b hb'

theorem stepSub_fifo (sh : Shape) (mt : String → String → Bool) (s : TState) (j : Nat)
    (hr : ∀ (q : Nat) (hq : q < s.stores.length) (m : Msg), m ∈ s.stores[q] → lookupChan s m.chan = some q)
    (h : Fifo s) : Fifo (stepSub sh mt s j) := by
  unfold stepSub
  cases hu : s.subs[j]? with
  | none => exact h
  | some u =>
    simp only []
    -- subscriber j's record changes but not what it has taken
    have keep : ∀ u' : Sub, tk u' = tk u → Fifo { s with subs := s.subs.set j u' } := by
      intro u' he
      refine ⟨h.nodup, h.fresh, h.queue, ?_, ?_⟩
      · intro k uk hk
        rcases subs_set_get hk with ⟨_, rfl⟩ | ⟨_, hk'⟩
        · rw [he]; exact h.taken j u hu
        · exact h.taken k uk hk'
      · intro k uk hk a ha
        rcases subs_set_get hk with ⟨_, rfl⟩ | ⟨_, hk'⟩
        · rw [he] at ha; exact h.ahead j u hu a ha
        · exact h.ahead k uk hk' a ha
    -- popping the head of queue q into subscriber j's hand
    have pop : ∀ (q : Nat) (m : Msg) (tl : List Msg), s.stores.getD q [] = m :: tl → inHand u = [] →
        Fifo { s with stores := s.stores.set q tl, subs := s.subs.set j { u with pc := SubPc.holding m } } := by
      intro q m tl hst hh
      have hql : q < s.stores.length := lt_of_getD_ne_nil _ _ (by rw [hst]; simp)
      have hq' : s.stores[q] = m :: tl := by rw [← getD_eq_getElem _ [] _ hql]; exact hst
      have hsorted := h.queue q hql
      rw [hq'] at hsorted
      have hs := List.pairwise_cons.mp hsorted
      have hmq : lookupChan s m.chan = some q := hr q hql m (by rw [hq']; simp)
      -- membership in the new stores
      have newmem : ∀ (q' : Nat) (hq'' : q' < (s.stores.set q tl).length) (b : Msg), b ∈ (s.stores.set q tl)[q'] →
          (q' = q ∧ b ∈ tl) ∨ (q' ≠ q ∧ ∃ hq3 : q' < s.stores.length, b ∈ s.stores[q']) := by
        intro q' hq'' b hb
        simp only [List.getElem_set] at hb
        split at hb
        · rename_i heq; exact Or.inl ⟨heq.symm, hb⟩
        · rename_i hne; exact Or.inr ⟨fun e => hne e.symm, by simpa using hq'', hb⟩
      have htk : tk { u with pc := SubPc.holding m } = tk u ++ [m] := by
        show u.delivered ++ [m] = (u.delivered ++ inHand u) ++ [m]
        rw [hh, List.append_nil]
      refine ⟨h.nodup, h.fresh, ?_, ?_, ?_⟩
      · intro q' hq''
        show ((s.stores.set q tl)[q']).Pairwise _
        simp only [List.getElem_set]
        split
        · exact hs.2
        · exact h.queue q' (by simpa using hq'')
      · intro k uk hk
        rcases subs_set_get hk with ⟨_, rfl⟩ | ⟨_, hk'⟩
        · rw [htk]
          refine List.pairwise_append.mpr ⟨h.taken j u hu, by simp, ?_⟩
          intro a ha b hb
          simp at hb; subst hb
          exact h.ahead j u hu a ha q hql b (by rw [hq']; simp)
        · exact h.taken k uk hk'
      · intro k uk hk a ha q' hq'' b hb
        have hbcases := newmem q' hq'' b hb
        have old : ∀ a', (∃ (k' : Nat) (u' : Sub), s.subs[k']? = some u' ∧ a' ∈ tk u') → SameSrc a' b := by
          rintro a' ⟨k', u', hk', ha'⟩
          rcases hbcases with ⟨rfl, hbt⟩ | ⟨_, hq3, hbo⟩
          · exact h.ahead k' u' hk' a' ha' q' hql b (by rw [hq']; exact List.mem_cons_of_mem _ hbt)
          · exact h.ahead k' u' hk' a' ha' q' hq3 b hbo
        rcases subs_set_get hk with ⟨_, rfl⟩ | ⟨_, hk'⟩
        · rw [htk] at ha
          rcases List.mem_append.mp ha with ha | ha
          · exact old a ⟨j, u, hu, ha⟩
          · simp at ha; subst ha
            -- the message just popped was ahead of everything left in its queue; other queues hold other channels
            rcases hbcases with ⟨rfl, hbt⟩ | ⟨hne, hq3, hbo⟩
            · intro hab _; exact hs.1 b hbt hab
            · intro _ hch
              exfalso
              have hbq : lookupChan s b.chan = some q' := hr q' hq3 b hbo
              rw [← hch, hmq] at hbq
              injection hbq with hbq
              exact hne hbq.symm
        · exact old a ⟨k, uk, hk', ha⟩
    cases hpc : u.pc with
    | exited => exact h
    | crashed => exact h
    | idle => exact keep _ (by simp [tk, inHand, hpc])
    | holding m => exact keep _ (by simp [tk, inHand, hpc])
    | tested q rest =>
      simp only []
      cases hst : s.stores.getD q [] with
      | nil => exact keep _ (by simp [tk, inHand, hpc])
      | cons m tl => exact pop q m tl hst (by simp [inHand, hpc])
    | scanning todo =>
      cases todo with
      | nil => exact keep _ (by simp [tk, inHand, hpc])
      | cons cq rest =>
        obtain ⟨c, q⟩ := cq
        simp only []
        cases hst : s.stores.getD q [] with
        | nil => exact keep _ (by simp [tk, inHand, hpc])
        | cons m tl =>
          simp only []
          split
          · exact pop q m tl hst (by simp [inHand, hpc])
          · exact keep _ (by simp [tk, inHand, hpc])

theorem init_fifo (programs : List (List String)) (patterns : List String) : Fifo (init programs patterns) := by
  refine ⟨by simp [init], by intro i p _ m hm; simp [init] at hm, by intro q hq; simp [init] at hq, ?_, ?_⟩
  · intro j u hu
    simp only [init, List.getElem?_map] at hu
    cases hpat : patterns[j]? with
    | none => simp [hpat] at hu
    | some t =>
      simp only [hpat, Option.map_some] at hu
      injection hu with hu; subst hu
      simp [tk, inHand]
  · intro j u hu a ha
    simp only [init, List.getElem?_map] at hu
    cases hpat : patterns[j]? with
    | none => simp [hpat] at hu
    | some t =>
      simp only [hpat, Option.map_some] at hu
      injection hu with hu; subst hu
      simp [tk, inHand] at ha

theorem run_fifo (sh : Shape) (hg : sh.good = true) (mt : String → String → Bool) (s : TState) (sched : List Tid)
    (hv : Valid s) (hc : Conserved s) (hr : Reach mt s) (h : Fifo s) : Fifo (run sh mt s sched) := by
  induction sched generalizing s with
  | nil => exact h
  | cons t ts ih =>
    cases t with
    | pub i =>
      exact ih _ (stepPub_valid sh s i hv) (stepPub_conserved sh s i hv hc) (stepPub_reach sh hg mt s i hv hr)
        (stepPub_fifo sh s i hv hc h)
    | sub j =>
      exact ih _ (stepSub_valid sh mt s j hv) (stepSub_conserved sh mt s j hc) (stepSub_reach sh hg mt s j hr)
        (stepSub_fifo sh mt s j hr.placed h)

/-- **C14 (channel order).** With a good shape, under every schedule, what one subscription has
    received from one publisher on one channel is in publication order. -/
theorem per_publisher_channel_fifo (sh : Shape) (hg : sh.good = true) (mt : String → String → Bool)
    (programs : List (List String)) (patterns : List String) (sched : List Tid) :
    let s := run sh mt (init programs patterns) sched
    ∀ (j : Nat) (u : Sub), s.subs[j]? = some u →
      (u.delivered).Pairwise (fun a b => a.pub = b.pub → a.chan = b.chan → a.seq < b.seq) := by
  intro s j u hu
  have hf := run_fifo sh hg mt _ sched (init_valid programs patterns)
    (by simp [Conserved, init, taken, inHand]) (init_reach mt programs patterns) (init_fifo programs patterns)
  have := hf.taken j u hu
  exact (List.pairwise_append.mp this).1

/-- **C14 (exactly once).** Under every schedule the completed publications are pairwise distinct and
    are, as a multiset, exactly the messages still queued plus those taken by subscribers — so each
    published message is in exactly one place: never lost, never delivered (or queued) twice. -/
theorem exactly_once (sh : Shape) (hg : sh.good = true) (mt : String → String → Bool)
    (programs : List (List String)) (patterns : List String) (sched : List Tid) :
    let s := run sh mt (init programs patterns) sched
    (s.stores.flatten ++ taken s).Perm s.appended ∧ (s.stores.flatten ++ taken s).Nodup := by
  intro s
  have hc : Conserved s := conservation sh mt programs patterns sched
  have hf := run_fifo sh hg mt _ sched (init_valid programs patterns)
    (by simp [Conserved, init, taken, inHand]) (init_reach mt programs patterns) (init_fifo programs patterns)
  exact ⟨hc.symm, (List.Perm.nodup_iff hc).mp hf.nodup⟩

/-! ## 5. Non-vacuity, and the witness that the side condition matters -/

def goodShape : Shape := ⟨true, true, true, true, true, true⟩
def racyShape : Shape := { goodShape with getOrCreateAtomic := false }
def anyMatch : String → String → Bool := fun _ _ => true

example : goodShape.good = true ∧ racyShape.good = false := by decide

/-- Two publishers on a channel that does not exist yet, preempted inside the queue factory: with the
    racy shape one completed publication ends in a queue the channel map no longer names. -/
def losingSchedule : List Tid :=
  [.pub 0, .pub 1, .pub 1, .pub 1, .pub 1, .pub 0, .pub 0, .pub 0, .sub 0, .sub 0, .sub 0, .sub 0, .sub 0, .sub 0]

example :
    let s := run racyShape anyMatch (init [["c"], ["c"]] ["*"]) losingSchedule
    s.appended.length = 2 ∧ (s.subs.map (·.delivered.length)) = [1] ∧ (s.subs.map (·.pc matches .exited)) = [true]
      ∧ s.stores = [[⟨1, "c", 0⟩], []] := by decide

/-- The same schedule with the good shape delivers both. -/
example :
    let s := run goodShape anyMatch (init [["c"], ["c"]] ["*"])
      (losingSchedule ++ [.sub 0, .sub 0, .sub 0, .sub 0, .sub 0, .sub 0])
    s.appended.length = 2 ∧ (s.subs.map (·.delivered.length)) = [2] ∧ s.stores = [[]] := by decide

end SemantivaModel.Transport
