import SemantivaModel.Model.Launch
import SemantivaModel.Properties.C05
/-!
# C09 — a run-space launch equals its planned runs and is linked by stable IDs

* `launch_wellformed` — with a good loop shape, for every plan and every pattern of run outcomes, the launch emits
  run_space_start, then the runs 0,1,… in plan order up to and including the first failing one, then run_space_end
  with planned = plan length and completed = number of successful runs; corollaries `bracketed`, `indices_in_order`,
  `counts_truthful`, `nothing_after_failure`.
* `inspect_eq_trace` — if inspection hashes the parsed configuration, its spec id pre-image is the runtime's for every raw block.
* `specPre_key_order` — re-ordering the keys of a block's context (or any mapping of the block) does not change the pre-image.
* `specTree_injective` — equal pre-image trees agree on combine, max_runs, dry_run and on every block (mode, context up to key
  order, source): a different plan gives a different tree.
* `inputsTree_injective` — the inputs pre-image determines the spec id and every (role, uri, content digest, size).
* `launchPre` is a function of (basis, key): `launch_reproducible`.
-/
namespace SemantivaModel.Launch
open SemantivaModel.Json

/-! ## 1. The loop -/

theorem loop_good (sh : LaunchShape) (h : sh.good = true) (os : List Bool) (i c : Nat) :
    loop sh os i c = (expectedRuns os i, c + completedOf os, os.any (!·)) := by
  simp only [LaunchShape.good, Bool.and_eq_true] at h
  obtain ⟨⟨⟨⟨⟨_, _⟩, _⟩, hcount⟩, hzero⟩, _⟩ := h
  induction os generalizing i c with
  | nil => simp [loop, expectedRuns, completedOf]
  | cons ok rest ih =>
    cases ok with
    | true =>
      simp only [loop, hzero, if_true, ih (i + 1) (c + 1), expectedRuns, completedOf, List.any_cons, Bool.not_true, Bool.false_or]
      refine Prod.ext rfl (Prod.ext ?_ rfl)
      simp; omega
    | false =>
      simp [loop, hzero, hcount, expectedRuns, completedOf]

/-- **C09 (launch lifecycle).** -/
theorem launch_wellformed (sh : LaunchShape) (h : sh.good = true) (os : List Bool) :
    runLaunch sh os = expected os := by
  have hl := loop_good sh h os 0 0
  simp only [LaunchShape.good, Bool.and_eq_true] at h
  obtain ⟨⟨⟨⟨⟨hs, ht⟩, hf⟩, _⟩, _⟩, _⟩ := h
  simp only [runLaunch, hl, hs, ht, hf, expected, Nat.zero_add, if_true, Bool.and_self, Bool.not_true, Bool.and_false]
  simp

theorem expectedRuns_length (os : List Bool) (i : Nat) :
    (expectedRuns os i).length = completedOf os + (if os.any (!·) then 1 else 0) := by
  induction os generalizing i with
  | nil => simp [expectedRuns, completedOf]
  | cons ok rest ih =>
    cases ok with
    | true => simp [expectedRuns, completedOf, ih (i + 1)]; omega
    | false => simp [expectedRuns, completedOf]

/-- exactly one run_space_start, first, and exactly one run_space_end, last -/
theorem bracketed (sh : LaunchShape) (h : sh.good = true) (os : List Bool) :
    ∃ mid, runLaunch sh os = Ev.rsStart os.length :: mid ++ [Ev.rsEnd os.length (completedOf os) (os.any (!·))]
      ∧ ∀ e ∈ mid, ∃ i ok, e = Ev.run i ok := by
  refine ⟨expectedRuns os 0, by rw [launch_wellformed sh h os]; rfl, ?_⟩
  generalize 0 = i
  induction os generalizing i with
  | nil => simp [expectedRuns]
  | cons ok rest ih =>
    intro e he
    simp only [expectedRuns, List.mem_cons] at he
    rcases he with rfl | he
    · exact ⟨i, ok, rfl⟩
    · cases ok with
      | true => exact ih (i + 1) e (by simpa using he)
      | false => simp at he

/-- the k-th run bracket carries index k (0-based, plan order) and the k-th planned outcome -/
theorem indices_in_order (os : List Bool) (i k : Nat) (hk : k < (expectedRuns os i).length) :
    ∃ (hlt : k < os.length), (expectedRuns os i)[k] = Ev.run (i + k) os[k] := by
  induction os generalizing i k with
  | nil => simp [expectedRuns] at hk
  | cons ok rest ih =>
    cases k with
    | zero => exact ⟨by simp, by simp [expectedRuns]⟩
    | succ k =>
      cases ok with
      | false => simp [expectedRuns] at hk
      | true =>
        simp only [expectedRuns, if_true, List.length_cons, Nat.add_lt_add_iff_right] at hk
        obtain ⟨hlt, heq⟩ := ih (i + 1) k hk
        refine ⟨by simp; omega, ?_⟩
        simp only [expectedRuns, if_true, List.getElem_cons_succ, heq]
        congr 1; omega

/-- every run before the last bracket succeeded: nothing runs after a failure -/
theorem nothing_after_failure (os : List Bool) (i k : Nat) (hk : k + 1 < (expectedRuns os i).length) :
    ∃ (hlt : k < os.length), os[k] = true := by
  induction os generalizing i k with
  | nil => simp [expectedRuns] at hk
  | cons ok rest ih =>
    cases ok with
    | false => simp [expectedRuns] at hk
    | true =>
      cases k with
      | zero => exact ⟨by simp, rfl⟩
      | succ k =>
        simp only [expectedRuns, if_true, List.length_cons, Nat.add_lt_add_iff_right] at hk
        obtain ⟨hlt, h⟩ := ih (i + 1) k hk
        exact ⟨by simp; omega, by simpa using h⟩

/-- completed = planned exactly when no run failed -/
theorem counts_truthful (os : List Bool) :
    completedOf os ≤ os.length ∧ (completedOf os = os.length ↔ os.any (!·) = false) := by
  induction os with
  | nil => simp [completedOf]
  | cons ok rest ih =>
    cases ok with
    | true =>
      obtain ⟨h1, h2⟩ := ih
      simp only [completedOf, if_true, List.length_cons, List.any_cons, Bool.not_true, Bool.false_or]
      exact ⟨by omega, by rw [← h2]; omega⟩
    | false => simp [completedOf]

/-! ## 2. Spec id: inspection = trace, cosmetic invariance -/

theorem inspect_eq_trace (raw : J) (parsed : RSCfg) : inspectPre true raw parsed = specPre parsed := rfl

/-- The raw path differs from the parsed one as soon as a default is left out. -/
example : inspectPre false (.obj [("blocks", .arr [])]) ⟨"combinatorial", 1000, false, []⟩
        ≠ specPre ⟨"combinatorial", 1000, false, []⟩ := by decide

attribute [local irreducible] str num jnull jbool

theorem blockTree_context_perm (b : BlockCfg) (ctx' : Members) (p : b.context.Perm ctx')
    (hwf : wf (blockTree b) = true) :
    canonical (blockTree b) = canonical (blockTree { b with context := ctx' }) := by
  apply canonical_permEq _ hwf
  exact Identity.permEq_at [("mode", str b.mode)] "context" (.obj b.context) (.obj ctx') [("source", _)] (PermEq.objPerm p)

theorem permEq_arr_at (pre : List J) (x y : J) (suf : List J) (h : PermEq x y) :
    PermEq (.arr (pre ++ x :: suf)) (.arr (pre ++ y :: suf)) := by
  induction pre with
  | nil => exact .arrCons h (.refl _)
  | cons z zs ih => exact .arrCons (.refl _) ih

/-- **C09 (cosmetic invariance).** Re-ordering the context keys of any block leaves the spec id pre-image unchanged. -/
theorem specPre_key_order (c : RSCfg) (pre suf : List BlockCfg) (b : BlockCfg) (ctx' : Members)
    (p : b.context.Perm ctx') (hc : c.blocks = pre ++ b :: suf) (hwf : wf (specTree c) = true) :
    specPre c = specPre { c with blocks := pre ++ { b with context := ctx' } :: suf } := by
  unfold specPre
  congr 1
  apply canonical_permEq _ hwf
  have hb : PermEq (blockTree b) (blockTree { b with context := ctx' }) :=
    Identity.permEq_at [("mode", str b.mode)] "context" (.obj b.context) (.obj ctx') [("source", _)] (PermEq.objPerm p)
  have harr := permEq_arr_at (pre.map blockTree) _ _ (suf.map blockTree) hb
  have := Identity.permEq_at [("combine", str c.combine), ("max_runs", num c.maxRuns), ("dry_run", jbool c.dryRun)] "blocks" _ _ [] harr
  simpa [specTree, hc] using this

/-! ## 3. Different plans give different pre-images -/

theorem normList_eq_map (l : List J) : normList l = l.map norm := by
  induction l with
  | nil => rfl
  | cons x xs ih => simp [normList, ih]

theorem atom_norm_inj (a b : J) (ha : ∃ t, a = .atom t) (hb : ∃ t, b = .atom t) (h : norm a = norm b) : a = b := by
  obtain ⟨t, rfl⟩ := ha; obtain ⟨u, rfl⟩ := hb; simpa [norm] using h

theorem blockTree_injective (b b' : BlockCfg) (h : norm (blockTree b) = norm (blockTree b')) :
    str b.mode = str b'.mode ∧ norm (.obj b.context) = norm (.obj b'.context)
      ∧ norm (match b.source with | some s => sourceTree s | none => jnull)
        = norm (match b'.source with | some s => sourceTree s | none => jnull) := by
  have hk : ∀ x : BlockCfg, (([("mode", str x.mode), ("context", J.obj x.context),
      ("source", match x.source with | some s => sourceTree s | none => jnull)] : Members).map (·.1)).Nodup := by
    intro x; simp
  have f := fun k => field_eq_of_norm_eq (hk b) (hk b') h k
  have f1 := f "mode"; have f2 := f "context"; have f3 := f "source"
  simp [List.lookup] at f1 f2 f3
  exact ⟨atom_norm_inj _ _ (by unfold str; exact ⟨_, rfl⟩) (by unfold str; exact ⟨_, rfl⟩) f1, f2, f3⟩

/-- **C09 (discrimination).** Equal spec pre-image trees agree on the combine mode, the cap, the dry-run flag and,
    block by block in declaration order, on mode, context (up to key order) and source. -/
theorem specTree_injective (c c' : RSCfg) (h : norm (specTree c) = norm (specTree c')) :
    str c.combine = str c'.combine ∧ num c.maxRuns = num c'.maxRuns ∧ jbool c.dryRun = jbool c'.dryRun
      ∧ c.blocks.map (fun b => norm (blockTree b)) = c'.blocks.map (fun b => norm (blockTree b)) := by
  have hk : ∀ x : RSCfg, (([("combine", str x.combine), ("max_runs", num x.maxRuns), ("dry_run", jbool x.dryRun),
      ("blocks", J.arr (x.blocks.map blockTree))] : Members).map (·.1)).Nodup := by
    intro x; simp
  have f := fun k => field_eq_of_norm_eq (hk c) (hk c') h k
  have f1 := f "combine"; have f2 := f "max_runs"; have f3 := f "dry_run"; have f4 := f "blocks"
  simp [List.lookup] at f1 f2 f3 f4
  refine ⟨atom_norm_inj _ _ (by unfold str; exact ⟨_, rfl⟩) (by unfold str; exact ⟨_, rfl⟩) f1,
          atom_norm_inj _ _ (by unfold num; exact ⟨_, rfl⟩) (by unfold num; exact ⟨_, rfl⟩) f2,
          atom_norm_inj _ _ (by unfold jbool; exact ⟨_, rfl⟩) (by unfold jbool; exact ⟨_, rfl⟩) f3, ?_⟩
  simp only [norm, J.arr.injEq, normList_eq_map, List.map_map] at f4
  exact f4

/-- A change of one value in one context list changes the tree (the value lists are compared as written: order matters). -/
theorem context_value_sensitive (ctx ctx' : Members) (hn : (ctx.map (·.1)).Nodup) (hn' : (ctx'.map (·.1)).Nodup)
    (h : norm (.obj ctx) = norm (.obj ctx')) (k : String) : (ctx.lookup k).map norm = (ctx'.lookup k).map norm :=
  field_eq_of_norm_eq hn hn' h k

/-! ## 4. Inputs id -/

theorem fpTree_injective (f f' : Fingerprint) (h : fpTree f = fpTree f') :
    str f.role = str f'.role ∧ str f.uri = str f'.uri ∧ str f.sha256 = str f'.sha256 ∧ num f.size = num f'.size := by
  simpa [fpTree] using h

/-- **C09 (inputs id).** The pre-image determines the spec id and the (role, uri, content digest, size) of every
    referenced file, in canonical order: a change of one file's content digest changes it. -/
theorem inputsTree_injective (s s' : String) (fs fs' : List Fingerprint) (h : inputsTree s fs = inputsTree s' fs') :
    str s = str s' ∧ (fpSort fs).map fpTree = (fpSort fs').map fpTree := by
  simpa [inputsTree] using h

theorem fpInsert_perm (x : Fingerprint) (l : List Fingerprint) : (fpInsert x l).Perm (x :: l) := by
  induction l with
  | nil => exact .refl _
  | cons y ys ih =>
    unfold fpInsert
    split
    · exact .refl _
    · exact (List.Perm.cons y ih).trans (List.Perm.swap x y ys)

/-- sorting loses no fingerprint -/
theorem fpSort_perm (l : List Fingerprint) : (fpSort l).Perm l := by
  induction l with
  | nil => exact .refl _
  | cons x xs ih => exact (fpInsert_perm x (fpSort xs)).trans (List.Perm.cons x ih)

/-! ## Non-vacuity -/

example : runLaunch ⟨true, true, true, true, true, true⟩ [true, false, true]
    = [.rsStart 3, .run 0 true, .run 1 false, .rsEnd 3 1 true] := by decide
example : (⟨true, true, true, true, true, true⟩ : LaunchShape).good = true := by decide
/-- without the finally, a failing launch is never closed -/
example : runLaunch ⟨true, true, false, true, true, true⟩ [false] = [.rsStart 1, .run 0 false] := by decide

end SemantivaModel.Launch
