import SemantivaModel.Model.JobQueue
/-!
# C15 — every queued job's Future completes once, with that job's own result

The invariant `Inv` (every enqueued job id is in exactly one place; pending ∪ done = enqueued; every status / completed
result is the direct result of the job it names) holds initially and is preserved by every event, hence in every
reachable state, for any number of jobs and workers and any interleaving (`inv_reachable`).  Consequences:
* `done_once` — no Future completes twice;
* `done_own_result` / `no_cross_talk` — a Future completes with the direct result of *its* job;
* `quiescent_all_done` — if workers report failures, then whenever nothing can move every Future is completed
  (a failing job's included: with `Res.err`), so no caller waits forever;
* `lost_when_unreported` — without failure reporting there is a reachable quiescent state with a pending Future.
-/
namespace SemantivaModel.JobQueue

/-! ## Counting lemmas -/

theorem count_eraseIdx (l : List Nat) (i : Nat) (h : i < l.length) (x : Nat) :
    (l.eraseIdx i).count x + (if l[i] = x then 1 else 0) = l.count x := by
  induction l generalizing i with
  | nil => simp at h
  | cons a as ih =>
    cases i with
    | zero => simp [List.count_cons]
    | succ i =>
      have := ih i (by simpa using h)
      simp only [List.eraseIdx_cons_succ, List.count_cons, List.getElem_cons_succ]
      omega

theorem map_eraseIdx' {α β : Type} (f : α → β) (l : List α) (i : Nat) : (l.eraseIdx i).map f = (l.map f).eraseIdx i := by
  induction l generalizing i with
  | nil => rfl
  | cons a as ih => cases i <;> simp [ih]

theorem count_map_eraseIdx {α : Type} (f : α → Nat) (l : List α) (i : Nat) (h : i < l.length) (x : Nat) :
    ((l.eraseIdx i).map f).count x + (if f l[i] = x then 1 else 0) = (l.map f).count x := by
  rw [map_eraseIdx']
  have := count_eraseIdx (l.map f) i (by simpa using h) x
  simpa using this

/-! ## The invariant -/

def cnt (x : Nat) (s : St) : Nat :=
  (s.queued.map (·.id)).count x + (s.cfg.map (·.id)).count x + (s.running.map (·.2.id)).count x
    + (s.status.map (·.1)).count x + (s.done.map (·.1)).count x + s.lost.count x

structure Inv (rf : Bool) (run : Nat → Res) (s : St) : Prop where
  nodup : (s.jobs.map (·.id)).Nodup
  conserve : ∀ x, cnt x s = (s.jobs.map (·.id)).count x
  pend : ∀ x, s.pending.count x + (s.done.map (·.1)).count x = (s.jobs.map (·.id)).count x
  results : ∀ m, m ∈ s.status ∨ m ∈ s.done → ∃ j ∈ s.jobs, j.id = m.1 ∧ m.2 = run j.payload
  carriers : ∀ j, j ∈ s.queued ∨ j ∈ s.cfg ∨ j ∈ s.running.map (·.2) → j ∈ s.jobs
  nolost : rf = true → s.lost = []

theorem inv_init (rf : Bool) (run : Nat → Res) : Inv rf run {} :=
  ⟨by simp, by intro x; simp [cnt], by intro x; simp, by intro m h; simp at h, by intro j h; simp at h, fun _ => rfl⟩

theorem count_le_one_of_nodup {l : List Nat} (h : l.Nodup) (x : Nat) : l.count x ≤ 1 :=
  List.nodup_iff_count.mp h x

theorem inj_of_nodup_map {α β : Type} (f : α → β) {l : List α} (h : (l.map f).Nodup) {a b : α}
    (ha : a ∈ l) (hb : b ∈ l) (hab : f a = f b) : a = b := by
  induction l with
  | nil => cases ha
  | cons x xs ih =>
    simp only [List.map_cons, List.nodup_cons, List.mem_map, not_exists, not_and] at h
    rcases List.mem_cons.mp ha with rfl | ha' <;> rcases List.mem_cons.mp hb with rfl | hb'
    · rfl
    · exact absurd hab.symm (h.1 b hb')
    · exact absurd hab (h.1 a ha')
    · exact ih h.2 ha' hb'

theorem inv_step (rf : Bool) (run : Nat → Res) (s s' : St) (e : Ev) (hI : Inv rf run s) (hs : step rf run s e = some s') :
    Inv rf run s' := by
  obtain ⟨hn, hc, hp, hr, hcar, hl⟩ := hI
  cases e with
  | enqueue j =>
    simp only [step] at hs
    split at hs
    · cases hs
    · rename_i hfresh
      injection hs with hs; subst hs
      refine ⟨?_, ?_, ?_, ?_, ?_, hl⟩
      · simpa [List.nodup_cons] using ⟨by simpa using hfresh, hn⟩
      · intro x
        have := hc x
        simp only [cnt, List.map_append, List.map_cons, List.map_nil, List.count_append, List.count_cons, List.count_nil] at this ⊢
        omega
      · intro x
        have := hp x
        simp only [List.count_cons, List.map_cons] at this ⊢
        omega
      · intro m hm
        obtain ⟨k, hk, h1, h2⟩ := hr m hm
        exact ⟨k, List.mem_cons_of_mem _ hk, h1, h2⟩
      · intro k hk
        simp only [List.mem_append, List.mem_singleton] at hk
        rcases hk with (hk | hk) | hk | hk
        · exact List.mem_cons_of_mem _ (hcar k (Or.inl hk))
        · subst hk; exact List.mem_cons_self
        · exact List.mem_cons_of_mem _ (hcar k (Or.inr (Or.inl hk)))
        · exact List.mem_cons_of_mem _ (hcar k (Or.inr (Or.inr hk)))
  | publish =>
    simp only [step] at hs
    cases hq : s.queued with
    | nil => simp [hq] at hs
    | cons j rest =>
      simp only [hq] at hs
      injection hs with hs; subst hs
      refine ⟨hn, ?_, hp, hr, ?_, hl⟩
      · intro x
        have := hc x
        simp only [cnt, hq, List.map_cons, List.count_cons, List.map_append, List.map_nil, List.count_append, List.count_nil] at this ⊢
        omega
      · intro k hk
        simp only [List.mem_append, List.mem_singleton] at hk
        rcases hk with hk | (hk | hk) | hk
        · exact hcar k (Or.inl (by rw [hq]; exact List.mem_cons_of_mem _ hk))
        · exact hcar k (Or.inr (Or.inl hk))
        · subst hk; exact hcar k (Or.inl (by rw [hq]; exact List.mem_cons_self))
        · exact hcar k (Or.inr (Or.inr hk))
  | take w i =>
    simp only [step] at hs
    split at hs
    · rename_i hi
      injection hs with hs; subst hs
      refine ⟨hn, ?_, hp, hr, ?_, hl⟩
      · intro x
        have h1 := hc x
        have h2 := count_map_eraseIdx (fun j : Job => j.id) s.cfg i hi x
        simp only [cnt, List.map_cons, List.count_cons] at h1 h2 ⊢
        simp only [beq_iff_eq]
        omega
      · intro k hk
        simp only [List.map_cons, List.mem_cons] at hk
        rcases hk with hk | hk | hk | hk
        · exact hcar k (Or.inl hk)
        · exact hcar k (Or.inr (Or.inl (List.mem_of_mem_eraseIdx hk)))
        · subst hk; exact hcar _ (Or.inr (Or.inl (List.getElem_mem hi)))
        · exact hcar k (Or.inr (Or.inr hk))
    · cases hs
  | finish i =>
    simp only [step] at hs
    split at hs
    · rename_i hi
      have hmem : s.running[i].2 ∈ s.jobs :=
        hcar _ (Or.inr (Or.inr (List.mem_map.mpr ⟨s.running[i], List.getElem_mem hi, rfl⟩)))
      split at hs
      · rename_i hok
        injection hs with hs; subst hs
        refine ⟨hn, ?_, hp, ?_, ?_, hl⟩
        · intro x
          have h1 := hc x
          have h2 := count_map_eraseIdx (fun p : Nat × Job => p.2.id) s.running i hi x
          simp only [cnt, List.map_append, List.map_cons, List.map_nil, List.count_append, List.count_cons, List.count_nil] at h1 h2 ⊢
          simp only [beq_iff_eq]
          omega
        · intro m hm
          simp only [List.mem_append, List.mem_singleton] at hm
          rcases hm with (hm | hm) | hm
          · exact hr m (Or.inl hm)
          · subst hm; exact ⟨_, hmem, rfl, rfl⟩
          · exact hr m (Or.inr hm)
        · intro k hk
          rcases hk with hk | hk | hk
          · exact hcar k (Or.inl hk)
          · exact hcar k (Or.inr (Or.inl hk))
          · rw [map_eraseIdx'] at hk
            exact hcar k (Or.inr (Or.inr (List.mem_of_mem_eraseIdx hk)))
      · rename_i hok
        injection hs with hs; subst hs
        have hrf : rf = false := by
          cases rf <;> simp_all
        refine ⟨hn, ?_, hp, hr, ?_, fun h => by rw [hrf] at h; cases h⟩
        · intro x
          have h1 := hc x
          have h2 := count_map_eraseIdx (fun p : Nat × Job => p.2.id) s.running i hi x
          simp only [cnt, List.count_cons] at h1 h2 ⊢
          simp only [beq_iff_eq]
          omega
        · intro k hk
          rcases hk with hk | hk | hk
          · exact hcar k (Or.inl hk)
          · exact hcar k (Or.inr (Or.inl hk))
          · rw [map_eraseIdx'] at hk
            exact hcar k (Or.inr (Or.inr (List.mem_of_mem_eraseIdx hk)))
    · cases hs
  | collect i =>
    simp only [step] at hs
    split at hs
    · rename_i hi
      -- the job named by a status message is always pending
      have hcount : (s.status.map (·.1)).count s.status[i].1 ≥ 1 :=
        List.count_pos_iff.mpr (List.mem_map.mpr ⟨s.status[i], List.getElem_mem hi, rfl⟩)
      have hj := hc s.status[i].1
      have hle := count_le_one_of_nodup hn s.status[i].1
      have hpend : s.status[i].1 ∈ s.pending := by
        have := hp s.status[i].1
        simp only [cnt] at hj
        exact List.count_pos_iff.mp (by omega)
      simp only [hpend, if_true] at hs
      injection hs with hs; subst hs
      refine ⟨hn, ?_, ?_, ?_, hcar, hl⟩
      · intro x
        have h1 := hc x
        have h2 := count_map_eraseIdx (fun p : Nat × Res => p.1) s.status i hi x
        simp only [cnt, List.map_cons, List.count_cons] at h1 h2 ⊢
        simp only [beq_iff_eq]
        omega
      · intro x
        have h1 := hp x
        simp only [List.map_cons, List.count_cons, beq_iff_eq]
        by_cases hx : s.status[i].1 = x
        · subst hx
          rw [List.count_erase_self]
          have : s.pending.count s.status[i].1 ≥ 1 := List.count_pos_iff.mpr hpend
          simp; omega
        · rw [List.count_erase_of_ne (Ne.symm hx)]
          simp [hx]; omega
      · intro m hm
        rcases hm with hm | hm
        · exact hr m (Or.inl (List.mem_of_mem_eraseIdx hm))
        · simp only [List.mem_cons] at hm
          rcases hm with hm | hm
          · subst hm; exact hr _ (Or.inl (List.getElem_mem hi))
          · exact hr m (Or.inr hm)
    · cases hs

/-- **Every reachable state satisfies the invariant**, whatever the interleaving. -/
theorem inv_reachable (rf : Bool) (run : Nat → Res) (es : List Ev) (s s' : St) (hI : Inv rf run s)
    (h : runEvents rf run s es = some s') : Inv rf run s' := by
  induction es generalizing s with
  | nil => simp [runEvents] at h; subst h; exact hI
  | cons e es ih =>
    simp only [runEvents] at h
    cases hst : step rf run s e with
    | none => simp [hst] at h
    | some s₁ => simp only [hst] at h; exact ih s₁ (inv_step rf run s s₁ e hI hst) h

/-! ## Consequences -/

/-- **C15 (exactly once).** No Future completes twice. -/
theorem done_once (rf : Bool) (run : Nat → Res) (es : List Ev) (s : St) (h : runEvents rf run {} es = some s) :
    (s.done.map (·.1)).Nodup := by
  have hI := inv_reachable rf run es {} s (inv_init rf run) h
  apply List.nodup_iff_count.mpr
  intro x
  have := hI.conserve x
  have := count_le_one_of_nodup hI.nodup x
  simp only [cnt] at *
  omega

/-- **C15 (own result).** A completed Future holds the direct result of the job it belongs to. -/
theorem done_own_result (rf : Bool) (run : Nat → Res) (es : List Ev) (s : St) (h : runEvents rf run {} es = some s)
    (m : Nat × Res) (hm : m ∈ s.done) : ∃ j ∈ s.jobs, j.id = m.1 ∧ m.2 = run j.payload :=
  (inv_reachable rf run es {} s (inv_init rf run) h).results m (Or.inr hm)

/-- **C15 (no cross-talk).** … and that job is the only one with this id: the result of no other job. -/
theorem no_cross_talk (rf : Bool) (run : Nat → Res) (es : List Ev) (s : St) (h : runEvents rf run {} es = some s)
    (m : Nat × Res) (hm : m ∈ s.done) (j : Job) (hj : j ∈ s.jobs) (hid : j.id = m.1) : m.2 = run j.payload := by
  have hI := inv_reachable rf run es {} s (inv_init rf run) h
  obtain ⟨k, hk, hkid, hres⟩ := hI.results m (Or.inr hm)
  have : k = j := by
    exact inj_of_nodup_map (fun j : Job => j.id) hI.nodup hk hj (by rw [hkid, hid])
  rw [← this]; exact hres

/-- **C15 (no caller waits forever).** If workers report failures, then in every reachable state where nothing can
    move, no Future is pending and every enqueued job has completed with its direct result. -/
theorem quiescent_all_done (run : Nat → Res) (es : List Ev) (s : St) (h : runEvents true run {} es = some s)
    (hq : quiescent s = true) :
    s.pending = [] ∧ ∀ j ∈ s.jobs, (j.id, run j.payload) ∈ s.done := by
  have hI := inv_reachable true run es {} s (inv_init true run) h
  simp only [quiescent, Bool.and_eq_true, List.isEmpty_iff] at hq
  obtain ⟨⟨⟨h1, h2⟩, h3⟩, h4⟩ := hq
  have hlost := hI.nolost rfl
  have hdone : ∀ x, (s.done.map (·.1)).count x = (s.jobs.map (·.id)).count x := by
    intro x
    have := hI.conserve x
    simpa [cnt, h1, h2, h3, h4, hlost] using this
  have hpend : s.pending = [] := by
    apply List.eq_nil_iff_forall_not_mem.mpr
    intro x hx
    have := hI.pend x
    have hpos : s.pending.count x ≥ 1 := List.count_pos_iff.mpr hx
    rw [hdone x] at this
    omega
  refine ⟨hpend, ?_⟩
  intro j hj
  have hpos : (s.done.map (·.1)).count j.id ≥ 1 := by
    rw [hdone]; exact List.count_pos_iff.mpr (List.mem_map.mpr ⟨j, hj, rfl⟩)
  obtain ⟨m, hm, hmid⟩ := List.mem_map.mp (List.count_pos_iff.mp hpos)
  have := no_cross_talk true run es s h m hm j hj hmid.symm
  have hm' : m = (j.id, run j.payload) := by
    cases m; simp_all
  rw [← hm']; exact hm

/-- Without failure reporting the failing job's Future is left pending in a quiescent state (the defect that was repaired). -/
theorem lost_when_unreported :
    ∃ es s, runEvents false (fun _ => .err 0) {} es = some s ∧ quiescent s = true ∧ s.pending ≠ [] :=
  ⟨[.enqueue ⟨7, 1⟩, .publish, .take 0 0, .finish 0], _, rfl, by decide, by decide⟩

/-! ## Non-vacuity -/

example : (runEvents true (fun p => if p = 2 then .err 2 else .ok (p * 10)) {}
    [.enqueue ⟨1, 1⟩, .enqueue ⟨2, 2⟩, .publish, .publish, .take 0 1, .take 1 0, .finish 0, .finish 0, .collect 1, .collect 0]).map
      (fun s => (s.done, s.pending, quiescent s))
    = some ([(1, .ok 10), (2, .err 2)], [], true) := by decide

end SemantivaModel.JobQueue
