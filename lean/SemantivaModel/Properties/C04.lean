import SemantivaModel.Model.Json
import SemantivaModel.Model.Identity
import SemantivaModel.Proofs.Aggregator
/-!
# C04 — configuration identities are pure functions of configuration meaning

Every identity is `H (canonical payload)` for a hash `H` and a payload tree built from the
configuration.  This file proves that the canonical text is invariant under re-ordering the members
of any object at any depth (`canonical_permEq`), hence under every cosmetic rewrite that leaves the
parsed configuration equal up to mapping order.  Purity (no dependence on time, process, history) is
a property of the model by construction — Lean functions have no access to any of those — and is
what the correspondence run (`props/c04.py`) checks of the real code.
-/
namespace SemantivaModel.Json

/-! ## Sorting members by key is canonical -/

theorem insertM_perm (x : String × J) (ms : Members) : (insertM x ms).Perm (x :: ms) := by
  induction ms with
  | nil => exact .refl _
  | cons y ys ih =>
    unfold insertM
    split
    · exact .refl _
    · exact (ih.cons y).trans (.swap x y ys)

theorem sortMembers_perm (ms : Members) : (sortMembers ms).Perm ms := by
  induction ms with
  | nil => exact .refl _
  | cons x xs ih => exact (insertM_perm x _).trans (ih.cons x)

theorem insertM_sorted (x : String × J) (ms : Members) (h : ms.Pairwise (fun a b => a.1 ≤ b.1)) :
    (insertM x ms).Pairwise (fun a b => a.1 ≤ b.1) := by
  induction ms with
  | nil => simp [insertM]
  | cons y ys ih =>
    have hy := List.pairwise_cons.mp h
    unfold insertM
    split
    · rename_i hxy
      refine List.pairwise_cons.mpr ⟨?_, h⟩
      intro z hz
      rcases List.mem_cons.mp hz with rfl | hz
      · exact hxy
      · exact String.le_trans hxy (hy.1 z hz)
    · rename_i hxy
      have hyx : y.1 ≤ x.1 := (String.le_total _ _).resolve_left hxy
      refine List.pairwise_cons.mpr ⟨?_, ih hy.2⟩
      intro z hz
      rcases List.mem_cons.mp ((insertM_perm x ys).subset hz) with rfl | hz
      · exact hyx
      · exact hy.1 z hz

theorem sortMembers_sorted (ms : Members) : (sortMembers ms).Pairwise (fun a b => a.1 ≤ b.1) := by
  induction ms with
  | nil => exact List.Pairwise.nil
  | cons x xs ih => exact insertM_sorted x _ ih

/-- In a list with pairwise distinct keys, a key determines the member. -/
theorem member_unique {ms : Members} (hn : (ms.map (·.1)).Nodup) {a b : String × J}
    (ha : a ∈ ms) (hb : b ∈ ms) (hk : a.1 = b.1) : a = b := by
  induction ms with
  | nil => simp at ha
  | cons m rest ih =>
    simp only [List.map_cons, List.nodup_cons] at hn
    rcases List.mem_cons.mp ha with ha | ha <;> rcases List.mem_cons.mp hb with hb | hb
    · rw [ha, hb]
    · exfalso; apply hn.1; rw [← ha, hk]; exact List.mem_map.mpr ⟨b, hb, rfl⟩
    · exfalso; apply hn.1; rw [← hb, ← hk]; exact List.mem_map.mpr ⟨a, ha, rfl⟩
    · exact ih hn.2 ha hb

/-- **Key-order independence, one level.** Two member lists that are permutations of each other (with
    pairwise distinct keys) sort to the same list. -/
theorem sortMembers_eq_of_perm {ms ms' : Members} (p : ms.Perm ms') (hn : (ms.map (·.1)).Nodup) :
    sortMembers ms = sortMembers ms' := by
  have p' : (sortMembers ms).Perm (sortMembers ms') :=
    (sortMembers_perm ms).trans (p.trans (sortMembers_perm ms').symm)
  refine List.Perm.eq_of_pairwise ?_ (sortMembers_sorted ms) (sortMembers_sorted ms') p'
  intro a b ha hb hab hba
  have ha' : a ∈ ms := (sortMembers_perm ms).subset ha
  have hb' : b ∈ ms := p.symm.subset ((sortMembers_perm ms').subset hb)
  exact member_unique hn ha' hb' (String.le_antisymm hab hba)

/-! ## Equality of configurations up to member order, at any depth -/

/-- `PermEq a b`: `b` is `a` with the members of some objects (at any depth) re-ordered. -/
inductive PermEq : J → J → Prop
  | refl (j : J) : PermEq j j
  | trans {a b c : J} : PermEq a b → PermEq b c → PermEq a c
  | arrCons {x y : J} {xs ys : List J} : PermEq x y → PermEq (.arr xs) (.arr ys) → PermEq (.arr (x :: xs)) (.arr (y :: ys))
  | objPerm {ms ms' : Members} : ms.Perm ms' → PermEq (.obj ms) (.obj ms')
  | objCons {k : String} {v v' : J} {ms ms' : Members} :
      PermEq v v' → PermEq (.obj ms) (.obj ms') → PermEq (.obj ((k, v) :: ms)) (.obj ((k, v') :: ms'))

theorem normMembers_keys (ms : Members) : (normMembers ms).map (·.1) = ms.map (·.1) := by
  induction ms with
  | nil => rfl
  | cons m rest ih => obtain ⟨k, v⟩ := m; simp [normMembers, ih]

theorem normMembers_perm {ms ms' : Members} (p : ms.Perm ms') : (normMembers ms).Perm (normMembers ms') := by
  induction p with
  | nil => exact .refl _
  | cons x _ ih => obtain ⟨k, v⟩ := x; simp only [normMembers]; exact ih.cons _
  | swap x y l =>
    obtain ⟨k₁, v₁⟩ := x; obtain ⟨k₂, v₂⟩ := y
    simp only [normMembers]; exact .swap _ _ _
  | trans _ _ ih₁ ih₂ => exact ih₁.trans ih₂

theorem wf_obj {ms : Members} (h : wf (.obj ms) = true) : (ms.map (·.1)).Nodup ∧ wfMembers ms = true := by
  simp only [wf, Bool.and_eq_true, decide_eq_true_eq] at h; exact h

/-- `PermEq` relates objects to objects. -/
theorem permEq_obj_left {a b : J} (h : PermEq a b) : ∀ ms, a = .obj ms → ∃ ms', b = .obj ms' := by
  induction h with
  | refl j => intro ms e; exact ⟨ms, e⟩
  | trans _ _ ih₁ ih₂ =>
    intro ms e
    obtain ⟨mb, hb⟩ := ih₁ ms e
    exact ih₂ mb hb
  | arrCons _ _ _ _ => intro ms e; cases e
  | @objPerm _ ms' _ => intro _ _; exact ⟨ms', rfl⟩
  | @objCons k _ v' _ ms' _ _ _ _ => intro _ _; exact ⟨(k, v') :: ms', rfl⟩

/-- Re-ordering members keeps the key set. -/
theorem permEq_keys {a b : J} (h : PermEq a b) :
    ∀ ms ms', a = .obj ms → b = .obj ms' → ∀ k, k ∈ ms'.map (·.1) → k ∈ ms.map (·.1) := by
  induction h with
  | refl j => intro ms ms' e1 e2 k hk; rw [e1] at e2; injection e2 with e2; rw [e2]; exact hk
  | @trans a b c h₁ _ ih₁ ih₂ =>
    intro ms ms' e1 e2 k hk
    obtain ⟨mb, hb⟩ := permEq_obj_left h₁ ms e1
    exact ih₁ ms mb e1 hb k (ih₂ mb ms' hb e2 k hk)
  | arrCons _ _ _ _ => intro ms ms' e1; cases e1
  | objPerm p =>
    intro ms ms' e1 e2 k hk
    injection e1 with e1; injection e2 with e2; subst e1; subst e2
    exact (p.map _).symm.subset hk
  | @objCons k' v v' m m' _ _ _ ih₂ =>
    intro ms ms' e1 e2 k hk
    injection e1 with e1; injection e2 with e2; subst e1; subst e2
    simp only [List.map_cons, List.mem_cons] at hk ⊢
    rcases hk with hk | hk
    · exact Or.inl hk
    · exact Or.inr (ih₂ m m' rfl rfl k hk)

theorem wfMembers_perm {ms ms' : Members} (p : ms.Perm ms') (hm : wfMembers ms = true) : wfMembers ms' = true := by
  induction p with
  | nil => rfl
  | cons x _ ih =>
    obtain ⟨k, v⟩ := x
    simp only [wfMembers, Bool.and_eq_true] at hm ⊢
    exact ⟨hm.1, ih hm.2⟩
  | swap x y l =>
    obtain ⟨k₁, v₁⟩ := x; obtain ⟨k₂, v₂⟩ := y
    simp only [wfMembers, Bool.and_eq_true] at hm ⊢
    exact ⟨hm.2.1, hm.1, hm.2.2⟩
  | trans _ _ ih₁ ih₂ => exact ih₂ (ih₁ hm)

/-- Well-formedness is preserved along `PermEq` (needed to chain the steps). -/
theorem wf_permEq {a b : J} (h : PermEq a b) : wf a = true → wf b = true := by
  induction h with
  | refl j => exact id
  | trans _ _ ih₁ ih₂ => exact fun h => ih₂ (ih₁ h)
  | arrCons _ _ ih₁ ih₂ =>
    intro h
    simp only [wf, wfList, Bool.and_eq_true] at h ⊢
    exact ⟨ih₁ h.1, by have := ih₂ (by simpa [wf] using h.2); simpa [wf] using this⟩
  | @objPerm ms ms' p =>
    intro h
    obtain ⟨hn, hm⟩ := wf_obj h
    simp only [wf, Bool.and_eq_true, decide_eq_true_eq]
    exact ⟨(List.Perm.nodup_iff (p.map _)).mp hn, wfMembers_perm p hm⟩
  | @objCons k v v' ms ms' _ hrest ih₁ ih₂ =>
    intro h
    obtain ⟨hn, hm⟩ := wf_obj h
    simp only [List.map_cons, List.nodup_cons] at hn
    simp only [wfMembers, Bool.and_eq_true] at hm
    have hrest_wf : wf (.obj ms) = true := by
      simp only [wf, Bool.and_eq_true, decide_eq_true_eq]; exact ⟨hn.2, hm.2⟩
    have h2 := wf_obj (ih₂ hrest_wf)
    simp only [wf, Bool.and_eq_true, decide_eq_true_eq, List.map_cons, List.nodup_cons, wfMembers]
    exact ⟨⟨fun hk => hn.1 (permEq_keys hrest ms ms' rfl rfl k hk), h2.1⟩, ih₁ hm.1, h2.2⟩

/-- **C04 (canonical form).** Configurations equal up to the order of mapping members, at any depth,
    have the same normal form — hence the same canonical text, hence the same hash. -/
theorem norm_permEq {a b : J} (h : PermEq a b) (hwf : wf a = true) : norm a = norm b := by
  induction h with
  | refl j => rfl
  | trans h₁ _ ih₁ ih₂ => exact (ih₁ hwf).trans (ih₂ (wf_permEq h₁ hwf))
  | arrCons _ _ ih₁ ih₂ =>
    simp only [wf, wfList, Bool.and_eq_true] at hwf
    have h1 := ih₁ hwf.1
    have h2 := ih₂ (by simpa [wf] using hwf.2)
    simp only [norm, normList] at h2 ⊢
    injection h2 with h2
    rw [h1, h2]
  | @objPerm ms ms' p =>
    obtain ⟨hn, _⟩ := wf_obj hwf
    simp only [norm]
    rw [sortMembers_eq_of_perm (normMembers_perm p) (by rw [normMembers_keys]; exact hn)]
  | @objCons k v v' ms ms' _ _ ih₁ ih₂ =>
    obtain ⟨hn, hm⟩ := wf_obj hwf
    simp only [List.map_cons, List.nodup_cons] at hn
    simp only [wfMembers, Bool.and_eq_true] at hm
    have h1 := ih₁ hm.1
    have h2 := ih₂ (by simp only [wf, Bool.and_eq_true, decide_eq_true_eq]; exact ⟨hn.2, hm.2⟩)
    simp only [norm, normMembers, sortMembers, List.foldr_cons] at h2 ⊢
    injection h2 with h2
    rw [h1]
    show J.obj (insertM (k, norm v') (sortMembers (normMembers ms))) = J.obj (insertM (k, norm v') (sortMembers (normMembers ms')))
    rw [show sortMembers (normMembers ms) = sortMembers (normMembers ms') from h2]

theorem canonical_permEq {a b : J} (h : PermEq a b) (hwf : wf a = true) : canonical a = canonical b := by
  unfold canonical; rw [norm_permEq h hwf]

/-- Any identity — a hash of the canonical text, whatever the hash function — is unchanged. -/
theorem identity_permEq (H : String → String) {a b : J} (h : PermEq a b) (hwf : wf a = true) :
    H (canonical a) = H (canonical b) := by rw [canonical_permEq h hwf]

end SemantivaModel.Json

/-! ## The identity pre-images -/
namespace SemantivaModel.Identity
open SemantivaModel.Json

attribute [local irreducible] str num jnull bool

/-- Congruence: replacing the value of one member by a `PermEq` one. -/
theorem permEq_at (pre : Members) (k : String) (v v' : J) (suf : Members) (h : PermEq v v') :
    PermEq (.obj (pre ++ (k, v) :: suf)) (.obj (pre ++ (k, v') :: suf)) := by
  induction pre with
  | nil => exact .objCons h (.refl _)
  | cons m rest ih => obtain ⟨k', w⟩ := m; exact .objCons (.refl _) ih

/-- **C04 (node UUID).** Re-ordering the keys of a node's parameter map, at any depth, does not change
    the text its UUID is derived from. -/
theorem uuidPre_permEq (ref role : String) (ports p p' : J) (i : Nat) (h : PermEq p p')
    (hwf : wf (nodeCanon { processorRef := ref, params := p, ports := ports, role := role } i) = true) :
    uuidPre { processorRef := ref, params := p, ports := ports, role := role } i
      = uuidPre { processorRef := ref, params := p', ports := ports, role := role } i := by
  unfold uuidPre
  refine canonical_permEq ?_ hwf
  show PermEq (.obj ([("role", str role), ("processor_ref", str ref)] ++ ("params", p) ::
      [("ports", ports), ("declaration_index", num i), ("declaration_subindex", num 0)])) _
  exact permEq_at [("role", str role), ("processor_ref", str ref)] "params" p p'
    [("ports", ports), ("declaration_index", num i), ("declaration_subindex", num 0)] h

/-- The same for a re-ordering of the top-level keys of the node mapping itself: the canonical node is
    built by key lookup, so the declaration order of `processor` / `parameters` / … is never seen. -/
theorem nodeCanon_reads_fields_only (n : NodeCfg) (i : Nat) :
    nodeCanon n i = .obj [("role", str n.role), ("processor_ref", str n.processorRef), ("params", n.params),
      ("ports", n.ports), ("declaration_index", num i), ("declaration_subindex", num 0)] := rfl

theorem map_perm_members {α : Type} (f : α → String × J) {l l' : List α} (p : l.Perm l') : (l.map f).Perm (l'.map f) := p.map f

/-- **C04 (sweep metadata).** Re-ordering the `parameters` and `variables` mappings of a sweep — and with
    them the order in which `from_context` keys are met — does not change the node-semantic pre-image,
    provided the code sorts the `context_keys` list (`sortedKeys = true`). -/
theorem nodeSemPre_reorder (s s' : SweepCfg)
    (h1 : s.exprSigs.Perm s'.exprSigs) (h2 : s.varDomains.Perm s'.varDomains) (h3 : s.contextKeys.Perm s'.contextKeys)
    (hrest : s.elementRef = s'.elementRef ∧ s.mode = s'.mode ∧ s.broadcast = s'.broadcast ∧ s.collection = s'.collection
      ∧ s.requiredExternal = s'.requiredExternal)
    (hwf : wf (sweepMeta true s) = true) : nodeSemPre true s = nodeSemPre true s' := by
  obtain ⟨e1, e2, e3, e4, e5⟩ := hrest
  have hp : PermEq (sweepMeta true s) (sweepMeta true s') := by
    unfold sweepMeta
    rw [e1, e2, e3, e4, e5]
    simp only [if_true]
    rw [Aggregator.ssort_perm h3]
    exact PermEq.trans
      (permEq_at [("type", str "derive.parameter_sweep"), ("version", num 1), ("element_ref", str s'.elementRef)]
        "param_expressions" _ _ _ (.objPerm (h1.map _)))
      (permEq_at [("type", str "derive.parameter_sweep"), ("version", num 1), ("element_ref", str s'.elementRef),
          ("param_expressions", _)] "variables" _ _ _ (.objPerm h2))
  unfold nodeSemPre
  rw [canonical_permEq hp hwf]

/-! ### config id: independent of the order in which the (uuid, semantic id) pairs are listed -/

theorem insertPair_perm (x : NodeId) (ns : List NodeId) : (insertPair x ns).Perm (x :: ns) := by
  induction ns with
  | nil => exact .refl _
  | cons y ys ih =>
    unfold insertPair
    split
    · exact .refl _
    · exact (ih.cons y).trans (.swap x y ys)

theorem sortPairs_perm (ns : List NodeId) : (sortPairs ns).Perm ns := by
  induction ns with
  | nil => exact .refl _
  | cons x xs ih => exact (insertPair_perm x _).trans (ih.cons x)

theorem insertPair_sorted (x : NodeId) (ns : List NodeId) (h : ns.Pairwise (fun a b => a.uuid ≤ b.uuid)) :
    (insertPair x ns).Pairwise (fun a b => a.uuid ≤ b.uuid) := by
  induction ns with
  | nil => simp [insertPair]
  | cons y ys ih =>
    have hy := List.pairwise_cons.mp h
    unfold insertPair
    split
    · rename_i hxy
      refine List.pairwise_cons.mpr ⟨?_, h⟩
      intro z hz
      rcases List.mem_cons.mp hz with rfl | hz
      · exact hxy
      · exact String.le_trans hxy (hy.1 z hz)
    · rename_i hxy
      have hyx : y.uuid ≤ x.uuid := (String.le_total _ _).resolve_left hxy
      refine List.pairwise_cons.mpr ⟨?_, ih hy.2⟩
      intro z hz
      rcases List.mem_cons.mp ((insertPair_perm x ys).subset hz) with rfl | hz
      · exact hyx
      · exact hy.1 z hz

theorem sortPairs_sorted (ns : List NodeId) : (sortPairs ns).Pairwise (fun a b => a.uuid ≤ b.uuid) := by
  induction ns with
  | nil => exact List.Pairwise.nil
  | cons x xs ih => exact insertPair_sorted x _ ih

theorem nodeId_unique {ns : List NodeId} (hn : (ns.map (·.uuid)).Nodup) {a b : NodeId}
    (ha : a ∈ ns) (hb : b ∈ ns) (hu : a.uuid = b.uuid) : a = b := by
  induction ns with
  | nil => simp at ha
  | cons m rest ih =>
    simp only [List.map_cons, List.nodup_cons] at hn
    rcases List.mem_cons.mp ha with ha | ha <;> rcases List.mem_cons.mp hb with hb | hb
    · rw [ha, hb]
    · exfalso; apply hn.1; rw [← ha, hu]; exact List.mem_map.mpr ⟨b, hb, rfl⟩
    · exfalso; apply hn.1; rw [← hb, ← hu]; exact List.mem_map.mpr ⟨a, ha, rfl⟩
    · exact ih hn.2 ha hb

/-- **C04 (config id).** The pairs are sorted by node UUID before hashing; with pairwise distinct UUIDs
    (C05) the result does not depend on the order in which the nodes were visited. -/
theorem configPre_order_independent (ns ns' : List NodeId) (p : ns.Perm ns') (hn : (ns.map (·.uuid)).Nodup) :
    configPre ns = configPre ns' := by
  unfold configPre configPayload
  have : sortPairs ns = sortPairs ns' := by
    refine List.Perm.eq_of_pairwise ?_ (sortPairs_sorted ns) (sortPairs_sorted ns')
      ((sortPairs_perm ns).trans (p.trans (sortPairs_perm ns').symm))
    intro a b ha hb hab hba
    have ha' : a ∈ ns := (sortPairs_perm ns).subset ha
    have hb' : b ∈ ns := p.symm.subset ((sortPairs_perm ns').subset hb)
    exact nodeId_unique hn ha' hb' (String.le_antisymm hab hba)
  rw [this]

end SemantivaModel.Identity
