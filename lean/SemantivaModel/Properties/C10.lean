import SemantivaModel.Properties.C06
/-!
# C10 — tracing is purely observational and traces are reproducible

Two statements over the lifecycle model:
* `trace_observational` — with a good shape, what a traced run returns or raises, and how many nodes
  it runs, is exactly what the untraced node loop does, for every fault plan;
* `reuse_reproducible` — a `Pipeline` object caches its canonical spec; if a traced run works on a copy
  (`copiesSpec`, re-decided from a probe of the real code on every run) the cache is never changed, so the
  n-th run of the same object records the same identities as the first, for every n.
-/
namespace SemantivaModel.Trace

/-- The untraced run: nodes are constructed, then run in order until the first failure. -/
def runPlain (p : Plan) : Option ExcClass × Nat :=
  match p.construct with
  | some c => (some c, 0)
  | none =>
    match firstFailure p.nodes 0 with
    | none => (none, p.nodes.length)
    | some (j, c) => (some c, j + 1)

/-- **C10 (observational).** Attaching a trace driver does not change what the run returns or raises,
    nor which nodes run. -/
theorem trace_observational (sh : LifecycleShape) (h : sh.good = true) (p : Plan) :
    ((runTraced sh p).raised, (runTraced sh p).ran) = runPlain p := by
  rw [trace_wellformed sh h p]
  obtain ⟨construct, nodes⟩ := p
  cases construct with
  | some c => rfl
  | none =>
    simp only [expected, runPlain]
    cases firstFailure nodes 0 with
    | none => rfl
    | some jc => obtain ⟨j, c⟩ := jc; rfl

/-! ## Reuse of one Pipeline object -/

/-- The cached canonical spec, abstracted to what matters for identity: per node, whether the
    preprocessor metadata has been attached to the cached object. -/
abbrev CachedSpec := List Bool

/-- What a traced run records as identity: a function of the spec as it finds it (`idOf` is injective
    in the real code: a hash of the canonical JSON). -/
def recordedId (idOf : CachedSpec → String) (spec : CachedSpec) : String := idOf spec

/-- One traced run: records the identity of the spec it finds, then enriches — the cache itself if it
    does not copy. `hasMeta i` says node `i` carries preprocessor metadata (a sweep). -/
def tracedRun (copiesSpec : Bool) (hasMeta : List Bool) (spec : CachedSpec) : CachedSpec :=
  if copiesSpec then spec else (spec.zip hasMeta).map (fun p => p.1 || p.2)

def afterRuns (copiesSpec : Bool) (hasMeta : List Bool) (spec : CachedSpec) : Nat → CachedSpec
  | 0 => spec
  | n + 1 => afterRuns copiesSpec hasMeta (tracedRun copiesSpec hasMeta spec) n

/-- **C10 (reproducible on reuse).** If the run works on a copy, every later run of the same object finds
    the spec the first run found, hence records the same identity. -/
theorem reuse_reproducible (idOf : CachedSpec → String) (hasMeta : List Bool) (spec : CachedSpec) (n : Nat) :
    recordedId idOf (afterRuns true hasMeta spec n) = recordedId idOf spec := by
  induction n generalizing spec with
  | zero => rfl
  | succ n ih => simp only [afterRuns, tracedRun, if_true]; exact ih spec

/-- Without the copy, a pipeline with a swept node finds a different spec on its second run. -/
example : afterRuns false [false, true] [false, false] 1 ≠ [false, false] := by decide

theorem afterRuns_fixed (c : Bool) (hasMeta spec : CachedSpec) (h : tracedRun c hasMeta spec = spec) (n : Nat) :
    afterRuns c hasMeta spec n = spec := by
  induction n with
  | zero => rfl
  | succ n ih => simp only [afterRuns, h]; exact ih

/-- **C10 (reuse, both directions).** Every later run finds the spec the first run found iff the run
    copies, or enriching changes nothing (no node of this pipeline carries preprocessor metadata that is
    not already attached). -/
theorem reuse_reproducible_iff (c : Bool) (hasMeta spec : CachedSpec) :
    (∀ n, afterRuns c hasMeta spec n = spec) ↔ (c = true ∨ tracedRun false hasMeta spec = spec) := by
  constructor
  · intro h
    cases c with
    | true => exact Or.inl rfl
    | false => exact Or.inr (h 1)
  · intro h n
    cases c with
    | true => exact afterRuns_fixed true hasMeta spec (by simp [tracedRun]) n
    | false =>
      cases h with
      | inl h => cases h
      | inr h => exact afterRuns_fixed false hasMeta spec h n

/-- With an injective identity function, the second run of a non-copying pipeline with a swept node whose
    metadata is not yet attached records a different identity. -/
theorem reuse_differs_without_copy (idOf : CachedSpec → String) (hinj : ∀ a b, idOf a = idOf b → a = b)
    (hasMeta spec : CachedSpec) (h : tracedRun false hasMeta spec ≠ spec) :
    recordedId idOf (afterRuns false hasMeta spec 1) ≠ recordedId idOf spec := by
  intro e
  exact h (hinj _ _ e)

end SemantivaModel.Trace
