import SemantivaModel.Model.Sweep
import SemantivaModel.Properties.C08
/-!
# C03 — parameter sweeps expand to exactly the documented element sequence

Theorems over the sweep model for any number of variables, any sequence lengths and any wrapped
processor body.  Combinatorial enumeration *is* the run-space product over sorted keys, so its order
theorems are those of C08.
-/
namespace SemantivaModel.Sweep
open SemantivaModel.RunSpace (Cols Run posSize expandPosN expandComb sortCols combSize keysOf posRun expandComb_length expandComb_keys expandComb_getElem? expandPosN_length expandPosN_getElem? sortCols_sorted)
open SemantivaModel.Exec

/-! ## 1. Combinatorial: Cartesian product over variable names in sorted order, last name fastest -/

theorem iterate_comb (s : Spec) (h : s.byPos = false) : iterate s = .ok (expandComb (sortCols s.vars)) := by
  simp [iterate, h]

/-- number of steps = product of the sequence lengths -/
theorem comb_length (s : Spec) (h : s.byPos = false) (runs : List Run) (hr : iterate s = .ok runs) :
    runs.length = combSize (sortCols s.vars) := by
  rw [iterate_comb s h] at hr; injection hr with hr; subst hr
  exact expandComb_length _

/-- the variables are enumerated in sorted-name order (none lost, none invented) -/
theorem comb_sorted_vars (s : Spec) :
    (sortCols s.vars).Pairwise (fun a b => a.1 ≤ b.1) ∧ (sortCols s.vars).Perm s.vars := sortCols_sorted s.vars

/-- every step assigns exactly the variables, in sorted order -/
theorem comb_keys (s : Spec) (h : s.byPos = false) (runs : List Run) (hr : iterate s = .ok runs) :
    ∀ r ∈ runs, r.map (·.1) = keysOf (sortCols s.vars) := by
  rw [iterate_comb s h] at hr; injection hr with hr; subst hr
  exact expandComb_keys _

/-- index recursion (first sorted variable slowest, last fastest); see `expandComb_getElem?` -/
theorem comb_index (k : String) (vs : List RunSpace.Val) (rest : Cols) (i : Nat) (hP : 0 < combSize rest) :
    (expandComb ((k, vs) :: rest))[i]? =
      (vs[i / combSize rest]?).bind (fun v => ((expandComb rest)[i % combSize rest]?).map (fun r => (k, v) :: r)) :=
  expandComb_getElem? k vs rest i hP

/-! ## 2. by_position -/

/-- aligned positions: step `i` takes position `i` of every variable; unequal lengths are rejected -/
theorem pos_aligned (s : Spec) (hp : s.byPos = true) (hb : s.broadcast = false) (n : Nat) (hn : posSize s.vars = .ok n) :
    ∃ runs, iterate s = .ok runs ∧ runs.length = n ∧ ∀ i, i < n → runs[i]? = some (posRun s.vars i) := by
  refine ⟨expandPosN s.vars n, by simp [iterate, hp, hb, hn], expandPosN_length _ _, ?_⟩
  intro i hi
  exact expandPosN_getElem? s.vars n i hi

theorem pos_unequal_rejected (s : Spec) (hp : s.byPos = true) (hb : s.broadcast = false) (e : RunSpace.Err)
    (hn : posSize s.vars = .error e) : iterate s = .error .unequalLengths := by
  simp [iterate, hp, hb, hn]

theorem maxLen_ge (c : Cols) : ∀ kv ∈ c, kv.2.length ≤ maxLen c := by
  induction c with
  | nil => intro kv h; simp at h
  | cons x rest ih =>
    obtain ⟨k, vs⟩ := x
    intro kv h
    simp only [maxLen]
    rcases List.mem_cons.mp h with h | h
    · subst h; exact Nat.le_max_left _ _
    · exact Nat.le_trans (ih kv h) (Nat.le_max_right _ _)

/-- broadcast: as many steps as the longest sequence; step `i` takes position `i mod n_v` of variable
    `v` — shorter sequences are *cycled* (not padded, not truncated) -/
theorem pos_broadcast_cycles (s : Spec) (hp : s.byPos = true) (hb : s.broadcast = true) :
    ∃ runs, iterate s = .ok runs ∧ runs.length = maxLen s.vars
      ∧ ∀ i, i < maxLen s.vars → runs[i]? = some (cycleRun s.vars i) := by
  refine ⟨(List.range (maxLen s.vars)).map (cycleRun s.vars), by simp [iterate, hp, hb], by simp, ?_⟩
  intro i hi
  simp [List.getElem?_map, List.getElem?_range hi]

theorem cycleRun_value (c : Cols) (i : Nat) (k : String) (vs : List RunSpace.Val) (hk : (k, vs) ∈ c) (hne : vs ≠ []) :
    (k, vs[i % vs.length]'(Nat.mod_lt _ (List.length_pos_iff.mpr hne))) ∈ cycleRun c i := by
  simp only [cycleRun, List.mem_map]
  refine ⟨(k, vs), hk, ?_⟩
  have hlt : i % vs.length < vs.length := Nat.mod_lt _ (List.length_pos_iff.mpr hne)
  simp [List.getD, List.getElem?_eq_getElem hlt]

/-! ## 3. Parameter merge: computed by expression > node parameters > defaults -/

theorem lookup_append_left {α : Type} (a b : List (String × α)) (k : String) (v : α) (h : a.lookup k = some v) :
    (a ++ b).lookup k = some v := by
  induction a with
  | nil => simp at h
  | cons kv rest ih =>
    obtain ⟨k', v'⟩ := kv
    simp only [List.cons_append, List.lookup] at h ⊢
    cases hk : (k == k') <;> simp only [hk] at h ⊢
    · exact ih h
    · exact h

theorem lookup_append_right {α : Type} (a b : List (String × α)) (k : String) (h : a.lookup k = none) :
    (a ++ b).lookup k = b.lookup k := by
  induction a with
  | nil => rfl
  | cons kv rest ih =>
    obtain ⟨k', v'⟩ := kv
    simp only [List.cons_append, List.lookup] at h ⊢
    cases hk : (k == k') <;> simp only [hk] at h ⊢
    · exact ih h
    · cases h

theorem lookup_filter_none (base over : List (String × Val)) (k : String) (v : Val) (h : over.lookup k = some v) :
    (base.filter (fun kv => (over.lookup kv.1).isNone)).lookup k = none := by
  induction base with
  | nil => rfl
  | cons kv rest ih =>
    obtain ⟨k', v'⟩ := kv
    simp only [List.filter]
    cases ho : (over.lookup k').isNone with
    | false => simpa [ho] using ih
    | true =>
      simp only [ho, List.lookup]
      cases hk : (k == k') with
      | false => exact ih
      | true =>
        have : k = k' := by simpa using hk
        subst this; rw [h] at ho; cases ho

theorem lookup_filter_keep (base over : List (String × Val)) (k : String) (h : over.lookup k = none) :
    (base.filter (fun kv => (over.lookup kv.1).isNone)).lookup k = base.lookup k := by
  induction base with
  | nil => rfl
  | cons kv rest ih =>
    obtain ⟨k', v'⟩ := kv
    simp only [List.filter]
    cases ho : (over.lookup k').isNone with
    | false =>
      simp only [List.lookup]
      cases hk : (k == k') with
      | false => exact ih
      | true =>
        have : k = k' := by simpa using hk
        subst this; rw [h] at ho; cases ho
    | true =>
      simp only [List.lookup]
      cases hk : (k == k') <;> simp only []
      exact ih

/-- **C03 (merge precedence).** A parameter computed by an expression wins over the node-level value
    (which itself was resolved as configuration > context > default); otherwise the node-level value is used. -/
theorem merge_precedence (base over : List (String × Val)) (k : String) :
    (mergeParams base over).lookup k = match over.lookup k with
      | some v => some v
      | none => base.lookup k := by
  unfold mergeParams
  cases ho : over.lookup k with
  | some v => rw [lookup_append_right _ _ _ (lookup_filter_none base over k v ho)]; exact ho
  | none =>
    simp only []
    cases hb : (base.filter (fun kv => (over.lookup kv.1).isNone)).lookup k with
    | some v => rw [lookup_append_left _ _ _ _ hb, ← hb, lookup_filter_keep base over k ho]
    | none => rw [lookup_append_right _ _ _ hb, ho, ← lookup_filter_keep base over k ho, hb]

/-! ## 4. One element per step, in step order -/

theorem elements_ordered (beh : Beh) (declared elementParams : List String) (data : Option Val)
    (base : List (String × Val)) (s : Spec) :
    ∀ (runs : List Run) (vs : List Val) (ws : List (String × Val)),
      elements beh declared elementParams data base s runs = .ok (vs, ws) →
      vs.length = runs.length ∧
      ∀ (i : Nat) (hi : i < runs.length) (hi' : i < vs.length),
        ∃ w, element beh declared elementParams data base s runs[i] = .ok (vs[i], w)
  | [], vs, ws, h => by
    simp only [elements] at h; injection h with h; injection h with h1 _; subst h1
    exact ⟨rfl, by intro i hi; simp at hi⟩
  | a :: rest, vs, ws, h => by
    simp only [elements] at h
    split at h
    · cases h
    · rename_i v w hv
      split at h
      · cases h
      · rename_i vs' ws' hrest
        injection h with h; injection h with h1 _; subst h1
        have ih := elements_ordered beh declared elementParams data base s rest vs' ws' hrest
        refine ⟨by simp [ih.1], ?_⟩
        intro i hi hi'
        cases i with
        | zero => exact ⟨w, by simpa using hv⟩
        | succ i =>
          have := ih.2 i (by simpa using hi) (by simpa using hi')
          simpa using this

/-! ## 5. Publication: every variable's sequence under `<var>_values` -/

theorem published_every_var (s : Spec) (k : String) (vs : List RunSpace.Val) (hk : (k, vs) ∈ s.vars) :
    (k ++ "_values", Val.arr (vs.map Val.atom)) ∈ published s := by
  simp only [published, List.mem_map]
  exact ⟨(k, vs), hk, rfl⟩

theorem published_length (s : Spec) : (published s).length = s.vars.length := by simp [published]

/-! ## 6. Non-vacuity -/

def demo : Spec := { vars := [("y", ["10", "20"]), ("x", ["1", "2", "3"])], byPos := false, broadcast := false,
                     exprs := [("a", .tuple ["x", "y"])] }
/-- sorted (x before y), y fastest: (1,10) (1,20) (2,10) … -/
example : (iterate demo).toOption.map (fun rs => rs.take 3) =
    some [[("x", "1"), ("y", "10")], [("x", "1"), ("y", "20")], [("x", "2"), ("y", "10")]] := by decide +kernel
/-- broadcast cycles the shorter sequence: y = 10, 20, 10 -/
example : (iterate { demo with byPos := true, broadcast := true }).toOption =
    some [[("y", "10"), ("x", "1")], [("y", "20"), ("x", "2")], [("y", "10"), ("x", "3")]] := by decide +kernel
/-- without broadcast, unequal lengths are rejected -/
example : (iterate { demo with byPos := true }).toOption = none := by decide +kernel

end SemantivaModel.Sweep
